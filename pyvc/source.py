"""Locate the real source of functions under contract (DESIGN.md §2.1 step 1).

Functions are found from the *live* function object (file + first line), the file is
re-read and re-parsed on every run, and a sha256 of the exact source segment is kept
for the evidence file.  Nothing is ever re-typed by hand.
"""

from __future__ import annotations

import ast
import hashlib
import inspect
import os
from dataclasses import dataclass
from typing import Any

from .values import Unsupported

_file_cache: dict[str, tuple[str, ast.Module]] = {}


def repo_root() -> str:
    return os.path.realpath(os.environ.get("VERIF_REPO", "/repo"))


def parse_file(path: str) -> tuple[str, ast.Module]:
    path = os.path.realpath(path)
    if path not in _file_cache:
        with open(path, encoding="utf-8") as fh:
            text = fh.read()
        _file_cache[path] = (text, ast.parse(text, filename=path))
    return _file_cache[path]


@dataclass
class FuncSource:
    path: str
    qualname: str
    node: ast.FunctionDef | ast.AsyncFunctionDef | ast.Lambda
    sha256: str
    nodes: int
    loops: list[ast.AST]

    @property
    def relpath(self) -> str:
        root = repo_root()
        return os.path.relpath(self.path, root) if self.path.startswith(root) else self.path


_src_cache: dict[tuple[str, int, str], FuncSource] = {}


def _walk_defs(node: ast.AST, prefix: str, out: dict[str, ast.AST]) -> None:
    for child in ast.iter_child_nodes(node):
        if isinstance(child, (ast.FunctionDef, ast.AsyncFunctionDef)):
            q = f"{prefix}{child.name}"
            out.setdefault(q, child)
            _walk_defs(child, q + ".<locals>.", out)
        elif isinstance(child, ast.ClassDef):
            _walk_defs(child, f"{prefix}{child.name}.", out)
        elif isinstance(child, (ast.If, ast.Try, ast.With, ast.For, ast.While)):
            _walk_defs(child, prefix, out)


def loops_of(node: ast.AST) -> list[ast.AST]:
    """Loops of a function in source order, not descending into nested defs."""
    found: list[ast.AST] = []

    def rec(n: ast.AST) -> None:
        for c in ast.iter_child_nodes(n):
            if isinstance(c, (ast.FunctionDef, ast.AsyncFunctionDef, ast.Lambda, ast.ClassDef)):
                continue
            if isinstance(c, (ast.For, ast.While, ast.AsyncFor)):
                found.append(c)
            rec(c)

    rec(node)
    found.sort(key=lambda n: (n.lineno, n.col_offset))
    return found


def _mk(path: str, qualname: str, node: Any) -> FuncSource:
    text, _ = parse_file(path)
    seg = ast.get_source_segment(text, node) or ""
    return FuncSource(
        path=os.path.realpath(path),
        qualname=qualname,
        node=node,
        sha256=hashlib.sha256(seg.encode()).hexdigest(),
        nodes=sum(1 for _ in ast.walk(node)),
        loops=loops_of(node),
    )


def source_by_name(relpath: str, qualname: str) -> FuncSource:
    path = os.path.join(repo_root(), relpath)
    _, tree = parse_file(path)
    defs: dict[str, ast.AST] = {}
    _walk_defs(tree, "", defs)
    if qualname not in defs:
        raise Unsupported(f"function {qualname} not found in {relpath} (renamed or removed?)")
    return _mk(path, qualname, defs[qualname])


def unwrap(fn: Any) -> Any:
    seen = 0
    while seen < 10:
        seen += 1
        if isinstance(fn, (staticmethod, classmethod)):
            fn = fn.__func__
        elif isinstance(fn, property):
            fn = fn.fget
        elif hasattr(fn, "__wrapped__"):
            fn = fn.__wrapped__
        elif inspect.ismethod(fn):
            fn = fn.__func__
        else:
            break
    return fn


def source_of(fn: Any) -> FuncSource:
    fn = unwrap(fn)
    code = getattr(fn, "__code__", None)
    if code is None:
        raise Unsupported(f"no Python source for {fn!r}")
    path = os.path.realpath(code.co_filename)
    key = (path, code.co_firstlineno, code.co_name)
    if key in _src_cache:
        return _src_cache[key]
    _, tree = parse_file(path)
    best = None
    for n in ast.walk(tree):
        if isinstance(n, (ast.FunctionDef, ast.AsyncFunctionDef)) and n.name == code.co_name:
            first = min([n.lineno] + [d.lineno for d in n.decorator_list])
            if first == code.co_firstlineno or n.lineno == code.co_firstlineno:
                best = n
                break
        elif isinstance(n, ast.Lambda) and code.co_name == "<lambda>" and n.lineno == code.co_firstlineno:
            best = n
            break
    if best is None:
        raise Unsupported(f"cannot locate AST of {fn!r} at {path}:{code.co_firstlineno} (stale import?)")
    fs = _mk(path, getattr(fn, "__qualname__", code.co_name), best)
    _src_cache[key] = fs
    return fs
