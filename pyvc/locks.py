"""Lock-coverage obligations (DESIGN §2.5).

``coverage(cls, lock_attr, guarded, ...)`` scans the real AST of *every* method of a class
and returns one record per access to a guarded field, saying whether the access is inside
``with self.<lock_attr>:`` (or in a helper documented to be called with the lock held, all of
whose call sites are then checked to be inside the lock).  Given coverage, critical sections
are serialised by mutual exclusion, so a sequential contract proved for each critical section
holds in every interleaving (the monitor argument).
"""

from __future__ import annotations

import ast
import inspect
from dataclasses import dataclass
from typing import Any

from .source import source_of


@dataclass
class Access:
    method: str
    field: str
    line: int
    text: str
    covered: bool
    why: str


def _is_self_attr(n: ast.AST, names: set[str], self_name: str = "self") -> str | None:
    if isinstance(n, ast.Attribute) and isinstance(n.value, ast.Name) and n.value.id == self_name and n.attr in names:
        return n.attr
    return None


def _with_holds(st: ast.With | ast.AsyncWith, lock_attr: str, self_name: str, aliases: set[str]) -> bool:
    for it in st.items:
        e = it.context_expr
        if isinstance(e, ast.Attribute) and isinstance(e.value, ast.Name) and e.value.id == self_name and e.attr == lock_attr:
            return True
        if isinstance(e, ast.Name) and e.id in aliases:
            return True
    return False


def coverage(
    cls: type,
    lock_attr: str,
    guarded: set[str],
    exempt_methods: set[str] = frozenset({"__init__"}),  # type: ignore[assignment]
    held_helpers: set[str] = frozenset(),  # type: ignore[assignment]
    read_ok: set[str] = frozenset(),  # type: ignore[assignment]
) -> list[Access]:
    """Accesses to guarded fields in all methods of ``cls`` with their coverage verdict.

    ``held_helpers``: methods whose contract is "caller holds the lock"; their bodies count as
    covered, and every ``self.<helper>(...)`` call site must itself be covered.
    ``read_ok``: fields whose *reads* outside the lock are a documented fast path (writes are
    still checked)."""
    out: list[Access] = []
    methods: dict[str, Any] = {}
    for name, member in cls.__dict__.items():
        fn = member
        if isinstance(member, (staticmethod, classmethod)):
            fn = member.__func__
        elif isinstance(member, property):
            fn = member.fget
        if inspect.isfunction(fn):
            methods[name] = fn
    targets = set(guarded) | set(held_helpers)
    for mname, fn in sorted(methods.items()):
        fs = source_of(fn)
        node = fs.node
        self_name = node.args.args[0].arg if node.args.args else "self"

        def visit(n: ast.AST, held: bool, aliases: dict[str, str]) -> None:
            if isinstance(n, (ast.With, ast.AsyncWith)):
                h = held or _with_holds(n, lock_attr, self_name, set())
                for it in n.items:
                    visit(it.context_expr, held, aliases)
                for b in n.body:
                    visit(b, h, aliases)
                return
            if isinstance(n, (ast.FunctionDef, ast.AsyncFunctionDef, ast.Lambda)) and n is not node:
                # nested function: runs later, lock state unknown -> not held
                for c in ast.iter_child_nodes(n):
                    visit(c, False, aliases)
                return
            # local alias:  entries = self._entries   (the alias read is itself an access)
            if isinstance(n, ast.Assign) and len(n.targets) == 1 and isinstance(n.targets[0], ast.Name):
                f = _is_self_attr(n.value, guarded, self_name)
                if f:
                    aliases[n.targets[0].id] = f
            f = _is_self_attr(n, targets, self_name)
            if f is not None:
                is_store = isinstance(getattr(n, "ctx", None), (ast.Store, ast.Del))
                if mname in exempt_methods:
                    cov, why = True, "constructor: object not yet shared"
                elif mname in held_helpers:
                    cov, why = True, "helper called with the lock held (its call sites are checked)"
                elif held:
                    cov, why = True, f"inside with self.{lock_attr}"
                elif f in read_ok and not is_store:
                    cov, why = True, "documented unlocked read (fast path); writes are checked"
                else:
                    cov, why = False, f"access outside with self.{lock_attr}"
                out.append(Access(mname, f, getattr(n, "lineno", 0), ast.unparse(n), cov, why))
            for c in ast.iter_child_nodes(n):
                visit(c, held, aliases)

        for st in node.body:
            visit(st, False, {})
    return out


# ---- frame conditions: what a class's methods / a module's functions write outside their locals ----------

_MUTATORS = {
    "append", "insert", "pop", "extend", "remove", "clear", "update", "setdefault", "popitem",
    "move_to_end", "add", "discard", "sort", "reverse", "appendleft", "popleft", "__setitem__", "__delitem__",
}  # fmt: skip


def methods_of(cls: type) -> dict[str, Any]:
    methods: dict[str, Any] = {}
    for name, member in cls.__dict__.items():
        fn = member
        if isinstance(member, (staticmethod, classmethod)):
            fn = member.__func__
        elif isinstance(member, property):
            fn = member.fget
        if inspect.isfunction(fn):
            methods[name] = fn
    return methods


def _root_self_attr(e: ast.AST, self_name: str) -> str | None:
    """self.X, self.X[...], self.X.y ... -> 'X' (the attribute of the shared object through which something is reached)."""
    while isinstance(e, (ast.Attribute, ast.Subscript)):
        if isinstance(e, ast.Attribute) and isinstance(e.value, ast.Name) and e.value.id == self_name:
            return e.attr
        e = e.value
    return None


def self_writes(cls: type, exempt_methods: set[str] = frozenset({"__init__"})) -> list[Access]:  # type: ignore[assignment]
    """Every place where a method of ``cls`` stores to, deletes, or calls a mutator through an attribute of ``self``
    (``self.x = ..``, ``self.x[k] = ..``, ``self.x.y = ..``, ``del self.x``, ``self.x += ..``, ``self.x.append(..)``,
    ``setattr(self, ..)``, ``self.__dict__[..] = ..``) - the write set of the shared object, for frame obligations."""
    out: list[Access] = []
    for mname, fn in sorted(methods_of(cls).items()):
        if mname in exempt_methods:
            continue
        node = source_of(fn).node
        self_name = node.args.args[0].arg if node.args.args else "self"
        for n in ast.walk(node):
            if isinstance(n, (ast.Attribute, ast.Subscript)) and isinstance(getattr(n, "ctx", None), (ast.Store, ast.Del)):
                f = _root_self_attr(n, self_name)
                if f is not None:
                    out.append(Access(mname, f, getattr(n, "lineno", 0), ast.unparse(n), False, "store/delete through self"))
            elif isinstance(n, ast.Call) and isinstance(n.func, ast.Attribute) and n.func.attr in _MUTATORS:
                f = _root_self_attr(n.func.value, self_name)
                if f is not None:
                    out.append(Access(mname, f, getattr(n, "lineno", 0), ast.unparse(n)[:120], False, f"mutating call .{n.func.attr}() through self"))
            elif isinstance(n, ast.Call) and isinstance(n.func, ast.Name) and n.func.id in ("setattr", "delattr") and n.args and isinstance(n.args[0], ast.Name) and n.args[0].id == self_name:
                nm = n.args[1].value if len(n.args) > 1 and isinstance(n.args[1], ast.Constant) else "<dynamic>"
                out.append(Access(mname, str(nm), getattr(n, "lineno", 0), ast.unparse(n)[:120], False, f"{n.func.id}(self, ...)"))
    return out


def module_writes(module: Any) -> list[Access]:
    """Writes to module-level state from inside functions/methods of ``module``: ``global x`` rebinding, and stores /
    mutating calls through a module-level name that is not shadowed by a local or parameter."""
    tree = ast.parse(open(module.__file__).read())
    top: set[str] = set()
    for st in tree.body:
        if isinstance(st, ast.Assign):
            for t in st.targets:
                if isinstance(t, ast.Name):
                    top.add(t.id)
        elif isinstance(st, ast.AnnAssign) and isinstance(st.target, ast.Name):
            top.add(st.target.id)
    out: list[Access] = []

    def fn_locals(fn: ast.AST) -> set[str]:
        loc: set[str] = set()
        a = fn.args  # type: ignore[attr-defined]
        for x in [*a.posonlyargs, *a.args, *a.kwonlyargs, *( [a.vararg] if a.vararg else []), *([a.kwarg] if a.kwarg else [])]:
            loc.add(x.arg)
        glob: set[str] = set()
        for n in ast.walk(fn):
            if isinstance(n, ast.Global):
                glob |= set(n.names)
        for n in ast.walk(fn):
            if isinstance(n, ast.Name) and isinstance(n.ctx, ast.Store) and n.id not in glob:
                loc.add(n.id)
        return loc

    def root_name(e: ast.AST) -> str | None:
        while isinstance(e, (ast.Attribute, ast.Subscript)):
            e = e.value
        return e.id if isinstance(e, ast.Name) else None

    def scan(fn: ast.AST, qual: str, outer_locals: set[str]) -> None:
        loc = fn_locals(fn) | outer_locals
        for n in ast.walk(fn):
            if isinstance(n, ast.Global):
                for nm in n.names:
                    out.append(Access(qual, nm, n.lineno, f"global {nm}", False, "rebinding of a module-level name"))
            elif isinstance(n, (ast.Attribute, ast.Subscript)) and isinstance(getattr(n, "ctx", None), (ast.Store, ast.Del)):
                r = root_name(n)
                if r in top and r not in loc:
                    out.append(Access(qual, r, n.lineno, ast.unparse(n), False, "store through a module-level name"))
            elif isinstance(n, ast.Call) and isinstance(n.func, ast.Attribute) and n.func.attr in _MUTATORS:
                r = root_name(n.func.value)
                if r in top and r not in loc:
                    out.append(Access(qual, r, n.lineno, ast.unparse(n)[:120], False, f"mutating call .{n.func.attr}() on a module-level name"))

    for st in tree.body:
        if isinstance(st, (ast.FunctionDef, ast.AsyncFunctionDef)):
            scan(st, st.name, set())
        elif isinstance(st, ast.ClassDef):
            for m in st.body:
                if isinstance(m, (ast.FunctionDef, ast.AsyncFunctionDef)):
                    scan(m, f"{st.name}.{m.name}", set())
    return out
