"""AST interpreter over symbolic values (DESIGN §2.2, §2.4, §3.2, §3.3)."""

from __future__ import annotations

import ast
import builtins
import inspect
import types
from typing import Any

import z3

from . import values as V
from .core import Exec, PathEnd, PyRaise
from .source import FuncSource, source_of, unwrap
from .values import SBool, SExc, SInt, SList, SMap, SObj, SODict, Sym, Unsupported

LOGGER_NAMES = ("_logger", "_shm_logger", "_access_logger", "logger", "_LOGGER", "_log")


class _Return(Exception):
    def __init__(self, value: Any) -> None:
        self.value = value


class _Break(Exception):
    pass


class _Continue(Exception):
    pass


class Unbound:
    pass


UNBOUND = Unbound()
SYM_KW = "**"  # key under which ``f(**m)`` with a symbolic map m travels from eval_args to bind_args


class Frame:
    def __init__(self, fs: FuncSource | None, globals_: dict[str, Any], parent: "Frame | None" = None, qualname: str = "") -> None:
        self.fs = fs
        self.locals: dict[str, Any] = {}
        self.globals = globals_
        self.parent = parent
        self.nonlocals: set[str] = set()
        self.global_names: set[str] = set()
        self.qualname = qualname
        self.cells: dict[str, Any] = {}  # free variables of a live closure
        self.node: Any = fs.node if (fs is not None and parent is None) else None
        self._loops: list[Any] | None = None

    def loops(self) -> list[Any]:
        if self._loops is None:
            from .source import loops_of

            self._loops = loops_of(self.node) if self.node is not None else []
        return self._loops

    def lookup(self, name: str) -> Any:
        f: Frame | None = self
        while f is not None:
            if name in f.locals and name not in f.nonlocals:
                return f.locals[name]
            if name in f.cells:
                try:
                    return f.cells[name].cell_contents
                except ValueError:
                    raise PyRaise(NameError(name)) from None
            f = f.parent
        if name in self.globals:
            return self.globals[name]
        if hasattr(builtins, name):
            return getattr(builtins, name)
        raise PyRaise(NameError(f"name {name!r} is not defined"))

    def store(self, name: str, value: Any) -> None:
        if name in self.nonlocals:
            f = self.parent
            while f is not None:
                if name in f.locals:
                    f.locals[name] = value
                    return
                f = f.parent
            raise Unsupported(f"nonlocal {name} not found")
        if name in self.global_names:
            raise Unsupported(f"assignment to global {name}")
        self.locals[name] = value


class Closure:
    """A function defined (def / lambda) while interpreting."""

    def __init__(self, node: Any, frame: Frame, qualname: str, defaults: list[Any], kw_defaults: dict[str, Any]) -> None:
        self.node, self.frame, self.qualname = node, frame, qualname
        self.defaults, self.kw_defaults = defaults, kw_defaults
        self.__name__ = getattr(node, "name", "<lambda>")

    def __repr__(self) -> str:
        return f"<Closure {self.qualname}>"


class BoundMethod:
    def __init__(self, obj: Any, fn: Any, name: str) -> None:
        self.obj, self.fn, self.name = obj, fn, name

    def __repr__(self) -> str:
        return f"<BoundMethod {self.name} of {self.obj!r}>"


class SymMethod:
    """Method of a symbolic scalar / container, dispatched to models."""

    def __init__(self, obj: Any, name: str) -> None:
        self.obj, self.name = obj, name


class Locals:
    """View handed to invariants: ``L.name`` reads a local of the verified function."""

    def __init__(self, frame: Frame, extra: dict[str, Any]) -> None:
        object.__setattr__(self, "_f", frame)
        object.__setattr__(self, "_x", extra)

    def __getattr__(self, name: str) -> Any:
        x = object.__getattribute__(self, "_x")
        if name in x:
            return x[name]
        f = object.__getattribute__(self, "_f")
        try:
            return f.lookup(name)
        except PyRaise:
            raise Unsupported(f"invariant refers to unknown local {name!r}") from None


def call_handler(h: Any, *args: Any, **kwargs: Any) -> Any:
    """Invoke a contract handler.  A handler whose signature cannot take the call the real code now makes (a
    new keyword argument, say) means the *contract* is out of date with the code: undecided, never a crash."""
    try:
        inspect.signature(h).bind(*args, **kwargs)
    except TypeError as e:
        raise Unsupported(f"by-contract handler {getattr(h, '__qualname__', h)!r} does not accept this call: {e}") from None
    except ValueError:
        pass
    return h(*args, **kwargs)


def qual_of(fn: Any) -> str:
    fn = unwrap(fn)
    return f"{getattr(fn, '__module__', '?')}.{getattr(fn, '__qualname__', getattr(fn, '__name__', '?'))}"


class Interp:
    def __init__(self, S: Exec) -> None:
        self.S = S
        self.depth = 0
        from . import models

        self.models = models

    # ==================================================================================
    # function calls
    # ==================================================================================
    def find_handler(self, fn: Any) -> Any:
        H = self.S.handlers
        try:
            if fn in H:
                return H[fn]
        except TypeError:
            pass
        u = unwrap(fn)
        try:
            if u in H:
                return H[u]
        except TypeError:
            pass
        q = getattr(u, "__qualname__", None)
        m = getattr(u, "__module__", None)
        if q:
            if m and f"{m}.{q}" in H:
                return H[f"{m}.{q}"]
            if q in H:
                return H[q]
        return None

    def call_function(self, fn: Any, args: list[Any], kwargs: dict[str, Any], force_inline: bool = False, yield_hook: Any = None) -> Any:
        """Interpret the real Python function ``fn`` (live function object).  ``yield_hook`` drives a
        (async) generator function directly: every ``yield`` hands its value to the hook, whose result is
        the value of the yield expression (an exception raised by the hook is thrown in at the yield)."""
        if isinstance(fn, Closure):
            return self.call_closure(fn, args, kwargs)
        if isinstance(fn, BoundMethod):
            return self.call_value(fn, args, kwargs)
        raw = fn
        if inspect.ismethod(fn):
            args = [fn.__self__] + args
            fn = fn.__func__
        fn = unwrap(fn)
        if not isinstance(fn, types.FunctionType):
            raise Unsupported(f"cannot interpret {raw!r}")
        fs = source_of(fn)
        self.S.functions[f"{fs.relpath}::{fs.qualname}"] = {"sha256": fs.sha256, "nodes": fs.nodes}
        frame = Frame(fs, fn.__globals__, None, fs.qualname)
        if yield_hook is not None:
            frame.yield_hook = yield_hook  # type: ignore[attr-defined]
        if fn.__closure__:
            for name, cell in zip(fn.__code__.co_freevars, fn.__closure__):
                frame.cells[name] = cell
        defaults = list(fn.__defaults__ or ())
        kwdefaults = dict(fn.__kwdefaults__ or {})
        self.bind_args(fs.node.args, frame, args, kwargs, defaults, kwdefaults, fs.qualname)
        return self.run_body(fs.node, frame)

    def call_closure(self, c: Closure, args: list[Any], kwargs: dict[str, Any]) -> Any:
        frame = Frame(c.frame.fs, c.frame.globals, c.frame, c.qualname)
        frame.node = c.node
        self.bind_args(c.node.args, frame, args, kwargs, c.defaults, c.kw_defaults, c.qualname)
        if isinstance(c.node, ast.Lambda):
            return self.eval(c.node.body, frame)
        return self.run_body(c.node, frame)

    def bind_args(
        self, a: ast.arguments, frame: Frame, args: list[Any], kwargs: dict[str, Any], defaults: list[Any], kwdefaults: dict[str, Any], qn: str
    ) -> None:
        pos = [x.arg for x in a.posonlyargs + a.args]
        kwargs = dict(kwargs)
        # ``f(**m)`` with a symbolic map m (carried under SYM_KW by eval_args): a key equal to a parameter name
        # binds that parameter (TypeError if it is already bound), the remaining keys go to ``**kwargs``
        sym = kwargs.pop(SYM_KW, None)
        posonly = {x.arg for x in a.posonlyargs}

        def sym_has(name: str) -> bool:
            return sym is not None and name not in posonly and self.S.fork(sym.has(name))

        if len(args) > len(pos) and a.vararg is None:
            raise PyRaise(SExc(TypeError, (f"{qn}() takes {len(pos)} positional arguments but {len(args)} were given",)))
        for name, val in zip(pos, args):
            frame.locals[name] = val
        if a.vararg is not None:
            frame.locals[a.vararg.arg] = tuple(args[len(pos) :])
        first_default = len(pos) - len(defaults)
        for i, name in enumerate(pos):
            if i < len(args):
                if name in kwargs or sym_has(name):
                    raise PyRaise(SExc(TypeError, (f"{qn}() got multiple values for argument {name!r}",)))
                continue
            if name in kwargs:
                frame.locals[name] = kwargs.pop(name)
            elif sym_has(name):
                frame.locals[name] = sym.val(name)
                sym.delete(name)
            elif i >= first_default:
                frame.locals[name] = defaults[i - first_default]
            else:
                raise PyRaise(SExc(TypeError, (f"{qn}() missing required argument {name!r}",)))
        for k in a.kwonlyargs:
            if k.arg in kwargs:
                frame.locals[k.arg] = kwargs.pop(k.arg)
            elif sym_has(k.arg):
                frame.locals[k.arg] = sym.val(k.arg)
                sym.delete(k.arg)
            elif k.arg in kwdefaults:
                frame.locals[k.arg] = kwdefaults[k.arg]
            else:
                raise PyRaise(SExc(TypeError, (f"{qn}() missing keyword-only argument {k.arg!r}",)))
        if a.kwarg is not None:
            if sym is not None:
                for k, v in kwargs.items():  # explicit keywords: disjoint from the map's keys (checked at the call)
                    sym.store(k, v)
                frame.locals[a.kwarg.arg] = sym
            else:
                frame.locals[a.kwarg.arg] = kwargs
        elif kwargs:
            raise PyRaise(SExc(TypeError, (f"{qn}() got an unexpected keyword argument {next(iter(kwargs))!r}",)))
        elif sym is not None and self.S.fork(SBool(sym.size > 0)):
            raise PyRaise(SExc(TypeError, (f"{qn}() got an unexpected keyword argument",)))

    def run_body(self, node: Any, frame: Frame) -> Any:
        self.depth += 1
        if self.depth > 40:
            raise Unsupported("call depth > 40")
        try:
            self.exec_block(node.body, frame)
            return None
        except _Return as r:
            return r.value
        finally:
            self.depth -= 1

    # ----------------------------------------------------------------------------------
    def call_value(self, f: Any, args: list[Any], kwargs: dict[str, Any]) -> Any:
        S = self.S
        if isinstance(f, Closure):
            h = S.handlers.get(f.qualname)
            if h is not None:
                return call_handler(h, S, *args, **kwargs)
            return self.call_closure(f, args, kwargs)
        if isinstance(f, BoundMethod):
            h = self.find_handler(f.fn) if f.fn is not None else None
            if h is None and isinstance(f.obj, SObj):
                h = S.handlers.get(f"{f.obj.kind}.{f.name}")
            if h is not None:
                return call_handler(h, S, f.obj, *args, **kwargs)
            if f.fn is None:
                raise Unsupported(f"no contract for method {f.obj.kind}.{f.name}")
            return self.dispatch_repo_function(f.fn, [f.obj] + args, kwargs)
        if isinstance(f, SymMethod):
            return self.models.call_sym_method(self, f.obj, f.name, args, kwargs)
        if isinstance(f, SObj):
            h = S.handlers.get(f"{f.kind}.__call__")
            if h is not None:
                return h(S, f, *args, **kwargs)
            if f.cls is not None:
                call = inspect.getattr_static(f.cls, "__call__", None)
                if call is not None:
                    return self.dispatch_repo_function(call, [f] + args, kwargs)
            raise Unsupported(f"call of {f!r} has no contract")
        if isinstance(f, V.SOpaque) and S.handlers.get(f"{f.kind}.__call__") is not None:
            # an opaque (possibly nullable "Kind?") callable reference whose call is given by contract
            return S.handlers[f"{f.kind}.__call__"](S, f, *args, **kwargs)
        h = self.find_handler(f)
        if h is not None:
            return call_handler(h, S, *args, **kwargs)
        recv0 = getattr(f, "__self__", None)
        if recv0 is not None and not inspect.ismodule(recv0):
            # per-object handler for a method of a concrete object, e.g. (a_context_var, "get")
            try:
                hk = S.handlers.get((recv0, getattr(f, "__name__", "")))
            except TypeError:
                hk = None
            if hk is not None:
                return call_handler(hk, S, *args, **kwargs)
        m = self.models.lookup_builtin(f)
        if m is not None:
            return m(self, *args, **kwargs)
        if inspect.ismethod(f) or isinstance(f, types.BuiltinMethodType) and getattr(f, "__self__", None) is not None and not inspect.ismodule(f.__self__):
            recv = f.__self__
            if inspect.ismethod(f) and isinstance(unwrap(f), types.FunctionType) and self.is_repo_fn(unwrap(f)):
                return self.dispatch_repo_function(unwrap(f), [recv] + args, kwargs)
            return self.models.call_concrete_method(self, recv, f.__name__, f, args, kwargs)
        if isinstance(f, type):
            return self.models.construct(self, f, args, kwargs)
        if isinstance(f, types.FunctionType) and self.is_repo_fn(f):
            return self.dispatch_repo_function(f, args, kwargs)
        if V.contains_sym(args) or V.contains_sym(kwargs):
            raise Unsupported(f"unmodelled call {qual_of(f)} with symbolic arguments")
        return self.native_call(f, args, kwargs)

    def is_repo_fn(self, fn: Any) -> bool:
        mod = getattr(fn, "__module__", "") or ""
        return mod.startswith("vgi_rpc")

    def dispatch_repo_function(self, fn: Any, args: list[Any], kwargs: dict[str, Any]) -> Any:
        S = self.S
        fn = unwrap(fn)
        h = self.find_handler(fn)
        if h is not None:
            return call_handler(h, S, *args, **kwargs)
        q = getattr(fn, "__qualname__", "")
        full = qual_of(fn)
        if q in S.inline or full in S.inline or "*" in S.inline:
            return self.call_function(fn, args, kwargs)
        if (q in S.native or full in S.native) and not V.contains_sym(args) and not V.contains_sym(kwargs):
            return self.native_call(fn, args, kwargs)
        # A repo function the contract file says nothing about (typically a helper introduced by a later change to
        # /repo): executing its real body is always sound - contracts on callees are a modularity device, not a
        # soundness one - so it is inlined, and the evidence says so.
        S.note(f"inlined without a contract of its own: {full}")
        return self.call_function(fn, args, kwargs)

    def native_call(self, f: Any, args: list[Any], kwargs: dict[str, Any]) -> Any:
        if self.models.is_impure(f):
            raise Unsupported(f"impure native call {qual_of(f)} needs an assumed contract")
        try:
            return f(*args, **kwargs)
        except V.SymbolicCoercion:
            raise
        except Unsupported:
            raise
        except PathEnd:
            raise
        except PyRaise:
            raise
        except Exception as e:  # a genuine Python exception of the concrete computation
            raise PyRaise(e) from None

    # ==================================================================================
    # statements
    # ==================================================================================
    def exec_block(self, body: list[ast.stmt], frame: Frame) -> None:
        for st in body:
            self.exec_stmt(st, frame)

    def site(self, node: ast.AST, frame: Frame) -> str:
        txt = getattr(node, "_pyvc_site_text", None)  # memoised on the (shared, immutable) AST node: unparse once per statement, not per execution
        if txt is None:
            try:
                txt = ast.unparse(node)
            except Exception:
                txt = type(node).__name__
            txt = " ".join(txt.split())[:100]
            try:
                node._pyvc_site_text = txt  # type: ignore[attr-defined]
            except Exception:
                pass
        return f"{frame.qualname}: {txt}"

    def exec_stmt(self, st: ast.stmt, frame: Frame) -> None:
        S = self.S
        S.cur_site = self.site(st, frame) if not isinstance(st, (ast.If, ast.For, ast.While, ast.Try, ast.With, ast.FunctionDef)) else S.cur_site
        m = getattr(self, "st_" + type(st).__name__, None)
        if m is None:
            raise Unsupported(f"statement {type(st).__name__} at {frame.qualname}:{st.lineno}")
        m(st, frame)

    def st_Pass(self, st: ast.Pass, frame: Frame) -> None:
        pass

    def st_Expr(self, st: ast.Expr, frame: Frame) -> None:
        if isinstance(st.value, ast.Constant):
            return  # docstring (dropped, DESIGN §2.2)
        if self.is_logging_call(st.value, frame):
            return
        self.eval(st.value, frame)

    def is_logging_call(self, e: ast.expr, frame: Frame) -> bool:
        """Logging calls are dropped by extraction (assumed not to raise / not to touch state)."""
        if isinstance(e, ast.Call) and isinstance(e.func, ast.Attribute):
            base = e.func.value
            if e.func.attr in ("debug", "info", "warning", "error", "exception", "critical", "log"):
                if isinstance(base, ast.Name) and (base.id in LOGGER_NAMES or base.id.endswith("_logger") or base.id.endswith("logger")):
                    if f"{base.id}.{e.func.attr}" in self.S.handlers:
                        return False  # the contract observes this logger call (handler keyed "<name>.<method>"): evaluate it
                    self.S.note("dropped logging calls (assumed not to raise and not to modify program state)")
                    return True
        return False

    def st_Return(self, st: ast.Return, frame: Frame) -> None:
        raise _Return(self.eval(st.value, frame) if st.value is not None else None)

    def st_Assign(self, st: ast.Assign, frame: Frame) -> None:
        v = self.eval(st.value, frame)
        for t in st.targets:
            self.assign(t, v, frame)

    def st_AnnAssign(self, st: ast.AnnAssign, frame: Frame) -> None:
        if st.value is not None:
            self.assign(st.target, self.eval(st.value, frame), frame)

    def st_AugAssign(self, st: ast.AugAssign, frame: Frame) -> None:
        if isinstance(st.target, ast.Name):
            cur = frame.lookup(st.target.id)
        elif isinstance(st.target, ast.Attribute):
            obj = self.eval(st.target.value, frame)
            cur = self.getattr_value(obj, st.target.attr)
            r = self.models.binop(self, st.op, cur, self.eval(st.value, frame))
            self.setattr_value(obj, st.target.attr, r)
            return
        elif isinstance(st.target, ast.Subscript):
            obj = self.eval(st.target.value, frame)
            idx = self.eval_index(st.target.slice, frame)
            cur = self.models.subscript(self, obj, idx)
            r = self.models.binop(self, st.op, cur, self.eval(st.value, frame))
            self.models.store_subscript(self, obj, idx, r)
            return
        else:
            raise Unsupported("augmented assignment target")
        rhs = self.eval(st.value, frame)
        if isinstance(cur, list) and isinstance(st.op, ast.Add):
            cur.extend(rhs)  # in-place, as CPython
            return
        self.assign(st.target, self.models.binop(self, st.op, cur, rhs), frame)

    def assign(self, t: ast.expr, v: Any, frame: Frame) -> None:
        if isinstance(t, ast.Name):
            frame.store(t.id, v)
        elif isinstance(t, (ast.Tuple, ast.List)):
            items = self.models.unpack(self, v, len(t.elts), any(isinstance(e, ast.Starred) for e in t.elts))
            if any(isinstance(e, ast.Starred) for e in t.elts):
                raise Unsupported("starred unpacking")
            for e, x in zip(t.elts, items):
                self.assign(e, x, frame)
        elif isinstance(t, ast.Attribute):
            self.setattr_value(self.eval(t.value, frame), t.attr, v)
        elif isinstance(t, ast.Subscript):
            obj = self.eval(t.value, frame)
            self.models.store_subscript(self, obj, self.eval_index(t.slice, frame), v)
        else:
            raise Unsupported(f"assignment target {type(t).__name__}")

    def st_Delete(self, st: ast.Delete, frame: Frame) -> None:
        for t in st.targets:
            if isinstance(t, ast.Subscript):
                self.models.del_subscript(self, self.eval(t.value, frame), self.eval_index(t.slice, frame))
            elif isinstance(t, ast.Name):
                frame.locals.pop(t.id, None)
            else:
                raise Unsupported("del target")

    def st_If(self, st: ast.If, frame: Frame) -> None:
        if self.branch(st.test, frame):
            self.exec_block(st.body, frame)
        else:
            self.exec_block(st.orelse, frame)

    def branch(self, test: ast.expr, frame: Frame) -> bool:
        v = self.eval(test, frame)
        return self.S.fork(V.truth(v))

    def st_Assert(self, st: ast.Assert, frame: Frame) -> None:
        if not self.branch(st.test, frame):
            msg = (self.eval(st.msg, frame),) if st.msg is not None else ()
            raise self.mkraise(SExc(AssertionError, msg), frame)

    def st_Raise(self, st: ast.Raise, frame: Frame) -> None:
        if st.exc is None:
            cur = getattr(frame, "handling", None)
            f = frame
            while cur is None and f.parent is not None:
                f = f.parent
                cur = getattr(f, "handling", None)
            if cur is None:
                raise PyRaise(SExc(RuntimeError, ("No active exception to re-raise",)))
            raise PyRaise(cur)
        e = self.eval(st.exc, frame)
        if isinstance(e, type) and issubclass(e, BaseException):
            e = self.models.construct(self, e, [], {})
        if st.cause is not None:
            cause = self.eval(st.cause, frame)
            if isinstance(e, SExc):
                e.cause = cause
        if isinstance(e, SExc) and not e.site:
            e.site = self.site(st, frame)
        if not isinstance(e, (SExc, BaseException)):
            raise self.mkraise(SExc(TypeError, ("exceptions must derive from BaseException",)), frame)
        raise PyRaise(e)

    def mkraise(self, e: SExc, frame: Frame | None = None) -> PyRaise:
        if not e.site:
            e.site = self.S.cur_site
        return PyRaise(e)

    def st_Global(self, st: ast.Global, frame: Frame) -> None:
        frame.global_names.update(st.names)

    def st_Nonlocal(self, st: ast.Nonlocal, frame: Frame) -> None:
        frame.nonlocals.update(st.names)

    def st_Break(self, st: ast.Break, frame: Frame) -> None:
        raise _Break()

    def st_Continue(self, st: ast.Continue, frame: Frame) -> None:
        raise _Continue()

    def st_Import(self, st: ast.Import, frame: Frame) -> None:
        for a in st.names:
            mod = __import__(a.name)
            if a.asname:
                import importlib

                mod = importlib.import_module(a.name)
                frame.store(a.asname, mod)
            else:
                frame.store(a.name.split(".")[0], mod)

    def st_ImportFrom(self, st: ast.ImportFrom, frame: Frame) -> None:
        import importlib

        pkg = frame.globals.get("__package__") or frame.globals.get("__name__", "").rpartition(".")[0]
        mod = importlib.import_module("." * st.level + (st.module or ""), pkg if st.level else None)
        for a in st.names:
            frame.store(a.asname or a.name, getattr(mod, a.name))

    def st_FunctionDef(self, st: ast.FunctionDef, frame: Frame) -> None:
        defaults = [self.eval(d, frame) for d in st.args.defaults]
        kwd = {k.arg: self.eval(d, frame) for k, d in zip(st.args.kwonlyargs, st.args.kw_defaults) if d is not None}
        c: Any = Closure(st, frame, f"{frame.qualname}.<locals>.{st.name}", defaults, kwd)
        for dec in reversed(st.decorator_list):
            d = self.eval(dec, frame)
            c = self.call_value(d, [c], {})
        frame.store(st.name, c)

    st_AsyncFunctionDef = st_FunctionDef

    # ---- try / with ---------------------------------------------------------------------
    def st_Try(self, st: ast.Try, frame: Frame) -> None:
        try:
            self.try_core(st, frame)
        except (PyRaise, _Return, _Break, _Continue):
            # leaving the try statement abruptly: run `finally` (it may override by raising/returning)
            if st.finalbody:
                self.exec_block(st.finalbody, frame)
            raise
        else:
            if st.finalbody:
                self.exec_block(st.finalbody, frame)

    def try_core(self, st: ast.Try, frame: Frame) -> None:
        if True:
            try:
                self.exec_block(st.body, frame)
            except PyRaise as pr:
                handled = False
                for h in st.handlers:
                    if self.handler_matches(h, pr, frame):
                        handled = True
                        if h.name:
                            frame.store(h.name, pr.exc)
                        prev = getattr(frame, "handling", None)
                        frame.handling = pr.exc  # type: ignore[attr-defined]
                        try:
                            self.exec_block(h.body, frame)
                        finally:
                            frame.handling = prev  # type: ignore[attr-defined]
                            if h.name:
                                frame.locals.pop(h.name, None)
                        break
                if not handled:
                    raise
            else:
                self.exec_block(st.orelse, frame)

    def handler_matches(self, h: ast.ExceptHandler, pr: PyRaise, frame: Frame) -> bool:
        if h.type is None:
            return True
        t = self.eval(h.type, frame)
        classes = t if isinstance(t, tuple) else (t,)
        for c in classes:
            if not (isinstance(c, type) and issubclass(c, BaseException)):
                raise Unsupported(f"except clause with non-class {c!r}")
        return issubclass(pr.cls, tuple(classes))

    # ---- with -----------------------------------------------------------------------------
    def st_With(self, st: ast.With, frame: Frame) -> None:
        self.with_items(list(st.items), st.body, frame)

    st_AsyncWith = st_With

    def with_items(self, items: list[ast.withitem], body: list[ast.stmt], frame: Frame) -> None:
        if not items:
            self.exec_block(body, frame)
            return
        item, rest = items[0], items[1:]
        S = self.S
        # generator-based context managers defined in /repo are inlined around their `yield`
        if isinstance(item.context_expr, ast.Call):
            fobj = self.eval(item.context_expr.func, frame)
            gen = getattr(fobj, "__wrapped__", None)
            if gen is not None and (inspect.isgeneratorfunction(gen) or inspect.isasyncgenfunction(gen)) and self.find_handler(fobj) is None:
                args, kwargs = self.eval_args(item.context_expr, frame)
                self.inline_contextmanager(gen, args, kwargs, item, rest, body, frame)
                return
        cm = self.eval(item.context_expr, frame)
        import contextlib

        if isinstance(cm, contextlib.suppress):
            excs = cm._exceptions
            try:
                self.with_items(rest, body, frame)
            except PyRaise as pr:
                if not issubclass(pr.cls, excs):
                    raise
            return
        if isinstance(cm, contextlib.nullcontext):
            if item.optional_vars is not None:
                self.assign(item.optional_vars, cm.enter_result, frame)
            self.with_items(rest, body, frame)
            return
        enter = self.getattr_value(cm, "__enter__") if not self.models.is_lock(cm) else None
        if self.models.is_lock(cm):
            self.models.lock_acquire(self, cm)
            val = True
        else:
            val = self.call_value(enter, [], {})
        if item.optional_vars is not None:
            self.assign(item.optional_vars, val, frame)

        def do_exit(exc: Any) -> Any:
            if self.models.is_lock(cm):
                self.models.lock_release(self, cm)
                return False
            ex = self.getattr_value(cm, "__exit__")
            if exc is None:
                return self.call_value(ex, [None, None, None], {})
            cls = exc.cls if isinstance(exc, SExc) else type(exc)
            return self.call_value(ex, [cls, exc, None], {})

        try:
            self.with_items(rest, body, frame)
        except PyRaise as pr:
            r = do_exit(pr.exc)
            if not S.fork(V.truth(r)):
                raise
            return
        except (_Return, _Break, _Continue):
            do_exit(None)
            raise
        do_exit(None)

    def inline_contextmanager(self, gen: Any, args: list[Any], kwargs: dict[str, Any], item: ast.withitem, rest: list[ast.withitem], body: list[ast.stmt], frame: Frame) -> None:
        fs = source_of(gen)
        self.S.functions[f"{fs.relpath}::{fs.qualname}"] = {"sha256": fs.sha256, "nodes": fs.nodes}
        gframe = Frame(fs, gen.__globals__, None, fs.qualname)
        if gen.__closure__:
            for name, cell in zip(gen.__code__.co_freevars, gen.__closure__):
                gframe.cells[name] = cell
        self.bind_args(fs.node.args, gframe, args, kwargs, list(gen.__defaults__ or ()), dict(gen.__kwdefaults__ or {}), fs.qualname)
        state: dict[str, Any] = {"yielded": False, "ctl": None}

        def hook(value: Any) -> Any:
            if state["yielded"]:
                raise Unsupported("context manager generator yields twice")
            state["yielded"] = True
            if item.optional_vars is not None:
                self.assign(item.optional_vars, value, frame)
            try:
                self.with_items(rest, body, frame)
            except (_Return, _Break, _Continue) as ctl:
                state["ctl"] = ctl
            return None

        gframe.yield_hook = hook  # type: ignore[attr-defined]
        try:
            self.run_body(fs.node, gframe)
        except _Return:
            pass
        if not state["yielded"]:
            raise self.mkraise(SExc(RuntimeError, ("generator didn't yield",)))
        if state["ctl"] is not None:
            raise state["ctl"]

    # ---- loops ------------------------------------------------------------------------------
    def loop_key(self, st: ast.AST, frame: Frame) -> tuple[str, int]:
        for i, l in enumerate(frame.loops()):
            if l is st:
                return (frame.qualname, i)
        raise Unsupported("loop not found in function source")

    def find_contract(self, table: dict[tuple[str, int], Any], key: tuple[str, int]) -> Any:
        if key in table:
            return table[key]
        q, i = key
        for (kq, ki), v in table.items():
            if ki == i and (q.endswith("." + kq) or q == kq or kq.endswith("." + q)):
                return v
        return None

    def st_While(self, st: ast.While, frame: Frame) -> None:
        key = self.loop_key(st, frame)
        inv = self.find_contract(self.S.invariants, key)
        if inv is None:
            bound = self.find_contract(self.S.unroll, key)
            n = 0
            while True:
                c = V.truth(self.eval(st.test, frame))
                if isinstance(c, SBool) and bound is None and n >= 1 and not (z3.is_true(z3.simplify(c.t)) or z3.is_false(z3.simplify(c.t))):
                    raise Unsupported(f"while loop {key} has a symbolic condition and no invariant")
                if not self.S.fork(c):
                    break
                if bound is not None and n >= bound:
                    self.S.note(f"BOUNDED: loop {key} unrolled {bound} times; longer executions cut")
                    raise PathEnd()
                n += 1
                if n > 10000:
                    raise Unsupported(f"while loop {key}: more than 10000 concrete iterations")
                try:
                    self.exec_block(st.body, frame)
                except _Break:
                    return
                except _Continue:
                    continue
            self.exec_block(st.orelse, frame)
            return
        self.invariant_loop(st, frame, key, inv, None)

    def st_For(self, st: ast.For, frame: Frame) -> None:
        it = self.eval(st.iter, frame)
        seq = self.models.iteration(self, it)
        if isinstance(seq, list):  # concrete structure: unroll natively
            for x in seq:
                self.assign(st.target, x, frame)
                try:
                    self.exec_block(st.body, frame)
                except _Break:
                    return
                except _Continue:
                    continue
            self.exec_block(st.orelse, frame)
            return
        key = self.loop_key(st, frame)
        inv = self.find_contract(self.S.invariants, key)
        if inv is None:
            bound = self.find_contract(self.S.unroll, key)
            if bound is None:
                raise Unsupported(f"for loop {key} over a symbolic-length iterable has no invariant")
            length, at = seq
            for k in range(bound + 1):
                if not self.S.fork(SBool(z3.IntVal(k) < length)):
                    self.exec_block(st.orelse, frame)
                    return
                if k == bound:
                    self.S.note(f"BOUNDED: loop {key} unrolled {bound} times; longer executions cut")
                    raise PathEnd()
                self.assign(st.target, at(z3.IntVal(k)), frame)
                try:
                    self.exec_block(st.body, frame)
                except _Break:
                    return
                except _Continue:
                    continue
            return
        self.invariant_loop(st, frame, key, inv, seq)

    st_AsyncFor = st_For

    def invariant_loop(self, st: Any, frame: Frame, key: tuple[str, int], inv: Any, seq: Any) -> None:
        """Cut the loop at its head with the contract's inductive invariant (DESIGN §2.1)."""
        S = self.S
        from .loops import back_edge_writes

        def check(tag: str, extra: dict[str, Any]) -> None:
            r = inv(Locals(frame, extra))
            items = r if isinstance(r, list) else [("inv", r)]
            for nm, g in items:
                S.oblige(f"{key[0].split('.')[-1]}.loop{key[1]}.{nm}.{tag}", g, kind="inv-" + tag)

        def assume(extra: dict[str, Any]) -> None:
            r = inv(Locals(frame, extra))
            items = r if isinstance(r, list) else [("inv", r)]
            for _, g in items:
                S.assume(g)

        length = seq[0] if seq is not None else None
        extra0: dict[str, Any] = {"idx": SInt(z3.IntVal(0)), "n": SInt(length) if length is not None else None}
        check("init", extra0)
        # havoc everything written on a path that reaches the back edge
        names, mutated = back_edge_writes(st)
        hints = self.find_contract(S.loop_havoc, key) or {}
        before: dict[str, Any] = {}
        for nm in sorted(names | set(hints)):
            try:
                cur = frame.lookup(nm)
            except PyRaise:
                cur = UNBOUND
            shape = hints.get(nm)
            if shape is None:
                if cur is UNBOUND:
                    continue  # first assigned inside the body before any use
                shape = V.shape_of(cur)
            frame.store(nm, shape.fresh(nm))
        for nm in sorted(mutated):
            try:
                obj = frame.lookup(nm.split(".")[0])
            except PyRaise:
                continue
            self.models.havoc_object(self, obj, nm, hints)
        for g in self.find_contract(S.loop_ghost, key) or []:
            S.ghost[g] = V.shape_of(S.ghost[g]).fresh("ghost_" + g) if not isinstance(S.ghost[g], (SList, SMap)) else self.models.fresh_like(S.ghost[g], "ghost_" + g)
        k = z3.Int(S.fresh_name(f"k_loop{key[1]}"))
        S.assume(k >= 0)
        if length is not None:
            S.assume(k <= length)
        extra = {"idx": SInt(k), "n": SInt(length) if length is not None else None}
        assume(extra)
        ghost_snapshot = {g: v for g, v in S.ghost.items()}
        if seq is not None:
            enter = S.fork(SBool(k < length))
        else:
            enter = S.fork(V.truth(self.eval(st.test, frame)))
        if not enter:
            self.exec_block(st.orelse, frame)
            return
        if seq is not None:
            self.assign(st.target, seq[1](k), frame)
        try:
            self.exec_block(st.body, frame)
        except _Break:
            return
        except _Continue:
            pass
        # back edge: ghost state must not have been modified undeclared
        declared = set(self.find_contract(S.loop_ghost, key) or [])
        for g, v in S.ghost.items():
            if g not in declared and ghost_snapshot.get(g, v) is not v:
                raise Unsupported(f"ghost {g!r} modified in loop {key} but not declared in loop_ghost")
        check("pres", {"idx": SInt(k + 1), "n": SInt(length) if length is not None else None})
        raise PathEnd()

    # ==================================================================================
    # expressions
    # ==================================================================================
    def eval(self, e: ast.expr, frame: Frame) -> Any:
        m = getattr(self, "ex_" + type(e).__name__, None)
        if m is None:
            raise Unsupported(f"expression {type(e).__name__} at {frame.qualname}:{getattr(e, 'lineno', '?')}")
        return m(e, frame)

    def ex_Constant(self, e: ast.Constant, frame: Frame) -> Any:
        return e.value

    def ex_Name(self, e: ast.Name, frame: Frame) -> Any:
        return frame.lookup(e.id)

    def ex_Tuple(self, e: ast.Tuple, frame: Frame) -> Any:
        return tuple(self.eval_seq(e.elts, frame))

    def ex_List(self, e: ast.List, frame: Frame) -> Any:
        return self.eval_seq(e.elts, frame)

    def ex_Set(self, e: ast.Set, frame: Frame) -> Any:
        items = self.eval_seq(e.elts, frame)
        if V.contains_sym(items):
            raise Unsupported("set display with symbolic members")
        return set(items)

    def eval_seq(self, elts: list[ast.expr], frame: Frame) -> list[Any]:
        out: list[Any] = []
        for x in elts:
            if isinstance(x, ast.Starred):
                v = self.eval(x.value, frame)
                seq = self.models.iteration(self, v)
                if not isinstance(seq, list):
                    raise Unsupported("starred symbolic-length sequence")
                out.extend(seq)
            else:
                out.append(self.eval(x, frame))
        return out

    def ex_Dict(self, e: ast.Dict, frame: Frame) -> Any:
        d: dict[Any, Any] = {}
        for k, v in zip(e.keys, e.values):
            if k is None:
                src = self.eval(v, frame)
                if not isinstance(src, dict):
                    raise Unsupported("** of a non-concrete dict in a dict display")
                d.update(src)
            else:
                kk = self.eval(k, frame)
                if V.contains_sym(kk):
                    raise Unsupported("dict display with a symbolic key")
                d[kk] = self.eval(v, frame)
        return d

    def ex_JoinedStr(self, e: ast.JoinedStr, frame: Frame) -> Any:
        parts: list[Any] = []
        for p in e.values:
            if isinstance(p, ast.Constant):
                parts.append(p.value)
            elif isinstance(p, ast.FormattedValue):
                v = self.eval(p.value, frame)
                spec = self.eval(p.format_spec, frame) if p.format_spec is not None else ""
                parts.append(self.models.format_value(self, v, p.conversion, spec))
        return self.models.concat_str(parts)

    def ex_FormattedValue(self, e: ast.FormattedValue, frame: Frame) -> Any:
        v = self.eval(e.value, frame)
        return self.models.format_value(self, v, e.conversion, "")

    def ex_Attribute(self, e: ast.Attribute, frame: Frame) -> Any:
        return self.getattr_value(self.eval(e.value, frame), e.attr)

    def ex_Subscript(self, e: ast.Subscript, frame: Frame) -> Any:
        obj = self.eval(e.value, frame)
        return self.models.subscript(self, obj, self.eval_index(e.slice, frame))

    def eval_index(self, s: ast.expr, frame: Frame) -> Any:
        if isinstance(s, ast.Slice):
            return slice(
                self.eval(s.lower, frame) if s.lower is not None else None,
                self.eval(s.upper, frame) if s.upper is not None else None,
                self.eval(s.step, frame) if s.step is not None else None,
            )
        return self.eval(s, frame)

    def ex_UnaryOp(self, e: ast.UnaryOp, frame: Frame) -> Any:
        v = self.eval(e.operand, frame)
        return self.models.unaryop(self, e.op, v)

    def ex_BinOp(self, e: ast.BinOp, frame: Frame) -> Any:
        a = self.eval(e.left, frame)
        b = self.eval(e.right, frame)
        return self.models.binop(self, e.op, a, b)

    def ex_BoolOp(self, e: ast.BoolOp, frame: Frame) -> Any:
        is_and = isinstance(e.op, ast.And)
        v: Any = None
        for i, x in enumerate(e.values):
            v = self.eval(x, frame)
            if i == len(e.values) - 1:
                return v
            t = V.truth(v)
            # non-forking merge when the remaining operands are simple and boolean
            if isinstance(t, SBool) and isinstance(v, SBool) and all(self.simple_bool(r) for r in e.values[i + 1 :]):
                rest = [V.truth(self.eval(r, frame)) for r in e.values[i + 1 :]]
                if all(isinstance(r, (SBool, bool)) for r in rest):
                    return V.And(v, *rest) if is_and else V.Or(v, *rest)
            taken = self.S.fork(t)
            if is_and and not taken:
                return v
            if not is_and and taken:
                return v
        return v

    def simple_bool(self, e: ast.expr) -> bool:
        if isinstance(e, ast.Compare):
            return all(isinstance(x, (ast.Name, ast.Constant)) for x in [e.left] + e.comparators) and all(
                isinstance(o, (ast.Lt, ast.LtE, ast.Gt, ast.GtE, ast.Eq, ast.NotEq)) for o in e.ops
            )
        if isinstance(e, ast.UnaryOp) and isinstance(e.op, ast.Not):
            return self.simple_bool(e.operand)
        return False

    def ex_Compare(self, e: ast.Compare, frame: Frame) -> Any:
        left = self.eval(e.left, frame)
        result: Any = True
        for i, (op, rhs) in enumerate(zip(e.ops, e.comparators)):
            right = self.eval(rhs, frame)
            r = self.models.compare(self, op, left, right)
            if i == len(e.ops) - 1 and result is True:
                return r
            if isinstance(r, bool) and isinstance(result, bool):
                result = result and r
                if not result:
                    return False
            else:
                result = V.And(result, r)
            left = right
        return result

    def ex_IfExp(self, e: ast.IfExp, frame: Frame) -> Any:
        if self.branch(e.test, frame):
            return self.eval(e.body, frame)
        return self.eval(e.orelse, frame)

    def ex_Lambda(self, e: ast.Lambda, frame: Frame) -> Any:
        defaults = [self.eval(d, frame) for d in e.args.defaults]
        return Closure(e, frame, f"{frame.qualname}.<locals>.<lambda>", defaults, {})

    def ex_NamedExpr(self, e: ast.NamedExpr, frame: Frame) -> Any:
        v = self.eval(e.value, frame)
        self.assign(e.target, v, frame)
        return v

    def ex_Await(self, e: ast.Await, frame: Frame) -> Any:
        # sequential semantics of one coroutine (DESIGN §2.2): interleaving with other tasks is out of scope
        self.S.note("await executed sequentially: interleaving with other tasks not modelled")
        return self.eval(e.value, frame)

    def ex_Yield(self, e: ast.Yield, frame: Frame) -> Any:
        f: Frame | None = frame
        hook = getattr(frame, "yield_hook", None)
        if hook is None:
            raise Unsupported("yield outside an inlined context manager")
        return hook(self.eval(e.value, frame) if e.value is not None else None)

    def ex_YieldFrom(self, e: ast.YieldFrom, frame: Frame) -> Any:
        # delegation to a concrete-length iterable: every element is yielded in order (values sent in are ignored)
        hook = getattr(frame, "yield_hook", None)
        if hook is None:
            raise Unsupported("yield from outside a driven generator")
        seq = self.models.iteration(self, self.eval(e.value, frame))
        if not isinstance(seq, list):
            raise Unsupported("yield from a symbolic-length iterable")
        for x in seq:
            hook(x)
        return None

    def ex_Starred(self, e: ast.Starred, frame: Frame) -> Any:
        raise Unsupported("starred expression")

    def ex_Slice(self, e: ast.Slice, frame: Frame) -> Any:
        return self.eval_index(e, frame)

    # ---- comprehensions ---------------------------------------------------------------------
    def comp_iter(self, gens: list[ast.comprehension], frame: Frame, emit: Any) -> None:
        if not gens:
            emit(frame)
            return
        g = gens[0]
        it = self.eval(g.iter, frame)
        seq = self.models.iteration(self, it)
        if not isinstance(seq, list):
            raise Unsupported("comprehension over a symbolic-length iterable (give the function a contract with a spec instead)")
        for x in seq:
            self.assign(g.target, x, frame)
            if all(self.branch(c, frame) for c in g.ifs):
                self.comp_iter(gens[1:], frame, emit)

    def comp_frame(self, frame: Frame) -> Frame:
        f = Frame(frame.fs, frame.globals, frame, frame.qualname)
        f.node = None
        return f

    def ex_ListComp(self, e: ast.ListComp, frame: Frame) -> Any:
        r = self.models.symbolic_comprehension(self, e, frame)
        if r is not None:
            return r
        out: list[Any] = []
        f = self.comp_frame(frame)
        self.comp_iter(e.generators, f, lambda fr: out.append(self.eval(e.elt, fr)))
        return out

    def ex_GeneratorExp(self, e: ast.GeneratorExp, frame: Frame) -> Any:
        r = self.models.symbolic_comprehension(self, e, frame)
        if r is not None:
            return r
        out: list[Any] = []
        f = self.comp_frame(frame)
        self.comp_iter(e.generators, f, lambda fr: out.append(self.eval(e.elt, fr)))
        return self.models.EagerGen(out)

    def ex_SetComp(self, e: ast.SetComp, frame: Frame) -> Any:
        out: list[Any] = []
        f = self.comp_frame(frame)
        self.comp_iter(e.generators, f, lambda fr: out.append(self.eval(e.elt, fr)))
        if V.contains_sym(out):
            raise Unsupported("set comprehension with symbolic members")
        return set(out)

    def ex_DictComp(self, e: ast.DictComp, frame: Frame) -> Any:
        r = self.models.symbolic_dict_comprehension(self, e, frame)
        if r is not None:
            return r
        out: dict[Any, Any] = {}
        f = self.comp_frame(frame)

        def emit(fr: Frame) -> None:
            k = self.eval(e.key, fr)
            self.models.store_subscript(self, out, k, self.eval(e.value, fr))

        self.comp_iter(e.generators, f, emit)
        return out

    # ---- calls ---------------------------------------------------------------------------------
    def eval_args(self, e: ast.Call, frame: Frame) -> tuple[list[Any], dict[str, Any]]:
        args = self.eval_seq(e.args, frame)
        kwargs: dict[str, Any] = {}
        for kw in e.keywords:
            v = self.eval(kw.value, frame)
            if kw.arg is None:
                if isinstance(v, SMap):
                    # carried under SYM_KW, bound by bind_args of an interpreted callee (ex_Call refuses any other callee)
                    if SYM_KW in kwargs or v.key_shape is not V.StrShape:
                        raise Unsupported("** of a symbolic map: more than one, or keys are not str")
                    for k in kwargs:
                        if self.S.fork(v.has(k)):
                            raise self.mkraise(SExc(TypeError, (f"got multiple values for keyword argument {k!r}",)))
                    kwargs[SYM_KW] = v.snapshot()
                    continue
                if not isinstance(v, dict):
                    raise Unsupported(f"** of {type(v).__name__}")
                for k in v:
                    if k in kwargs:
                        raise self.mkraise(SExc(TypeError, (f"got multiple values for keyword argument {k!r}",)))
                kwargs.update(v)
            else:
                if kw.arg in kwargs or (SYM_KW in kwargs and self.S.fork(kwargs[SYM_KW].has(kw.arg))):
                    raise self.mkraise(SExc(TypeError, (f"got multiple values for keyword argument {kw.arg!r}",)))
                kwargs[kw.arg] = v
        return args, kwargs

    def binds_sym_kwargs(self, f: Any) -> bool:
        """True iff calling ``f`` goes through ``bind_args`` (the only place that understands SYM_KW)."""
        S = self.S
        if isinstance(f, Closure):
            return S.handlers.get(f.qualname) is None
        if isinstance(f, BoundMethod):
            if f.fn is None or (isinstance(f.obj, SObj) and S.handlers.get(f"{f.obj.kind}.{f.name}") is not None):
                return False
            f = f.fn
        if isinstance(f, type):
            import dataclasses

            return (
                self.find_handler(f) is None
                and self.models.lookup_builtin(f) is None
                and not issubclass(f, BaseException)
                and getattr(f, "__module__", "").startswith("vgi_rpc")
                and f.__qualname__ in S.inline
                and not dataclasses.is_dataclass(f)
                and isinstance(inspect.getattr_static(f, "__init__", None), types.FunctionType)
            )
        u = unwrap(f)
        q = getattr(u, "__qualname__", "")
        return isinstance(u, types.FunctionType) and self.is_repo_fn(u) and self.find_handler(u) is None and (q in S.inline or qual_of(u) in S.inline or "*" in S.inline)

    def ex_Call(self, e: ast.Call, frame: Frame) -> Any:
        if self.is_logging_call(e, frame):
            return None
        if isinstance(e.func, ast.Name) and e.func.id == "cast" and len(e.args) == 2:
            return self.eval(e.args[1], frame)
        if (
            isinstance(e.func, ast.Attribute)
            and isinstance(e.func.value, ast.Call)
            and isinstance(e.func.value.func, ast.Name)
            and e.func.value.func.id == "super"
            and not e.func.value.args
            and not e.func.value.keywords
        ):
            args, kwargs = self.eval_args(e, frame)
            return self.super_call(e.func.attr, args, kwargs, frame)
        if isinstance(e.func, ast.Name) and e.func.id == "super":
            raise Unsupported("super()")
        f = self.eval(e.func, frame)
        args, kwargs = self.eval_args(e, frame)
        if SYM_KW in kwargs and not self.binds_sym_kwargs(f):
            raise Unsupported("** of a symbolic map into a callee that is not interpreted (handler / builtin / native)")
        prev = self.S.cur_site
        try:
            return self.call_value(f, args, kwargs)
        finally:
            self.S.cur_site = prev

    _SPECIAL_EXC_INIT = (SyntaxError, UnicodeError, StopIteration, StopAsyncIteration, SystemExit, ImportError, AttributeError, NameError, BaseExceptionGroup)

    def super_call(self, attr: str, args: list[Any], kwargs: dict[str, Any], frame: Frame) -> Any:
        """Zero-argument ``super().attr(...)`` inside an interpreted method: the next definition of
        ``attr`` after the defining class in the MRO of the receiver's run-time class.  A parent
        defined in Python is interpreted; ``BaseException.__init__`` (and the builtin exception
        classes that share it) sets ``self.args``; ``object.__init__()`` is a no-op."""
        f = frame
        while f.parent is not None:
            f = f.parent
        node, qn = f.node, f.qualname
        if node is None or "<locals>" in qn or "." not in qn or not (node.args.posonlyargs + node.args.args):
            raise Unsupported(f"super() outside a plain method ({qn})")
        owner: Any = f.globals.get(qn.split(".")[0])
        for part in qn.split(".")[1:-1]:
            owner = getattr(owner, part, None)
        if not isinstance(owner, type):
            raise Unsupported(f"super(): cannot resolve the defining class of {qn}")
        obj = f.locals.get((node.args.posonlyargs + node.args.args)[0].arg)
        if isinstance(obj, type):
            raise Unsupported("super() in a classmethod")
        rt = self.models.py_type(self, obj)
        mro = list(getattr(rt, "__mro__", ()))
        if owner not in mro:
            raise self.mkraise(SExc(TypeError, ("super(type, obj): obj must be an instance or subtype of type",)))
        for k in mro[mro.index(owner) + 1 :]:
            if attr in k.__dict__:
                break
        else:
            raise self.mkraise(SExc(AttributeError, (f"'super' object has no attribute {attr!r}",)))
        target = k.__dict__[attr]
        if isinstance(target, types.FunctionType):
            h = self.find_handler(target)
            if h is not None:
                return h(self.S, obj, *args, **kwargs)
            return self.call_function(target, [obj] + args, kwargs)
        if attr == "__init__" and isinstance(obj, SExc) and issubclass(k, BaseException) and not issubclass(k, self._SPECIAL_EXC_INIT):
            if kwargs:
                raise self.mkraise(SExc(TypeError, (f"{k.__name__}() takes no keyword arguments",)))
            if issubclass(k, OSError) and len(args) >= 2:
                raise Unsupported("OSError.__init__(errno, strerror, ...) argument parsing")
            obj.args = tuple(args)
            return None
        if attr == "__init__" and k is object and not args and not kwargs:
            return None
        raise Unsupported(f"super().{attr} resolves to builtin {k.__name__}.{attr}")

    # ---- attributes ------------------------------------------------------------------------------
    def getattr_value(self, obj: Any, name: str) -> Any:
        S = self.S
        if isinstance(obj, SObj):
            if name in obj.fields:
                return obj.fields[name]
            g = S.handlers.get(f"{obj.kind}.{name}@get")  # computed attribute of an abstract object (e.g. read from ghost state)
            if g is not None:
                return g(S, obj)
            h = S.handlers.get(f"{obj.kind}.{name}")
            if obj.cls is not None:
                try:
                    static = inspect.getattr_static(obj.cls, name)
                except AttributeError:
                    static = None
                if static is not None:
                    if isinstance(static, property):
                        ph = S.handlers.get(f"{obj.kind}.{name}") or self.find_handler(static.fget)
                        if ph is not None:
                            return ph(S, obj)
                        return self.dispatch_repo_function(static.fget, [obj], {})
                    if isinstance(static, staticmethod):
                        return static.__func__
                    if isinstance(static, classmethod):
                        return BoundMethod(obj.cls, static.__func__, name)
                    if isinstance(static, types.FunctionType):
                        return BoundMethod(obj, static, name)
                    if isinstance(static, (types.MemberDescriptorType,)):
                        if not obj.closed:
                            raise Unsupported(f"contract view of {obj.kind} has no field {name!r} (slot not listed by the view)")
                        raise self.mkraise(SExc(AttributeError, (f"{obj.kind} object has no attribute {name!r} (unset slot)",)))
                    return static
            if h is not None:
                return BoundMethod(obj, None, name)
            w = S.handlers.get(f"{obj.kind}.__getattr__")  # open namespace object: the contract decides per name
            if w is not None:
                return w(S, obj, name)
            if not obj.closed:
                # a contract's view of an object is partial unless it says `closed`: an attribute the view does not
                # list is "the contract does not know", never a Python AttributeError (a harmless refactor that adds a
                # field to the real class must not read as a raise)
                raise Unsupported(f"contract view of {obj.kind} has no field {name!r}")
            raise self.mkraise(SExc(AttributeError, (f"{obj.kind!r} object has no attribute {name!r}",)))
        if isinstance(obj, SExc):
            if name == "args":
                return obj.args
            if name in obj.attrs:
                return obj.attrs[name]
            if name == "__cause__":
                return obj.cause
            if name == "__class__":
                return obj.cls
            try:
                return getattr(obj.cls, name)
            except AttributeError:
                raise self.mkraise(SExc(AttributeError, (f"{obj.cls.__name__!r} object has no attribute {name!r}",))) from None
        if isinstance(obj, (Sym, SList, SMap, SODict)):
            return SymMethod(obj, name)
        if isinstance(obj, (Closure, BoundMethod)):
            if name in ("__name__", "__qualname__"):
                return getattr(obj, "qualname", getattr(obj, "name", "?")).split(".")[-1] if name == "__name__" else getattr(obj, "qualname", "?")
            if isinstance(obj, Closure) and not (name.startswith("__") and name.endswith("__")):
                # function objects carry arbitrary user attributes (set with setattr); a missing one is an AttributeError
                attrs = obj.__dict__.get("fn_attrs", {})
                if name in attrs:
                    return attrs[name]
                raise self.mkraise(SExc(AttributeError, (f"'function' object has no attribute {name!r}",)))
            raise Unsupported(f"attribute {name} of interpreted function")
        if obj is None:
            raise self.mkraise(SExc(AttributeError, (f"'NoneType' object has no attribute {name!r}",)))
        try:
            return getattr(obj, name)
        except AttributeError as ex:
            raise self.mkraise(SExc(AttributeError, tuple(ex.args))) from None

    def setattr_value(self, obj: Any, name: str, v: Any) -> None:
        if isinstance(obj, SObj):
            if obj.cls is not None:
                static = inspect.getattr_static(obj.cls, name, None)
                if isinstance(static, property):
                    if static.fset is None:
                        raise self.mkraise(SExc(AttributeError, (f"property {name!r} has no setter",)))
                    self.dispatch_repo_function(static.fset, [obj, v], {})
                    return
            obj.fields[name] = v
            return
        if isinstance(obj, SExc):
            obj.attrs[name] = v
            return
        if isinstance(obj, Closure):
            if name.startswith("__") and name.endswith("__"):
                raise Unsupported(f"assignment to {name} of an interpreted function")
            obj.__dict__.setdefault("fn_attrs", {})[name] = v
            return
        if isinstance(obj, (Sym, SList, SMap)) or obj is None:
            raise self.mkraise(SExc(AttributeError, (f"cannot set attribute {name!r}",)))
        if isinstance(obj, (types.ModuleType, type)):
            raise Unsupported(f"assignment to module/class attribute {name}")
        try:
            setattr(obj, name, v)
        except AttributeError as ex:
            raise self.mkraise(SExc(AttributeError, tuple(ex.args))) from None
