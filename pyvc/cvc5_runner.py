"""cvc5 (Python API, 1.4.0 from the offline wheelhouse) as a child process: `python -m pyvc.cvc5_runner FILE TLIMIT_MS`.

The Debian CLI /usr/bin/cvc5 1.0.3 is NOT used: it is unsound on regular-expression ranges (it answers `unsat` for
`y in [\\x00-\\xff]* and y not in [\\x00-\\x7f]*`, which y = "\\x80" satisfies; z3 4.8/5.1 and cvc5 1.4.0 answer `sat`).
Output: what the CLI would print - the check-sat answer on the first line, then the model text after `sat`."""

import sys


def main() -> int:
    import cvc5

    path, tlimit = sys.argv[1], sys.argv[2]
    tm = cvc5.TermManager()
    slv = cvc5.Solver(tm)
    slv.setOption("strings-exp", "true")
    slv.setOption("produce-models", "true")
    slv.setOption("tlimit", tlimit)
    p = cvc5.InputParser(slv)
    p.setFileInput(cvc5.InputLanguage.SMT_LIB_2_6, path)
    sm = p.getSymbolManager()
    answered = None
    while True:
        cmd = p.nextCommand()
        if cmd.isNull():
            break
        name = cmd.getCommandName() if hasattr(cmd, "getCommandName") else ""
        if name == "get-model" and answered != "sat":
            continue
        try:
            out = cmd.invoke(slv, sm)
        except Exception as e:  # noqa: BLE001
            print("(error " + repr(str(e)) + ")")
            continue
        out = str(out).strip() if out is not None else ""
        if name == "check-sat":
            answered = out.splitlines()[0].strip() if out else "unknown"
        if out:
            print(out)
    return 0


if __name__ == "__main__":
    raise SystemExit(main())
