"""Python ``re`` patterns -> SMT regular expressions (DESIGN §3.1 "regex").

The pattern text and flags are read back from the *live* compiled object, parsed with
CPython's own ``re._parser`` and translated construct by construct, faithfully for what is
used: ``.match`` anchors at 0 only; ``$`` = end or before a final ``\\n``; ``\\Z`` = end;
``\\d``/``\\s``/``\\w`` in a ``str`` pattern are the *Unicode* classes (enumerated from
``unicodedata`` at run time) unless ``re.ASCII``.  No back-references / look-around.

Characters: z3 strings range over code points 0..0x2FFFF, so code points above that are
outside the model (stated as an assumption wherever a contract uses this module).
"""

from __future__ import annotations

import re
import sys
import unicodedata
from typing import Any

import z3

from . import values as V
from .values import SBool, SObj, SStr, SBytes, Unsupported

try:
    import re._parser as sre_parse  # type: ignore[import-not-found]
    import re._constants as sre_c  # type: ignore[import-not-found]
except ImportError:  # pragma: no cover
    import sre_constants as sre_c  # type: ignore[no-redef]
    import sre_parse  # type: ignore[no-redef]

MAXCHAR = 0x2FFFF


def _ch(cp: int) -> Any:
    return z3.StringVal(chr(cp))


def _range(lo: int, hi: int) -> Any:
    return z3.Range(_ch(lo), _ch(hi)) if lo != hi else z3.Re(_ch(lo))


def _union(parts: list[Any]) -> Any:
    if not parts:
        return z3.Empty(z3.ReSort(z3.StringSort()))
    return z3.Union(*parts) if len(parts) > 1 else parts[0]


_class_cache: dict[tuple[str, bool], list[tuple[int, int]]] = {}


def _ranges_where(pred: Any, limit: int) -> list[tuple[int, int]]:
    out: list[tuple[int, int]] = []
    start = None
    for cp in range(limit + 1):
        if pred(chr(cp)):
            if start is None:
                start = cp
        elif start is not None:
            out.append((start, cp - 1))
            start = None
    if start is not None:
        out.append((start, limit))
    return out


def category_ranges(cat: Any, ascii_only: bool, is_bytes: bool) -> tuple[list[tuple[int, int]], bool]:
    """(ranges, negated) for a CATEGORY_* code."""
    name = str(cat)
    neg = "NOT_" in name
    base = name.replace("NOT_", "").replace("CATEGORY_", "").replace("UNI_", "").replace("LOC_", "")
    limit = 0xFF if is_bytes else MAXCHAR
    key = (base, ascii_only or is_bytes)
    if key not in _class_cache:
        if ascii_only or is_bytes:
            if base == "DIGIT":
                r = [(0x30, 0x39)]
            elif base == "SPACE":
                r = [(9, 13), (32, 32)]
            elif base == "WORD":
                r = [(0x30, 0x39), (0x41, 0x5A), (0x5F, 0x5F), (0x61, 0x7A)]
            else:
                raise Unsupported(f"regex category {name}")
        else:
            if base == "DIGIT":
                r = _ranges_where(lambda c: unicodedata.category(c) == "Nd", limit)
            elif base == "SPACE":
                r = _ranges_where(lambda c: c.isspace(), limit)
            elif base == "WORD":
                r = _ranges_where(lambda c: c.isalnum() or c == "_", limit)
            else:
                raise Unsupported(f"regex category {name}")
        _class_cache[key] = r
    return _class_cache[key], neg


def _complement(ranges: list[tuple[int, int]], limit: int) -> list[tuple[int, int]]:
    out = []
    prev = 0
    for lo, hi in sorted(ranges):
        if lo > prev:
            out.append((prev, lo - 1))
        prev = max(prev, hi + 1)
    if prev <= limit:
        out.append((prev, limit))
    return out


def _merge(ranges: list[tuple[int, int]]) -> list[tuple[int, int]]:
    out: list[tuple[int, int]] = []
    for lo, hi in sorted(ranges):
        if out and lo <= out[-1][1] + 1:
            out[-1] = (out[-1][0], max(out[-1][1], hi))
        else:
            out.append((lo, hi))
    return out


_icase_cache: dict[tuple[int, bool, bool], list[tuple[int, int]]] = {}
_ALLCHARS: list[str] = []


def _icase_variants(cp: int, ascii_only: bool, is_bytes: bool) -> list[tuple[int, int]]:
    """Every character a literal matches under re.IGNORECASE, obtained from CPython's own matcher
    (Unicode patterns fold e.g. U+212A KELVIN SIGN onto ``k`` and U+017F onto ``s``)."""
    key = (cp, ascii_only, is_bytes)
    if key not in _icase_cache:
        if is_bytes:
            hits = [b[0] for b in re.compile(re.escape(bytes([cp])), re.IGNORECASE).findall(bytes(range(256)))]
        else:
            if not _ALLCHARS:
                _ALLCHARS.append("".join(chr(i) for i in range(MAXCHAR + 1)))
            flags = re.IGNORECASE | (re.ASCII if ascii_only else 0)
            hits = [ord(c) for c in re.compile(re.escape(chr(cp)), flags).findall(_ALLCHARS[0])]
        _icase_cache[key] = [(h, h) for h in hits]
    return _icase_cache[key]


class Translator:
    def __init__(self, flags: int, is_bytes: bool) -> None:
        self.flags = flags
        self.is_bytes = is_bytes
        self.ascii = bool(flags & re.ASCII) or is_bytes
        self.limit = 0xFF if is_bytes else MAXCHAR
        if flags & re.IGNORECASE:
            self.icase = True
        else:
            self.icase = False
        if flags & (re.MULTILINE | re.VERBOSE | re.LOCALE):
            if flags & re.MULTILINE:
                raise Unsupported("re.MULTILINE")

    def anychar(self) -> Any:
        return _range(0, self.limit)

    def lit(self, cp: int) -> list[tuple[int, int]]:
        if cp > self.limit:
            raise Unsupported(f"literal U+{cp:X} beyond the modelled character range")
        r = [(cp, cp)]
        if self.icase:
            r += _icase_variants(cp, self.ascii, self.is_bytes)
        return r

    def class_ranges(self, items: list[Any]) -> list[tuple[int, int]]:
        neg = False
        ranges: list[tuple[int, int]] = []
        for op, av in items:
            if op is sre_c.NEGATE:
                neg = True
            elif op is sre_c.LITERAL:
                ranges += self.lit(av)
            elif op is sre_c.RANGE:
                lo, hi = av
                ranges.append((lo, min(hi, self.limit)))
                if self.icase:
                    for cp in range(lo, min(hi, 0x250) + 1):
                        ranges += self.lit(cp)
            elif op is sre_c.CATEGORY:
                r, n = category_ranges(av, self.ascii, self.is_bytes)
                ranges += _complement(r, self.limit) if n else r
            else:
                raise Unsupported(f"regex class item {op}")
        ranges = _merge(ranges)
        return _complement(ranges, self.limit) if neg else ranges

    def re_of_ranges(self, ranges: list[tuple[int, int]]) -> Any:
        return _union([_range(lo, hi) for lo, hi in ranges])

    def seq(self, items: Any, at_end: bool = True) -> Any:
        parts = []
        items = list(items)
        for idx, (op, av) in enumerate(items):
            last = idx == len(items) - 1
            parts.append(self.item(op, av, last and at_end, idx == 0))
        parts = [p for p in parts if p is not None]
        if not parts:
            return z3.Re(z3.StringVal(""))
        return z3.Concat(*parts) if len(parts) > 1 else parts[0]

    def item(self, op: Any, av: Any, is_last: bool, is_first: bool) -> Any:
        if op is sre_c.LITERAL:
            return self.re_of_ranges(self.lit(av))
        if op is sre_c.NOT_LITERAL:
            return self.re_of_ranges(_complement(_merge(self.lit(av)), self.limit))
        if op is sre_c.ANY:
            if self.flags & re.DOTALL:
                return self.anychar()
            return self.re_of_ranges(_complement([(10, 10)], self.limit))
        if op is sre_c.IN:
            return self.re_of_ranges(self.class_ranges(av))
        if op is sre_c.BRANCH:
            return _union([self.seq(alt, is_last) for alt in av[1]])
        if op in (sre_c.MAX_REPEAT, sre_c.MIN_REPEAT) or str(op) == "POSSESSIVE_REPEAT":
            lo, hi, sub = av
            inner = self.seq(sub, False)
            if hi is sre_c.MAXREPEAT or hi >= 65535:
                if lo == 0:
                    return z3.Star(inner)
                if lo == 1:
                    return z3.Plus(inner)
                return z3.Concat(z3.Loop(inner, lo, lo), z3.Star(inner))
            return z3.Loop(inner, lo, hi)
        if op is sre_c.SUBPATTERN:
            _gid, add_flags, del_flags, sub = av
            if add_flags or del_flags:
                raise Unsupported("inline regex flags")
            return self.seq(sub, is_last)
        if str(op) == "ATOMIC_GROUP":
            return self.seq(av, is_last)
        if op is sre_c.AT:
            if av is sre_c.AT_BEGINNING or av is sre_c.AT_BEGINNING_STRING:
                if is_first:
                    return None
                raise Unsupported("^ / \\A not at the start of the pattern")
            if av is sre_c.AT_END:
                if is_last:
                    # `$`: at the end, or just before a newline that is the last character
                    return z3.Option(z3.Re(z3.StringVal("\n")))
                raise Unsupported("$ not at the end of the pattern")
            if av is sre_c.AT_END_STRING:
                if is_last:
                    return None
                raise Unsupported("\\Z not at the end of the pattern")
            raise Unsupported(f"regex anchor {av}")
        if op is sre_c.CATEGORY:
            r, n = category_ranges(av, self.ascii, self.is_bytes)
            return self.re_of_ranges(_complement(r, self.limit) if n else r)
        raise Unsupported(f"regex construct {op}")


def parsed(p: "re.Pattern[Any]") -> tuple[Any, Translator]:
    is_bytes = isinstance(p.pattern, bytes)
    src = p.pattern.decode("latin-1") if is_bytes else p.pattern
    tree = sre_parse.parse(src, p.flags & ~re.UNICODE if is_bytes else p.flags)
    return tree, Translator(p.flags, is_bytes)


def end_anchored(tree: Any) -> bool:
    items = list(tree)
    if not items:
        return False
    op, av = items[-1]
    return op is sre_c.AT and av in (sre_c.AT_END, sre_c.AT_END_STRING)


def start_anchored(tree: Any) -> bool:
    items = list(tree)
    return bool(items) and items[0][0] is sre_c.AT and items[0][1] in (sre_c.AT_BEGINNING, sre_c.AT_BEGINNING_STRING)


def language(p: "re.Pattern[Any]", mode: str = "fullmatch") -> Any:
    """The set of subject strings for which ``p.<mode>(s)`` succeeds."""
    tree, tr = parsed(p)
    return _language(list(tree), tr, mode)


def _language(tree: Any, tr: Translator, mode: str) -> Any:
    # a pattern that is a single top-level alternation with `^`/`$` inside some alternatives
    # (`a|^b$|c`): anchors bind per alternative, so the language is the union of the alternatives'
    if len(tree) == 1 and tree[0][0] is sre_c.BRANCH and any(start_anchored(a) or end_anchored(a) for a in tree[0][1][1]):
        return _union([_language(list(alt), tr, mode) for alt in tree[0][1][1]])
    core = tr.seq(tree, True)
    any_ = z3.Star(tr.anychar())
    if mode == "fullmatch":
        # fullmatch: `$` still admits nothing extra (the match must span the whole string)
        items = [(op, av) for op, av in tree if not (op is sre_c.AT)]
        return tr.seq(items, False)
    if mode == "match":
        return core if end_anchored(tree) else z3.Concat(core, any_)
    if mode == "search":
        pre = z3.Re(z3.StringVal("")) if start_anchored(tree) else any_
        return z3.Concat(pre, core) if end_anchored(tree) else z3.Concat(pre, core, any_)
    raise Unsupported(f"regex mode {mode}")


def match_model(ip: Any, p: "re.Pattern[Any]", subject: Any, mode: str) -> Any:
    """Model of ``p.match/fullmatch/search(subject)``: ``None`` or a Match record."""
    S = ip.S
    tree, tr = parsed(p)
    is_bytes = tr.is_bytes
    if is_bytes != isinstance(subject, (SBytes, bytes)):
        raise ip.mkraise(V.SExc(TypeError, ("cannot use a string pattern on a bytes-like object",)))
    t = V.bytesterm(subject) if is_bytes else V.strterm(subject)
    W = SBytes if is_bytes else SStr
    lang = language(p, mode)
    if not S.fork(SBool(z3.InRe(t, lang))):
        return None
    m = SObj(None, kind="re.Match", pattern=p, subject=subject, mode=mode)
    # decompose along the top-level sequence so that top-level groups can be read
    items = [(op, av) for op, av in tree]
    groups: dict[int, Any] = {}
    parts = []
    n = len(items)
    pre = None
    if mode == "search" and not start_anchored(tree):
        pre = z3.String(S.fresh_name("re_pre"))
        parts.append(pre)
    whole = []
    for idx, (op, av) in enumerate(items):
        last = idx == n - 1
        if op is sre_c.AT and mode == "fullmatch":
            continue
        r = tr.item(op, av, last, idx == 0)
        if r is None:
            continue
        v = z3.String(S.fresh_name(f"re_part{idx}"))
        S.assume(z3.InRe(v, r))
        is_end_anchor = op is sre_c.AT
        parts.append(v)
        if not is_end_anchor:
            whole.append(v)
        if op is sre_c.SUBPATTERN and av[0] is not None:
            groups[av[0]] = W(v)
        elif op in (sre_c.MAX_REPEAT, sre_c.MIN_REPEAT) and len(list(av[2])) == 1 and list(av[2])[0][0] is sre_c.SUBPATTERN and av[0] == 0 and av[1] == 1:
            gid = list(av[2])[0][1][0]
            if gid is not None:
                groups[gid] = ("optional", W(v))
    if mode != "fullmatch" and not end_anchored(tree):
        parts.append(z3.String(S.fresh_name("re_rest")))
    S.assume(t == (z3.Concat(*parts) if len(parts) > 1 else parts[0]) if parts else t == z3.StringVal(""))
    m.fields["groups"] = groups
    m.fields["whole"] = W(z3.Concat(*whole) if len(whole) > 1 else (whole[0] if whole else z3.StringVal("")))
    m.fields["ngroups"] = p.groups
    S.note("regex groups are read from a decomposition along the pattern's top-level sequence (all decompositions considered: an over-approximation when the pattern is ambiguous)")
    return m


def match_group(ip: Any, m: SObj, *idx: Any) -> Any:
    if not idx:
        idx = (0,)
    out = []
    for i in idx:
        if isinstance(i, str):
            gi = m.fields["pattern"].groupindex.get(i)
            if gi is None:
                raise ip.mkraise(V.SExc(IndexError, ("no such group",)))
            i = gi
        if i == 0:
            out.append(m.fields["whole"])
            continue
        if not isinstance(i, int) or i < 0 or i > m.fields["ngroups"]:
            raise ip.mkraise(V.SExc(IndexError, ("no such group",)))
        g = m.fields["groups"].get(i)
        if g is None:
            raise Unsupported(f"regex group {i} is not a top-level group of the pattern")
        if isinstance(g, tuple):
            v = g[1]
            out.append(v if ip.S.fork(SBool(z3.Length(v.t) > 0)) else None)
        else:
            out.append(g)
    return out[0] if len(out) == 1 else tuple(out)


def install(handlers: dict[Any, Any]) -> None:
    handlers["re.Match.group"] = lambda S, m, *i: match_group(S.interp, m, *i)
    handlers["re.Match.groups"] = lambda S, m: tuple(match_group(S.interp, m, k) for k in range(1, m.fields["ngroups"] + 1))
    handlers["re.Match.__getitem__"] = lambda S, m, i: match_group(S.interp, m, i)
