"""Path exploration by decision replay, path conditions, obligations (DESIGN §2.1).

``explore(run)`` executes ``run(S)`` once per path.  Every symbolic branch calls
``S.fork(cond)``: inside the recorded decision prefix the recorded choice is taken;
past it, both sides are checked for feasibility, one is taken and the other queued.
All fresh-name counters restart with each execution, so a prefix replays identically.
"""

from __future__ import annotations

import time
from dataclasses import dataclass, field
from typing import Any, Callable

import z3

from . import values as V
from .values import SBool, Unsupported


class PathEnd(Exception):
    """The path was cut (loop invariant preserved / assume False / explicit stop)."""


class Infeasible(PathEnd):
    pass


class PyRaise(Exception):
    """A Python exception propagating in the interpreted program."""

    def __init__(self, exc: Any) -> None:
        super().__init__()  # repr is lazy (__str__): printing a large symbolic argument costs seconds per raise
        self.exc = exc

    def __str__(self) -> str:
        return repr(self.exc)

    @property
    def cls(self) -> type:
        return self.exc.cls if isinstance(self.exc, V.SExc) else type(self.exc)


@dataclass
class Obligation:
    name: str
    pc: list[Any]
    goal: Any
    kind: str = "post"  # post | pre | inv-init | inv-pres | raises | trace | lemma | canary | cover
    expect: str = "unsat"  # canaries expect "sat"
    meta: dict[str, Any] = field(default_factory=dict)
    path_id: int = 0
    inputs: dict[str, Any] = field(default_factory=dict)  # name -> z3 term to evaluate in a model


@dataclass
class PathResult:
    path_id: int
    decisions: tuple[int, ...]
    outcome: str
    obligations: list[Obligation]
    functions: dict[str, Any]
    notes: list[str]


def has_quantifier(t: Any, _seen: set[int] | None = None) -> bool:
    seen = _seen if _seen is not None else set()
    stack = [t]
    while stack:
        x = stack.pop()
        i = x.get_id()
        if i in seen:
            continue
        seen.add(i)
        if z3.is_quantifier(x):
            return True
        stack.extend(x.children())
    return False


class Exec:
    """One execution (= one path).  Also the contract-facing API object ``S``."""

    FEAS_TIMEOUT_MS = 1000

    def __init__(self, explorer: "Explorer", prefix: tuple[int, ...], path_id: int) -> None:
        self.explorer = explorer
        self.prefix = prefix
        self.decisions: list[int] = []
        self.path_id = path_id
        self.pc: list[Any] = []
        self.solver = z3.Solver()
        self.solver.set("timeout", self.FEAS_TIMEOUT_MS)
        self._names: dict[str, int] = {}
        self.obligations: list[Obligation] = []
        self.trace: list[tuple[Any, ...]] = []
        self.ghost: dict[str, Any] = {}
        self.handlers: dict[Any, Callable[..., Any]] = {}
        self.inline: set[str] = set()
        self.native: set[str] = set()
        self.invariants: dict[tuple[str, int], Callable[..., Any]] = {}
        self.loop_havoc: dict[tuple[str, int], dict[str, Any]] = {}
        self.loop_ghost: dict[tuple[str, int], list[str]] = {}
        self.unroll: dict[tuple[str, int], int] = {}
        self.inputs: dict[str, Any] = {}
        self.functions: dict[str, Any] = {}
        self.assumed: dict[str, str] = {}
        self.notes: list[str] = []
        self.interp: Any = None
        self.cur_site = ""
        from . import regex

        regex.install(self.handlers)

    # ---- naming -------------------------------------------------------------------
    def fresh_name(self, base: str) -> str:
        n = self._names.get(base, 0)
        self._names[base] = n + 1
        return base if n == 0 else f"{base}!{n}"

    # ---- symbolic inputs ----------------------------------------------------------
    def _reg(self, name: str, v: Any) -> Any:
        self.inputs[name] = v
        return v

    def int(self, name: str) -> V.SInt:
        return self._reg(name, V.SInt(z3.Int(self.fresh_name(name))))

    def bool(self, name: str) -> V.SBool:
        return self._reg(name, V.SBool(z3.Bool(self.fresh_name(name))))

    def str(self, name: str) -> V.SStr:
        return self._reg(name, V.SStr(z3.String(self.fresh_name(name))))

    def bytes(self, name: str) -> V.SBytes:
        b = V.SBytes(z3.String(self.fresh_name(name)))
        self.assume(is_bytes_term(b.t))
        return self._reg(name, b)

    def float(self, name: str) -> V.SFloat:
        return self._reg(name, V.SFloat(z3.FP(self.fresh_name(name), V.FP64)))

    def opaque(self, name: str, kind: str) -> V.SOpaque:
        return self._reg(name, V.SOpaque(z3.Const(self.fresh_name(name), V.opaque_sort(kind)), kind))

    def list(self, name: str, elem: V.Shape) -> V.SList:
        return self._reg(name, V.ListShape(elem).fresh(name))

    def map(self, name: str, key: V.Shape, val: V.Shape, ordered: bool = False) -> V.SMap:
        return self._reg(name, V.SMap.fresh(name, key, val, ordered))

    def fresh(self, name: str, shape: V.Shape) -> Any:
        return shape.fresh(name)

    # ---- path condition ------------------------------------------------------------
    def assume(self, c: Any) -> None:
        t = V.boolterm(c)
        if z3.is_false(z3.simplify(t)):
            raise Infeasible()
        self.pc.append(t)
        self._solver_add(t)

    def _solver_add(self, t: Any) -> None:
        # feasibility pruning uses only the quantifier-free part of the path condition (a weaker
        # condition: it can only keep extra paths, never drop a feasible one)
        if not has_quantifier(t):
            self.solver.add(self._prune_view(t))

    def _prune_view(self, t: Any) -> Any:
        """With ``S.abstract_regex = True`` the pruning solver sees every regex membership atom as an
        opaque boolean (z3's sequence solver can hang past its timeout on memberships + disequalities).
        A weaker condition: it can only keep extra paths; obligations still carry the real atoms."""
        if getattr(self, "prune_lia", False):  # opt-in: linear-arithmetic view (pyvc/prune.py), also a weaker condition
            from .prune import lia_view

            return lia_view(self, t)
        if not getattr(self, "abstract_regex", False):
            return t
        atoms = self.__dict__.setdefault("_re_atoms", {})
        pairs, seen, stack = [], set(), [t]
        while stack:
            x = stack.pop()
            if x.get_id() in seen:
                continue
            seen.add(x.get_id())
            if z3.is_app(x) and x.decl().kind() == z3.Z3_OP_SEQ_IN_RE:
                if x.get_id() not in atoms:
                    atoms[x.get_id()] = (x, z3.Bool(f"re_atom!{len(atoms)}"))
                pairs.append(atoms[x.get_id()])
                continue
            stack.extend(x.children())
        return z3.substitute(t, *pairs) if pairs else t

    def _feasible(self, t: Any) -> bool:
        st = z3.simplify(t)
        if z3.is_true(st):
            return True
        if z3.is_false(st):
            return False
        if getattr(self, "syntactic_pruning", False):
            # ``S.syntactic_pruning = True``: the contract opts out of solver-based pruning (a weaker test: it can only
            # keep extra paths, whose obligations are then vacuous); a branch is dropped only when its condition
            # literally contradicts a conjunct of the path condition
            def strip(x: Any) -> Any:  # not(not(x)) -> x
                while z3.is_not(x) and z3.is_not(x.arg(0)):
                    x = x.arg(0).arg(0)
                return x

            t = strip(t)
            neg = t.arg(0) if z3.is_not(t) else z3.Not(t)
            return not any(z3.eq(strip(c), neg) for c in self.pc)
        self.explorer.feas_checks += 1
        try:
            r = self.solver.check(self._prune_view(t))
        except z3.Z3Exception:  # e.g. the sequence solver's "reached max unfolding": same as `unknown`
            return True
        return r != z3.unsat  # unknown is treated as feasible (sound: only adds paths)

    def fork(self, cond: Any) -> bool:
        """Branch on a symbolic condition; returns the concrete decision for this path."""
        if isinstance(cond, bool):
            return cond
        t = V.boolterm(cond)
        st = z3.simplify(t)
        if z3.is_true(st):
            return True
        if z3.is_false(st):
            return False
        i = len(self.decisions)
        if i < len(self.prefix):
            d = self.prefix[i]
        else:
            ft = self._feasible(t)
            ff = self._feasible(z3.Not(t))
            if ft and ff:
                d = 1
                self.explorer.enqueue(tuple(self.decisions) + (0,))
            elif ft:
                d = 1
            elif ff:
                d = 0
            else:
                raise Infeasible()
        self.decisions.append(d)
        c = t if d else z3.Not(t)
        self.pc.append(c)
        self._solver_add(c)
        return bool(d)

    def choose(self, n: int, label: str = "") -> int:
        """Unconditional nondeterministic choice among ``n`` alternatives."""
        if n <= 1:
            return 0
        i = len(self.decisions)
        if i < len(self.prefix):
            d = self.prefix[i]
        else:
            d = 0
            for alt in range(n - 1, 0, -1):
                self.explorer.enqueue(tuple(self.decisions) + (alt,))
        self.decisions.append(d)
        return d

    # ---- obligations ----------------------------------------------------------------
    def oblige(self, name: str, goal: Any, kind: str = "post", **meta: Any) -> None:
        t = V.boolterm(goal)
        self.obligations.append(
            Obligation(name, list(self.pc), t, kind, "unsat", dict(meta, site=self.cur_site), self.path_id, dict(self.inputs))
        )

    def lemma(self, name: str, goal: Any, **meta: Any) -> None:
        """assert-then-assume: prove ``goal`` here as its own obligation, then use it as a hypothesis
        (how intermediate facts with explicit witnesses are handed to later obligations)."""
        self.oblige(name, goal, kind="lemma", **meta)
        self.assume(goal)

    def canary(self, name: str, goal: Any, **meta: Any) -> None:
        """A deliberately wrong claim: it must be *refuted* (vacuity / engine guard)."""
        t = V.boolterm(goal)
        self.obligations.append(Obligation(name, list(self.pc), t, "canary", "sat", meta, self.path_id, dict(self.inputs)))

    def cover(self, name: str) -> None:
        """Reachability: the current path condition must be satisfiable."""
        self.obligations.append(
            Obligation(name, list(self.pc), z3.BoolVal(False), "cover", "sat", {}, self.path_id, dict(self.inputs))
        )

    # ---- ghost trace ------------------------------------------------------------------
    def event(self, name: str, *args: Any) -> None:
        self.trace.append((name, *args))

    def events(self, name: str) -> list[tuple[Any, ...]]:
        return [e for e in self.trace if e[0] == name]

    # ---- calling real code --------------------------------------------------------------
    def call(self, fn: Any, *args: Any, **kwargs: Any) -> Any:
        """Symbolically execute the real function ``fn``; returns its value or raises PyRaise."""
        return self.interp.call_function(fn, list(args), dict(kwargs), force_inline=True)

    def outcome(self, fn: Any, *args: Any, **kwargs: Any) -> "Outcome":
        try:
            return Outcome("return", self.call(fn, *args, **kwargs), None)
        except PyRaise as e:
            return Outcome("raise", None, e.exc)

    def assume_external(self, key: str, text: str) -> None:
        self.assumed[key] = text

    def note(self, text: str) -> None:
        if text not in self.notes:
            self.notes.append(text)


@dataclass
class Outcome:
    kind: str  # "return" | "raise"
    value: Any
    exc: Any

    @property
    def returned(self) -> bool:
        return self.kind == "return"

    @property
    def raised(self) -> bool:
        return self.kind == "raise"

    def exc_class(self) -> type | None:
        if self.exc is None:
            return None
        return self.exc.cls if isinstance(self.exc, V.SExc) else type(self.exc)


def is_bytes_term(t: Any) -> Any:
    """All characters of the z3 String ``t`` are code points 0..255."""
    rng = z3.Range(z3.StringVal("\x00"), z3.StringVal("ÿ"))
    return z3.InRe(t, z3.Star(rng))


class Explorer:
    def __init__(self, run: Callable[[Exec], None], max_paths: int = 4000, label: str = "", bound_k: int | None = None) -> None:
        self.bound_k = bound_k
        self.run = run
        self.max_paths = max_paths
        self.queue: list[tuple[int, ...]] = [()]
        self.results: list[PathResult] = []
        self.feas_checks = 0
        self.label = label

    def enqueue(self, prefix: tuple[int, ...]) -> None:
        self.queue.append(prefix)

    def explore(self) -> list[PathResult]:
        from .interp import Interp

        pid = 0
        while self.queue:
            prefix = self.queue.pop()
            pid += 1
            if pid > self.max_paths:
                raise Unsupported(f"{self.label}: more than {self.max_paths} paths")
            S = Exec(self, prefix, pid)
            S.interp = Interp(S)
            V.push_ctx(S)
            if self.bound_k is not None:
                V.BOUND_K.append(self.bound_k)
            outcome = "done"
            try:
                self.run(S)
            except Infeasible:
                outcome = "infeasible"
            except PathEnd:
                outcome = "cut"
            except PyRaise as e:
                raise Unsupported(f"{self.label}: contract driver let an exception escape: {e.exc!r}") from e
            finally:
                V.pop_ctx()
                if self.bound_k is not None:
                    V.BOUND_K.pop()
            if outcome != "infeasible":
                self.results.append(
                    PathResult(pid, tuple(S.decisions), outcome, S.obligations, S.functions, S.notes + [f"assumed:{k}: {v}" for k, v in S.assumed.items()])
                )
        return self.results


def timed(fn: Callable[[], Any]) -> tuple[Any, float]:
    t0 = time.time()
    r = fn()
    return r, time.time() - t0
