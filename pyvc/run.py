"""Check driver:  python -m pyvc.run <ID> [--tier quick|thorough] [--replay FILE]

Exit codes (DESIGN §4): 0 held · 1 violation (VIOLATION line) · 2 undecided · 3 crash.
"""

from __future__ import annotations

import argparse
import importlib.util
import json
import os
import re
import sys
import time
import traceback
from typing import Any

import z3

from . import api, smt
from .core import Explorer, Obligation
from .values import Unsupported

VERIF = os.path.dirname(os.path.dirname(os.path.abspath(__file__)))


def load_contract(pid: str) -> tuple[Any, list[Any]]:
    path = os.path.join(VERIF, "contracts", f"{pid}.py")
    if not os.path.exists(path):
        raise SystemExit(f"no contract file for {pid}")
    cdir = os.path.join(VERIF, "contracts")
    if cdir not in sys.path:
        sys.path.insert(0, cdir)
    reg = api.begin_registry()
    try:
        spec = importlib.util.spec_from_file_location(f"contracts_{pid}", path)
        assert spec and spec.loader
        mod = importlib.util.module_from_spec(spec)
        sys.modules[spec.name] = mod
        spec.loader.exec_module(mod)
    finally:
        api.end_registry()
    return mod, reg


def load_known(pid: str) -> list[dict[str, Any]]:
    p = os.path.join(VERIF, "known_findings.json")
    if not os.path.exists(p):
        return []
    with open(p) as fh:
        data = json.load(fh)
    return [e for e in data.get("findings", []) if e.get("property") == pid]


def load_baseline(pid: str) -> set[str]:
    p = os.path.join(VERIF, "baseline", f"{pid}.json")
    if not os.path.exists(p):
        return set()
    with open(p) as fh:
        return set(json.load(fh).get("discharged", []))


def jsonable(v: Any) -> Any:
    if isinstance(v, bytes):
        return {"__bytes__": v.decode("latin-1")}
    if isinstance(v, float):
        if v != v or v in (float("inf"), float("-inf")):
            return {"__float__": repr(v)}
        return v
    if isinstance(v, (str, int, bool)) or v is None:
        return v
    if isinstance(v, tuple):
        return {"__tuple__": [jsonable(x) for x in v]}
    if isinstance(v, list):
        return [jsonable(x) for x in v]
    if isinstance(v, dict):
        return {str(k): jsonable(x) for k, x in v.items()}
    return repr(v)


def unjson(v: Any) -> Any:
    if isinstance(v, dict):
        if "__bytes__" in v:
            return v["__bytes__"].encode("latin-1")
        if "__float__" in v:
            return float(v["__float__"])
        if "__tuple__" in v:
            return tuple(unjson(x) for x in v["__tuple__"])
        return {k: unjson(x) for k, x in v.items()}
    if isinstance(v, list):
        return [unjson(x) for x in v]
    return v


def sanitize(name: str) -> str:
    return re.sub(r"[^A-Za-z0-9_.-]+", "_", name)[:120]


def readable(ob: Obligation) -> dict[str, Any]:
    return {
        "name": ob.name,
        "kind": ob.kind,
        "site": ob.meta.get("site", ""),
        "path_condition": [str(z3.simplify(c))[:300] for c in ob.pc[-6:]],
        "pc_len": len(ob.pc),
        "goal": str(ob.goal)[:600],
    }


def main(argv: list[str] | None = None) -> int:
    ap = argparse.ArgumentParser()
    ap.add_argument("pid")
    ap.add_argument("--tier", default=os.environ.get("VERIF_TIER", "quick"), choices=["quick", "thorough"])
    ap.add_argument("--replay", default=None)
    ap.add_argument("--only", default=None, help="run only units whose name contains this text (development)")
    ap.add_argument("-v", action="store_true")
    ap.add_argument("--write-baseline", action="store_true", help="record the names of discharged obligations (run on the pinned tree, commit the file)")
    a = ap.parse_args(argv)
    seed = int(os.environ.get("VERIF_SEED", "0") or 0)
    t_start = time.time()
    pid = a.pid
    try:
        return run(pid, a.tier, seed, a.replay, a.only, a.v, t_start, a.write_baseline)
    except SystemExit:
        raise
    except Exception:
        traceback.print_exc()
        print(f"CHECKER-CRASH property={pid} (bug in /verif, no evidence about /repo)")
        return 3


def run(pid: str, tier: str, seed: int, replay_file: str | None, only: str | None, verbose: bool, t_start: float, write_baseline: bool = False) -> int:
    mod, reg = load_contract(pid)
    units = [u for u in reg if isinstance(u, api.Unit)]
    bounded = [u for u in reg if isinstance(u, api.Bounded)]
    if replay_file:
        return do_replay(pid, units, replay_file)
    if only:
        units = [u for u in units if only in u.name]
        bounded = [b for b in bounded if only in b.name]
    known = load_known(pid)
    baseline_names = load_baseline(pid)
    all_obs: list[Obligation] = []
    ob_unit: dict[int, api.Unit] = {}
    functions: dict[str, Any] = {}
    notes: list[str] = []
    unit_stats: list[dict[str, Any]] = []
    undecided: list[str] = []
    early_violations: list[str] = []
    t_sym = time.time()
    for u in units:
        ex = Explorer(u.run, max_paths=u.max_paths, label=u.name)
        try:
            results = ex.explore()
        except Unsupported as e:
            # The code under contract left the supported subset (or a loop lost its invariant): the proof
            # is undecided.  A labelled *bounded* fallback may still settle it: the unit's native search
            # hook hunts for a failing input on the real code; a hit is a confirmed violation (never a
            # false alarm, the input is replayed natively), no hit leaves the unit undecided (exit 2).
            found = None
            if u.search is not None:
                try:
                    found = u.search(None, seed)
                except Exception as se:
                    print(f"  search hook raised {type(se).__name__}: {se}")
            if found is not None:
                inputs_f, rr_f = found
                os.makedirs(os.path.join(VERIF, "replays", pid), exist_ok=True)
                rp = os.path.join("replays", pid, sanitize(f"{pid}.{u.name}.unsupported-fallback") + ".json")
                with open(os.path.join(VERIF, rp), "w") as fh:
                    json.dump({"property": pid, "unit": u.name, "obligation": f"{pid}.{sanitize(u.name)}.bounded-native-search", "inputs": jsonable(inputs_f),
                               "solver": "none (function left the supported subset: " + str(e)[:200] + ")",
                               "solver_output": "undecided by the prover; failing input found by the unit's bounded native search",
                               "native_replay": {"confirmed": True, "detail": rr_f.detail}}, fh, indent=1)
                early_violations.append(f"VIOLATION property={pid} replay={rp}")
                print(f"REFUTED (bounded native search after: {str(e)[:120]}) unit={u.name!r}: {rr_f.detail[:300]}")
                continue
            undecided.append(f"{u.name}: unsupported: {e}")
            print(f"UNDECIDED property={pid} unit={u.name!r}: {e}")
            if verbose:
                traceback.print_exc()
            continue
        n_ob = 0
        for r in results:
            for ob in r.obligations:
                ob.name = ob.name if ob.name.startswith(pid) else f"{pid}.{ob.name}"
                ob_unit[id(ob)] = u
                all_obs.append(ob)
                n_ob += 1
            functions.update(r.functions)
            for n in r.notes:
                if n not in notes:
                    notes.append(n)
        unit_stats.append({"unit": u.name, "paths": len(results), "obligations": n_ob, "feasibility_checks": ex.feas_checks, "targets": u.targets})
        if n_ob < u.min_obligations:
            undecided.append(f"{u.name}: only {n_ob} obligations generated (< {u.min_obligations}): vacuous")
            print(f"UNDECIDED property={pid} unit={u.name!r}: vacuity guard: {n_ob} obligations < {u.min_obligations}")
    sym_s = time.time() - t_sym
    t_smt = time.time()
    verdicts = smt.discharge(all_obs, tier) if all_obs else []
    smt_s = time.time() - t_smt

    # ---- bounded mode (DESIGN §2.1 step 6): quantified queries the solvers leave `unknown` are
    # re-generated with index quantifiers expanded over lists of length <= K (decidable); a `sat`
    # there yields a concrete model: it settles a canary, or is replayed natively for an obligation.
    bounded_canary_ok: set[str] = set()
    bounded_models: dict[str, list[Obligation]] = {}
    sat_canaries = {v.ob.name for v in verdicts if v.ob.kind == "canary" and v.result == "sat"}
    need = {v.ob.name for v in verdicts if v.result == "unknown" and v.ob.kind != "cover" and v.ob.name not in sat_canaries}
    bounded_note = ""
    if need:
        t_b = time.time()
        for K in (3, 6):
            if not need:
                break
            obs2: list[Obligation] = []
            for u in units:
                if not any(ob_unit[id(o)] is u for o in all_obs if o.name in need):
                    continue
                try:
                    res2 = Explorer(u.run, max_paths=u.max_paths, label=u.name + f" [bounded K={K}]", bound_k=K).explore()
                except Unsupported:
                    continue
                for r in res2:
                    for ob in r.obligations:
                        ob.name = ob.name if ob.name.startswith(pid) else f"{pid}.{ob.name}"
                        if ob.name in need:
                            ob_unit[id(ob)] = u
                            obs2.append(ob)
            for v2 in smt.discharge(obs2, tier) if obs2 else []:
                if v2.result != "sat":
                    continue
                if v2.ob.kind == "canary":
                    bounded_canary_ok.add(v2.ob.name)
                    need.discard(v2.ob.name)
                else:
                    bounded_models.setdefault(v2.ob.name, []).append(v2)
        bounded_note = f"bounded mode consulted for {len(bounded_canary_ok) + len(bounded_models)} names in {time.time() - t_b:.1f}s"

    violations: list[str] = list(early_violations)
    known_lines: list[str] = []
    n_oblig = n_disch = n_canary = n_canary_ok = n_cover = n_cover_ok = n_known = 0
    per_ob: list[dict[str, Any]] = []
    solver_time: dict[str, float] = {}
    os.makedirs(os.path.join(VERIF, "replays", pid), exist_ok=True)
    seen_viol: set[str] = set()
    processed_refutations: dict[str, str] = {}
    canary_results: dict[str, list[str]] = {}
    for v in verdicts:
        ob = v.ob
        solver_time[v.solver.split("-")[0]] = solver_time.get(v.solver.split("-")[0], 0.0) + v.seconds
        rec = {"name": ob.name, "kind": ob.kind, "path": ob.path_id, "solver": v.solver, "result": v.result, "seconds": round(v.seconds, 3)}
        per_ob.append(rec)
        if ob.kind == "canary":
            # a canary (deliberately wrong claim) must be refuted on at least one path
            canary_results.setdefault(ob.name, []).append("sat" if ob.name in bounded_canary_ok else v.result)
            continue
        if ob.kind == "cover":
            n_cover += 1
            if v.result == "sat":
                n_cover_ok += 1
            elif v.result == "unsat":
                undecided.append(f"cover {ob.name} unreachable: precondition contradictory")
                print(f"UNDECIDED property={pid}: cover {ob.name} is unreachable (vacuous precondition)")
            else:
                undecided.append(f"cover {ob.name}: {v.result}")
                print(f"UNDECIDED property={pid}: cover {ob.name}: solver {v.result}")
            continue
        n_oblig += 1
        if v.result == "unsat":
            n_disch += 1
            continue
        u = ob_unit[id(ob)]
        pre_key = f"{ob.name}|{ob.meta.get('witness', '')}"
        if pre_key in processed_refutations:
            # same obligation and witness class already triaged (model, replay, VIOLATION/KNOWN line) on another path
            if processed_refutations[pre_key] == "known":
                n_oblig -= 1
                n_known += 1
            continue
        model = None
        rr = None
        inputs: dict[str, Any] = {}
        if v.result == "unknown" and ob.name in bounded_models and u.replay is not None:
            # bounded-mode counter-models: keep one only if it reproduces natively
            for v2 in bounded_models[ob.name][:4]:
                ob2 = v2.ob
                m2 = smt.model_for(v2)
                if m2 is None:
                    continue
                cand = {}
                for nm, val in ob2.inputs.items():
                    try:
                        cand[nm] = m2.value(val)
                    except Exception as e:
                        cand[nm] = f"<unavailable: {e}>"
                try:
                    r2 = u.replay(cand, ob2)
                except Exception as e:
                    r2 = api.ReplayResult(False, f"replay harness raised {type(e).__name__}: {e}")
                if r2.confirmed:
                    inputs, rr, model = cand, r2, m2
                    break
        if rr is not None:
            pass
        elif v.result == "unknown":
            # A proof obligation the solvers no longer accept.  If it was discharged on the pinned tree
            # (committed baseline), the failed obligation *is* the violation (deductive verification:
            # not proved = not accepted); a failing input is searched for, and if none is found the
            # VIOLATION line says so.  Obligations never proved before stay "undecided" (exit 2).
            if ob.name not in baseline_names:
                undecided.append(f"{ob.name} (path {ob.path_id}): solvers undecided {v.tried}")
                print(f"UNDECIDED property={pid} obligation={ob.name} path={ob.path_id}: {v.tried}")
                continue
            model = None
        else:
            model = smt.model_for(v)
        if model is not None and rr is None:
            for nm, val in ob.inputs.items():
                try:
                    inputs[nm] = model.value(val)
                except Exception as e:  # pragma: no cover - model completion corner cases
                    inputs[nm] = f"<unavailable: {e}>"
        if rr is None and model is None and u.search is not None:
            try:
                found = u.search(ob, seed)
            except Exception as e:
                found = None
                print(f"  search hook raised {type(e).__name__}: {e}")
            if found is not None:
                inputs, rr = found
        if rr is None and u.replay is not None and model is not None:
            try:
                rr = u.replay(inputs, ob)
            except Exception as e:
                rr = api.ReplayResult(False, f"replay harness raised {type(e).__name__}: {e}")
        if (rr is None or not rr.confirmed) and u.search is not None and model is not None:
            # the solver's model did not reproduce (or the unit has no model-driven replay): hunt natively
            try:
                found = u.search(ob, seed)
            except Exception as e:
                found = None
                print(f"  search hook raised {type(e).__name__}: {e}")
            if found is not None:
                inputs, rr = found
        wclass = ""
        if u.classify is not None:
            try:
                wclass = u.classify(inputs, ob)
            except Exception:
                wclass = ""
        wclass = wclass or ob.meta.get("witness", "") or ""
        # known finding?
        kf = None
        for e in known:
            if e.get("status", "known") != "known":
                continue
            if e.get("obligation") == ob.name and (not e.get("witness_class") or e.get("witness_class") == wclass):
                kf = e
                break
        replay_path = os.path.join("replays", pid, sanitize(f"{ob.name}.{wclass or 'p' + str(ob.path_id)}") + ".json")
        with open(os.path.join(VERIF, replay_path), "w") as fh:
            json.dump(
                {
                    "property": pid,
                    "unit": u.name,
                    "obligation": ob.name,
                    "witness_class": wclass,
                    "kind": ob.kind,
                    "site": ob.meta.get("site", ""),
                    "inputs": jsonable(inputs),
                    "solver": v.solver,
                    "solver_output": f"{v.result} ({v.tried}) on pc∧¬goal; goal={str(ob.goal)[:800]}",
                    "native_replay": {"confirmed": bool(rr and rr.confirmed), "detail": rr.detail if rr else "no replay harness / no model"},
                    "known_finding": bool(kf),
                },
                fh,
                indent=1,
            )
        rec["refuted"] = True
        rec["witness_class"] = wclass
        rec["replay_confirmed"] = bool(rr and rr.confirmed)
        processed_refutations[pre_key] = "known" if kf is not None else "violation"
        if kf is not None:
            n_known += 1
            n_oblig -= 1  # reported separately, not part of the discharged count
            line = f"KNOWN-FINDING: property={pid} {kf.get('what', ob.name)}"
            if line not in known_lines:
                known_lines.append(line)
            continue
        key = f"{ob.name}|{wclass}"
        if key in seen_viol:
            continue
        seen_viol.add(key)
        suffix = "" if (rr and rr.confirmed) else " no-failing-input-found"
        violations.append(f"VIOLATION property={pid} replay={replay_path}{suffix}")
        print(f"REFUTED obligation={ob.name} unit={u.name!r} witness={wclass!r} site={ob.meta.get('site', '')!r}")
        if rr:
            print(f"  native replay: confirmed={rr.confirmed} {rr.detail[:300]}")
        if verbose:
            print("  inputs:", json.dumps(jsonable(inputs))[:600])

    for cname, rs in canary_results.items():
        n_canary += 1
        if "sat" in rs:
            n_canary_ok += 1
        elif "unknown" in rs:
            undecided.append(f"canary {cname}: solvers undecided")
            print(f"UNDECIDED property={pid}: canary {cname}: solvers undecided")
        else:
            undecided.append(f"canary {cname} was PROVED on every path: the engine or the contract is vacuous")
            print(f"UNDECIDED property={pid}: canary {cname} was proved (vacuity)")
    if n_canary == 0 and units:
        undecided.append("no canary in this contract file (vacuity guard)")
        print(f"UNDECIDED property={pid}: contract file registers no canary")

    # bounded stand-ins (labelled bounded, never counted as discharged)
    bounded_out: list[dict[str, Any]] = []
    for b in bounded:
        if tier not in b.tiers:
            continue
        t0 = time.time()
        try:
            br = b.run(tier, seed)
        except Exception as e:
            traceback.print_exc()
            undecided.append(f"bounded stand-in {b.name} crashed: {e}")
            continue
        bounded_out.append({"name": b.name, "bound": b.bound, "evaluations": br.evaluations, "failures": br.failures[:5], "seconds": round(time.time() - t0, 2), "detail": br.detail})
        for fmsg in br.failures[:3]:
            wclass = "bounded:" + b.name
            kf = next((e for e in known if e.get("status", "known") == "known" and e.get("obligation") == f"{pid}.{b.name}"), None)
            if kf is not None:
                line = f"KNOWN-FINDING: property={pid} {kf.get('what', b.name)}"
                if line not in known_lines:
                    known_lines.append(line)
                n_known += 1
                break
            replay_path = os.path.join("replays", pid, sanitize(f"{pid}.{b.name}") + ".json")
            with open(os.path.join(VERIF, replay_path), "w") as fh:
                json.dump({"property": pid, "obligation": f"{pid}.{b.name}", "bounded": b.bound, "failure": fmsg}, fh, indent=1)
            violations.append(f"VIOLATION property={pid} replay={replay_path}")
            print(f"BOUNDED-FAILURE {b.name}: {fmsg[:300]}")
            break

    if verbose:
        for v in sorted(verdicts, key=lambda v: -v.seconds)[:6]:
            if v.seconds >= 1.0:
                print(f"  slow: {v.seconds:.1f}s {v.ob.name} path={v.ob.path_id} {v.result} {v.tried} goal={str(v.ob.goal)[:160]}")
    for line in known_lines:
        print(line)
    for line in violations:
        print(line)

    wall = time.time() - t_start
    trusted = list(getattr(mod, "TRUSTED", []))
    assumptions = list(getattr(mod, "ASSUMPTIONS", [])) + [n for n in notes]
    samples = []
    seen_names: set[str] = set()
    for v in verdicts:
        base = v.ob.name
        if base in seen_names or v.ob.kind in ("cover",):
            continue
        seen_names.add(base)
        d = readable(v.ob)
        d["result"] = v.result
        d["solver"] = v.solver
        samples.append(d)
        if len(samples) >= 8:
            break
    evidence = {
        "property_id": pid,
        "tier": tier,
        "seed": seed,
        "level": "proof",
        "coverage": {
            "obligations": n_oblig,
            "discharged": n_disch,
            "checker_cmd": f"./check {pid} --tier {tier}",
            "trusted_base": trusted,
            "samples": samples,
            "explanation": getattr(mod, "EXPLANATION", ""),
            "functions_under_contract": [{"function": k, **v} for k, v in sorted(functions.items())],
            "units": unit_stats,
            "paths_explored": sum(u["paths"] for u in unit_stats),
            "distinct_obligation_names": len({v.ob.name for v in verdicts}),
            "canaries": n_canary,
            "canaries_refuted": n_canary_ok,
            "covers": n_cover,
            "covers_reachable": n_cover_ok,
            "known_findings_matched": n_known,
            "undecided": undecided,
            "bounded_standins": bounded_out,
            "solver_seconds": {k: round(x, 2) for k, x in solver_time.items()},
            "symbolic_execution_seconds": round(sym_s, 2),
            "smt_wall_seconds": round(smt_s, 2),
            "solvers": {"z3": z3.get_version_string(), "cvc5": "1.4.0 (python wheel via pyvc/cvc5_runner.py, consulted on z3 unknown)"},
            "cross_solver_check": dict(smt.LAST_STATS),
            "per_obligation": per_ob if len(per_ob) <= 400 else per_ob[:400],
            "repo": os.environ.get("VERIF_REPO", "/repo"),
        },
        "assumptions": assumptions,
        "wall_s": round(wall, 2),
        "violations": len(violations),
    }
    # evidence/ describes /repo only: a run against a scratch tree (selftest, seeded change) writes next to its replays
    scratch = os.path.realpath(os.environ.get("VERIF_REPO", "/repo")) != "/repo"
    ev_dir = os.path.join(VERIF, "replays", pid) if scratch else os.path.join(VERIF, "evidence")
    os.makedirs(ev_dir, exist_ok=True)
    with open(os.path.join(ev_dir, "evidence.scratch.json" if scratch else f"{pid}.json"), "w") as fh:
        json.dump(evidence, fh, indent=1)
    print(
        f"[{pid}] tier={tier} units={len(units)} paths={evidence['coverage']['paths_explored']} obligations={n_oblig} discharged={n_disch} "
        f"canaries={n_canary_ok}/{n_canary} covers={n_cover_ok}/{n_cover} known={n_known} violations={len(violations)} undecided={len(undecided)} "
        f"symex={sym_s:.1f}s smt={smt_s:.1f}s wall={wall:.1f}s"
    )
    if write_baseline and not violations and not undecided and not only:
        os.makedirs(os.path.join(VERIF, "baseline"), exist_ok=True)
        with open(os.path.join(VERIF, "baseline", f"{pid}.json"), "w") as fh:
            json.dump({"property": pid, "discharged": sorted({v.ob.name for v in verdicts if v.ob.kind not in ("canary", "cover") and v.result == "unsat"})}, fh, indent=1)
    if violations:
        return 1
    if undecided:
        return 2
    return 0


def do_replay(pid: str, units: list[api.Unit], path: str) -> int:
    with open(path if os.path.isabs(path) else os.path.join(VERIF, path)) as fh:
        data = json.load(fh)
    u = next((x for x in units if x.name == data.get("unit")), None)
    if u is None or u.replay is None:
        print(f"no replay harness for unit {data.get('unit')!r}; obligation {data.get('obligation')} — solver output: {data.get('solver_output')}")
        return 2
    rr = u.replay(unjson(data["inputs"]), None)
    print(f"replay of {data['obligation']}: confirmed={rr.confirmed} {rr.detail}")
    if rr.confirmed:
        print(f"VIOLATION property={pid} replay={path}")
        return 1
    return 0


if __name__ == "__main__":
    sys.exit(main())
