"""Contract-file API.  A contract file ``/verif/contracts/Cxx.py`` registers *units*:

    @unit("C28.O1 allocate", targets=["vgi_rpc/shm.py::ShmAllocator.allocate"], replay=replay_allocate)
    def allocate(S): ...          # driver: builds symbolic inputs, installs handlers /
                                  # invariants, calls the real code via S.call / S.outcome,
                                  # and states obligations with S.oblige / S.canary.

and module-level ``TRUSTED`` (trusted base), ``ASSUMPTIONS``, ``BOUNDED`` (labelled
bounded stand-ins, never counted as discharged).
"""

from __future__ import annotations

from dataclasses import dataclass, field
from typing import Any, Callable

from .core import Exec, Outcome, PathEnd, PyRaise  # noqa: F401
from .values import *  # noqa: F401,F403
from .values import SExc


@dataclass
class Unit:
    name: str
    run: Callable[[Exec], None]
    targets: list[str] = field(default_factory=list)
    replay: Callable[[dict[str, Any], Any], "ReplayResult"] | None = None
    classify: Callable[[dict[str, Any], Any], str] | None = None
    search: Callable[[Any, int], Any] | None = None  # (obligation, seed) -> (inputs, ReplayResult) | None: native hunt for a failing input
    min_obligations: int = 1
    max_paths: int = 4000
    by_contract: list[str] = field(default_factory=list)  # callees used via their contract (must be verified by another unit)
    assumed: list[str] = field(default_factory=list)


@dataclass
class ReplayResult:
    confirmed: bool
    detail: str


@dataclass
class Bounded:
    name: str
    run: Callable[[str, int], "BoundedResult"]  # (tier, seed)
    bound: str
    tiers: tuple[str, ...] = ("thorough",)


@dataclass
class BoundedResult:
    evaluations: int
    failures: list[str]
    detail: str = ""


_CURRENT: list[list[Any]] = []


def begin_registry() -> list[Any]:
    reg: list[Any] = []
    _CURRENT.append(reg)
    return reg


def end_registry() -> None:
    _CURRENT.pop()


def unit(name: str, **kw: Any) -> Callable[[Callable[[Exec], None]], Callable[[Exec], None]]:
    def deco(fn: Callable[[Exec], None]) -> Callable[[Exec], None]:
        if _CURRENT:
            _CURRENT[-1].append(Unit(name=name, run=fn, **kw))
        return fn

    return deco


def bounded(name: str, bound: str, tiers: tuple[str, ...] = ("thorough",)) -> Callable[[Any], Any]:
    def deco(fn: Any) -> Any:
        if _CURRENT:
            _CURRENT[-1].append(Bounded(name=name, run=fn, bound=bound, tiers=tiers))
        return fn

    return deco


def exc_class(e: Any) -> type:
    return e.cls if isinstance(e, SExc) else type(e)


def exc_is(e: Any, *classes: type) -> bool:
    return issubclass(exc_class(e), classes)
