"""Linear-arithmetic view of a path condition for feasibility pruning (opt-in: ``S.prune_lia = True``).

z3's sequence solver routinely runs into its timeout on path conditions mixing slices, lengths and
uninterpreted functions over strings, which makes every fork cost the full pruning timeout.  The
*shape* of byte-parsing code (which branch is reachable) is almost always decided by lengths alone.
This view keeps the boolean structure and the integer arithmetic of a condition, pushes ``Length``
through concatenation / slicing / if-then-else exactly, and replaces every other atom or integer
term (string equalities, regex memberships, uninterpreted functions) by an opaque variable, the same
variable for the same term.  Every model of the original condition yields a model of the view, so the
view is weaker: pruning with it can only keep extra paths, never drop a feasible one.  Obligations are
generated from the real path condition, not from the view.
"""

from __future__ import annotations

from typing import Any

import z3

_BOOL_OPS = {z3.Z3_OP_AND: z3.And, z3.Z3_OP_OR: z3.Or}
_CMP = {z3.Z3_OP_LE: lambda a, b: a <= b, z3.Z3_OP_GE: lambda a, b: a >= b, z3.Z3_OP_LT: lambda a, b: a < b, z3.Z3_OP_GT: lambda a, b: a > b}


def lia_view(S: Any, t: Any) -> Any:
    st = S.__dict__.setdefault("_lia", {"b": {}, "i": {}, "keep": [], "memo": {}})
    return _b(S, st, t)


def _opaque_bool(S: Any, st: dict[str, Any], x: Any) -> Any:
    k = x.get_id()
    if k not in st["b"]:
        st["keep"].append(x)
        st["b"][k] = z3.Bool(f"lia_atom!{len(st['b'])}")
    return st["b"][k]


def _opaque_int(S: Any, st: dict[str, Any], x: Any, nonneg: bool = False) -> Any:
    k = x.get_id()
    if k not in st["i"]:
        st["keep"].append(x)
        v = z3.Int(f"lia_int!{len(st['i'])}")
        st["i"][k] = v
        if nonneg:
            S.solver.add(v >= 0)
    return st["i"][k]


def _memo(kind: str, fn: Any) -> Any:
    def wrapped(S: Any, st: dict[str, Any], x: Any) -> Any:
        key = (kind, x.get_id())
        hit = st["memo"].get(key)
        if hit is None:
            st["keep"].append(x)  # the id stays valid while the term is referenced
            hit = st["memo"][key] = fn(S, st, x)
        return hit

    return wrapped


def _b(S: Any, st: dict[str, Any], x: Any) -> Any:
    if not z3.is_app(x) or z3.is_true(x) or z3.is_false(x):
        return x if (z3.is_true(x) or z3.is_false(x)) else _opaque_bool(S, st, x)
    k = x.decl().kind()
    ch = x.children()
    if k in _BOOL_OPS:
        return _BOOL_OPS[k](*[_b(S, st, c) for c in ch])
    if k == z3.Z3_OP_NOT:
        return z3.Not(_b(S, st, ch[0]))
    if k == z3.Z3_OP_IMPLIES:
        return z3.Implies(_b(S, st, ch[0]), _b(S, st, ch[1]))
    if k == z3.Z3_OP_ITE:
        return z3.If(_b(S, st, ch[0]), _b(S, st, ch[1]), _b(S, st, ch[2]))
    if k in (z3.Z3_OP_EQ, z3.Z3_OP_IFF):
        if z3.is_bool(ch[0]):
            return _b(S, st, ch[0]) == _b(S, st, ch[1])
        if z3.is_int(ch[0]):
            return _i(S, st, ch[0]) == _i(S, st, ch[1])
        return _opaque_bool(S, st, x)
    if k == z3.Z3_OP_DISTINCT and len(ch) == 2 and z3.is_int(ch[0]):
        return _i(S, st, ch[0]) != _i(S, st, ch[1])
    if k in _CMP and z3.is_int(ch[0]):
        return _CMP[k](_i(S, st, ch[0]), _i(S, st, ch[1]))
    if k == z3.Z3_OP_UNINTERPRETED and not ch:
        return x  # a plain boolean variable
    return _opaque_bool(S, st, x)


def _i(S: Any, st: dict[str, Any], x: Any) -> Any:
    if z3.is_int_value(x):
        return x
    if not z3.is_app(x):
        return _opaque_int(S, st, x)
    k = x.decl().kind()
    ch = x.children()
    if k == z3.Z3_OP_ADD:
        return z3.Sum([_i(S, st, c) for c in ch])
    if k == z3.Z3_OP_SUB:
        r = _i(S, st, ch[0])
        for c in ch[1:]:
            r = r - _i(S, st, c)
        return r
    if k == z3.Z3_OP_UMINUS:
        return -_i(S, st, ch[0])
    if k == z3.Z3_OP_MUL and sum(0 if z3.is_int_value(c) else 1 for c in ch) <= 1:
        r = _i(S, st, ch[0])
        for c in ch[1:]:
            r = r * _i(S, st, c)
        return r
    if k == z3.Z3_OP_ITE:
        return z3.If(_b(S, st, ch[0]), _i(S, st, ch[1]), _i(S, st, ch[2]))
    if k == z3.Z3_OP_SEQ_LENGTH:
        return _len(S, st, ch[0])
    if k == z3.Z3_OP_UNINTERPRETED and not ch:
        return x  # a plain integer variable
    return _opaque_int(S, st, x)


def _len(S: Any, st: dict[str, Any], s: Any) -> Any:
    if z3.is_string_value(s):
        return z3.simplify(z3.Length(s))
    if z3.is_app(s):
        k = s.decl().kind()
        ch = s.children()
        if k == z3.Z3_OP_SEQ_CONCAT:
            return z3.Sum([_len(S, st, c) for c in ch])
        if k == z3.Z3_OP_ITE:
            return z3.If(_b(S, st, ch[0]), _len(S, st, ch[1]), _len(S, st, ch[2]))
        if k == z3.Z3_OP_SEQ_EXTRACT:  # str.substr(x, o, n): "" unless 0 <= o < |x| and n > 0, else min(n, |x| - o) characters
            lx, o, n = _len(S, st, ch[0]), _i(S, st, ch[1]), _i(S, st, ch[2])
            return z3.If(z3.And(o >= 0, o < lx, n > 0), z3.If(n < lx - o, n, lx - o), z3.IntVal(0))
        if k == z3.Z3_OP_SEQ_UNIT:
            return z3.IntVal(1)
        if k == z3.Z3_OP_SEQ_EMPTY:
            return z3.IntVal(0)
    return _opaque_int(S, st, s, nonneg=True)


# shared sub-terms (nested slices / if-then-else) are translated once per execution
_b = _memo("b", _b)
_i = _memo("i", _i)
_len = _memo("len", _len)
