"""Discharging obligations (DESIGN §2.1 steps 4–6).

Every obligation is an independent query ``pc ∧ ¬goal`` (expect ``unsat``), serialised
to SMT-LIB and decided in a pool of worker processes: z3 (Python API, hard-killed at the
deadline) first, then ``/usr/bin/cvc5 --strings-exp`` on z3's ``unknown``.  Verdicts:
``unsat`` = discharged, ``sat`` = refuted (model re-derived in-process for replay),
``unknown`` = undecided (exit 2, never a violation).
"""

from __future__ import annotations

import multiprocessing as mp
import os
import sys
import re
import struct
import subprocess
import tempfile
import time
from dataclasses import dataclass, field
from typing import Any

import z3

from . import values as V
from .core import Obligation

Z3_BUDGET = {"quick": 10, "thorough": 60}
CVC5_BUDGET = {"quick": 20, "thorough": 120}
CVC5_BIN = "/usr/bin/cvc5"


@dataclass
class Verdict:
    ob: Obligation
    result: str  # unsat | sat | unknown
    solver: str
    seconds: float
    detail: str = ""
    tried: list[tuple[str, str, float]] = field(default_factory=list)
    consts: dict[str, str] | None = None

    @property
    def ok(self) -> bool:
        return self.result == self.ob.expect


def to_smt2(ob: Obligation) -> str:
    s = z3.Solver()
    for c in ob.pc:
        s.add(c)
    s.add(z3.Not(ob.goal))
    return s.to_smt2()


def _fp_slice(zz: Any, asserts: list[Any]) -> tuple[list[Any], list[Any]] | None:
    """FloatingPoint queries only: split the assertions into the part that shares uninterpreted symbols
    (transitively) with the last one (the negated goal) and the rest.  The two parts have disjoint
    symbols, so the query is sat iff both are; z3 bit-blasts a pure QF_FP part, while any unrelated Int
    atom in the same query sends it to the (much slower) lazy theory combination."""
    info = []
    any_fp = False
    for a in asserts:
        names: set[str] = set()
        seen: set[int] = set()
        stack = [a]
        while stack:
            x = stack.pop()
            if x.get_id() in seen:
                continue
            seen.add(x.get_id())
            if zz.is_quantifier(x):
                stack.append(x.body())
                continue
            if zz.is_app(x):
                if x.decl().kind() == zz.Z3_OP_UNINTERPRETED:
                    names.add(x.decl().name())
                if x.sort().kind() == zz.Z3_FLOATING_POINT_SORT:
                    any_fp = True
                stack.extend(x.children())
        info.append(names)
    if not any_fp:
        return None
    reach = set(info[-1])
    inside = {len(asserts) - 1}
    changed = True
    while changed:
        changed = False
        for i, names in enumerate(info):
            if i not in inside and names & reach:
                inside.add(i)
                reach |= names
                changed = True
    if len(inside) == len(asserts):
        return None
    return [asserts[i] for i in sorted(inside)], [a for i, a in enumerate(asserts) if i not in inside]


def _z3_worker(conn: Any) -> None:
    import z3 as zz

    conn.send("ready")  # start-up (interpreter + z3 import) must not eat the first query's budget on a loaded box
    while True:
        try:
            msg = conn.recv()
        except EOFError:
            return
        if msg is None:
            return
        smt2, timeout_s = msg
        t0 = time.time()
        try:
            s = zz.Solver()
            s.set("timeout", int(timeout_s * 1000))
            s.from_string(smt2)
            models = []
            parts = _fp_slice(zz, list(s.assertions()))
            if parts is None:
                r = s.check()
                res = str(r)
                detail = s.reason_unknown() if res == "unknown" else ""
                if res == "sat":
                    models.append(s.model())
            else:
                # disjoint-symbol parts: unsat if the goal's part is; sat iff both parts are
                res, detail = "sat", ""
                for part in parts:
                    sp = zz.Solver()
                    sp.set("timeout", max(1, int((timeout_s - (time.time() - t0)) * 1000)))
                    sp.add(*part)
                    rp = str(sp.check())
                    if rp == "sat":
                        models.append(sp.model())
                        continue
                    res, detail = rp, (sp.reason_unknown() if rp == "unknown" else "")
                    break
            if res == "sat" and parts is None:
                # z3's sequence solver occasionally answers `sat` with a model that falsifies an assertion (seen with
                # str.substr + uninterpreted functions; the answer flips with the random seed): such an answer is discarded
                try:
                    if any(zz.is_false(models[0].eval(a, model_completion=True)) for a in s.assertions()):
                        res, detail, models = "unknown", "sat answer discarded: its model falsifies an assertion", []
                except Exception:
                    pass
            if res == "sat":
                # ship the values of all constants so the parent need not re-solve
                consts = {}
                for m in models:
                    for d in m.decls():
                        if d.arity() == 0:
                            try:
                                consts[d.name()] = m[d].sexpr()
                            except Exception:
                                pass
                detail = consts
        except Exception as e:  # parse errors etc.
            res, detail = "error", repr(e)
        conn.send((res, detail, time.time() - t0))


class _Worker:
    def __init__(self, ctx: Any) -> None:
        self.ctx = ctx
        self.spawn()

    def spawn(self) -> None:
        self.parent, child = self.ctx.Pipe()
        self.proc = self.ctx.Process(target=_z3_worker, args=(child,), daemon=True)
        self.proc.start()
        child.close()
        self.task: Any = None
        self.deadline = 0.0
        self.ready = False
        self.born = time.time()

    def kill(self) -> None:
        try:
            self.proc.kill()
            self.proc.join(1)
        except Exception:
            pass
        try:
            self.parent.close()
        except Exception:
            pass


def _cvc5_model_consts(text: str) -> dict[str, str]:
    """Constant values from cvc5's ``(get-model)`` answer: ``(define-fun name () Sort value)`` entries,
    name -> value s-expression (same shape as the values shipped by the z3 workers)."""
    consts: dict[str, str] = {}
    i, n = 0, len(text)

    def skip_atom(j: int) -> int:
        if text[j] == '"':
            j += 1
            while j < n:
                if text[j] == '"':
                    if j + 1 < n and text[j + 1] == '"':
                        j += 2
                        continue
                    return j + 1
                j += 1
            return n
        if text[j] == "|":
            return text.index("|", j + 1) + 1 if "|" in text[j + 1 :] else n
        while j < n and not text[j].isspace() and text[j] not in "()":
            j += 1
        return j

    def skip_sexpr(j: int) -> int:
        while j < n and text[j].isspace():
            j += 1
        if j >= n or text[j] != "(":
            return skip_atom(j) if j < n else n
        depth = 0
        while j < n:
            c = text[j]
            if c == "(":
                depth += 1
                j += 1
            elif c == ")":
                depth -= 1
                j += 1
                if depth == 0:
                    return j
            elif c in '"|':
                j = skip_atom(j)
            else:
                j += 1
        return n

    key = "(define-fun "
    while True:
        i = text.find(key, i)
        if i < 0:
            break
        j = i + len(key)
        e = skip_atom(j)
        name = text[j:e]
        if name.startswith("|") and name.endswith("|"):
            name = name[1:-1]
        a0 = e
        a1 = skip_sexpr(a0)  # argument list
        s1 = skip_sexpr(a1)  # sort
        v1 = skip_sexpr(s1)  # value
        if text[a0:a1].strip() == "()":
            consts[name] = text[s1:v1].strip()
        i = v1
    return consts


def run_cvc5(smt2: str, timeout_s: float) -> tuple[str, str, float]:
    text = smt2
    if "(set-logic" not in text:
        text = "(set-logic ALL)\n" + text
    text = re.sub(r"\(set-info :status [a-z]+\)\n?", "", text)
    t0 = time.time()
    with tempfile.NamedTemporaryFile("w", suffix=".smt2", delete=False, dir=os.environ.get("VERIF_TMP", None)) as fh:
        fh.write(text + "\n(get-model)\n")  # answered only after `sat` (an error line otherwise, ignored)
        path = fh.name
    try:
        p = subprocess.run(
            [sys.executable, "-m", "pyvc.cvc5_runner", path, str(int(timeout_s * 1000))],
            capture_output=True,
            text=True,
            timeout=timeout_s + 8,
            cwd=os.path.dirname(os.path.dirname(os.path.abspath(__file__))),
        )
        out = (p.stdout or "").strip().splitlines()
        res = out[0].strip() if out else "unknown"
        if res not in ("sat", "unsat", "unknown"):
            return "unknown", ((p.stdout or "") + (p.stderr or ""))[:300], time.time() - t0
        if res == "sat":
            consts = _cvc5_model_consts("\n".join(out[1:]))
            if consts:
                return res, consts, time.time() - t0  # type: ignore[return-value]
        return res, "", time.time() - t0
    except subprocess.TimeoutExpired:
        return "unknown", "timeout", time.time() - t0
    finally:
        os.unlink(path)


def _z3_pool(texts: dict[int, str], budgets: dict[int, float], jobs: int) -> dict[int, tuple[str, Any, float]]:
    """Run z3 on the given queries in a pool of hard-killable worker processes."""
    out: dict[int, tuple[str, Any, float]] = {}
    if not budgets:
        return out
    ctx = mp.get_context("spawn")
    workers = [_Worker(ctx) for _ in range(min(jobs, len(budgets)))]
    queue = list(reversed(sorted(budgets)))
    active = 0
    try:
        while queue or active:
            for w in workers:
                if not w.ready:
                    if w.parent.poll():
                        try:
                            w.ready = w.parent.recv() == "ready"
                        except EOFError:
                            w.kill()
                            w.spawn()
                    elif time.time() - w.born > 60 or not w.proc.is_alive():
                        w.kill()
                        w.spawn()
                    continue
                if w.task is None and queue:
                    i = queue.pop()
                    w.task = i
                    w.deadline = time.time() + budgets[i] + 3
                    w.t0 = time.time()
                    w.parent.send((texts[i], budgets[i]))
                    active += 1
            time.sleep(0.005)
            for w in workers:
                if w.task is None:
                    continue
                i = w.task
                if w.parent.poll():
                    try:
                        res, detail, secs = w.parent.recv()
                    except EOFError:
                        res, detail, secs = "unknown", "worker died", time.time() - w.t0
                        w.kill()
                        w.spawn()
                    w.task = None
                    active -= 1
                elif time.time() > w.deadline or not w.proc.is_alive():
                    res, detail, secs = "unknown", "hard timeout", time.time() - w.t0
                    w.kill()
                    w.spawn()
                    active -= 1
                else:
                    continue
                out[i] = (res, detail, secs)
    finally:
        for w in workers:
            try:
                w.parent.send(None)
            except Exception:
                pass
            w.kill()
    return out


def _goal_under_pc_literals(ob: Obligation) -> Any:
    """The goal with every quantifier-free conjunct of the path condition replaced by its truth value
    (``c`` -> true, ``Not(a)`` -> ``a`` false) and simplified: equivalent to the goal under the path
    condition, so `true` here is a proof (propositional consequences need no theory reasoning)."""
    pairs: list[tuple[Any, Any]] = []
    stack = list(ob.pc)
    while stack:
        c = stack.pop()
        if z3.is_and(c):
            stack.extend(c.children())
        elif z3.is_not(c):
            pairs.append((c.arg(0), z3.BoolVal(False)))
        elif z3.is_bool(c) and not z3.is_quantifier(c) and not z3.is_true(c):
            pairs.append((c, z3.BoolVal(True)))
    if not pairs:
        return ob.goal
    try:
        return z3.simplify(z3.substitute(ob.goal, *pairs))
    except z3.Z3Exception:
        return ob.goal


def syntactically_entailed(pc: list[Any], g: Any) -> bool:
    """Sound shortcut: the (simplified) goal is a conjunct of the (simplified) path condition, or an
    and/or combination of such conjuncts.  Saves a solver run on a string-heavy path condition for
    goals the path condition states literally."""
    lits: set[int] = set()
    keep = []
    for c in pc:
        sc = z3.simplify(c)
        for x in sc.children() if z3.is_and(sc) else [sc]:
            lits.add(x.get_id())
            keep.append(x)

    def holds(x: Any, depth: int = 0) -> bool:
        if x.get_id() in lits:
            return True
        if depth > 3:
            return False
        if z3.is_and(x):
            return all(holds(c, depth + 1) for c in x.children())
        if z3.is_or(x):
            return any(holds(c, depth + 1) for c in x.children())
        return False

    return holds(g)


LAST_STATS: dict[str, int] = {}


def default_jobs() -> int:
    """Worker count: all cores (16) unless VERIF_JOBS or the untracked file /verif/.jobs_dev says otherwise
    (development aid: many checks running side by side on one box)."""
    v = os.environ.get("VERIF_JOBS")
    if not v:
        try:
            with open(os.path.join(os.path.dirname(os.path.dirname(os.path.abspath(__file__))), ".jobs_dev")) as fh:
                v = fh.read().strip()
        except OSError:
            v = ""
    try:
        return max(1, int(v)) if v else min(16, os.cpu_count() or 4)
    except ValueError:
        return min(16, os.cpu_count() or 4)


def discharge(obs: list[Obligation], tier: str = "quick", jobs: int | None = None, both: bool = False) -> list[Verdict]:
    """Decide every obligation.  Phase 1: z3 with a short budget on everything.  Phase 2 (what is
    left): z3 with the full budget and cvc5 --strings-exp side by side; the first definitive answer
    wins (the two solvers are complementary on strings: each decides queries the other times out on)."""
    jobs = jobs or default_jobs()
    zb, cb = Z3_BUDGET[tier], CVC5_BUDGET[tier]
    verdicts: dict[int, Verdict] = {}
    texts: dict[int, str] = {}
    pending: list[int] = []
    _first_of: dict[Any, int] = {}
    _dups: dict[int, int] = {}
    for i, ob in enumerate(obs):
        # trivial goals are decided without a solver call (still counted, solver="simplify")
        g = z3.simplify(ob.goal)
        if z3.is_true(g) and ob.expect == "unsat":
            verdicts[i] = Verdict(ob, "unsat", "simplify", 0.0)
            continue
        if ob.expect == "unsat" and syntactically_entailed(ob.pc, g):
            verdicts[i] = Verdict(ob, "unsat", "syntactic", 0.0)
            continue
        if ob.expect == "unsat" and z3.is_true(_goal_under_pc_literals(ob)):
            verdicts[i] = Verdict(ob, "unsat", "simplify-pc", 0.0)
            continue
        texts[i] = to_smt2(ob)
        # identical queries (same path-condition prefix and goal reached by several paths) are solved once
        first = _first_of.setdefault((texts[i], ob.expect, ob.kind == "canary"), i)
        if first != i:
            _dups[i] = first
            continue
        pending.append(i)
    if not pending:
        return [verdicts[i] for i in range(len(obs))]

    def record(i: int, res: str, detail: Any, secs: float, solver: str) -> None:
        v = verdicts.get(i)
        tried = (solver.split("-")[0], res if res in ("sat", "unsat") else f"{res}:{detail if isinstance(detail, str) else ''}", round(secs, 3))
        if v is None:
            v = verdicts[i] = Verdict(obs[i], "unknown", solver.split("-")[0], 0.0, "", [])
        v.tried.append(tried)
        v.seconds += secs
        if res in ("sat", "unsat") and v.result == "unknown":
            v.result, v.solver = res, solver
            v.consts = detail if isinstance(detail, dict) else None

    zver = "z3-" + z3.get_version_string()
    short = 2.0
    r1 = _z3_pool(texts, {i: min(short, zb) for i in pending}, jobs)
    for i, (res, detail, secs) in r1.items():
        record(i, res, detail, secs, zver)
    left = [i for i in pending if verdicts[i].result == "unknown"]
    # canaries are expected to be `sat`; an undecided one goes to bounded mode rather than to long solver runs
    left = [i for i in left if obs[i].kind != "canary"]
    if left:
        from concurrent.futures import ThreadPoolExecutor

        with ThreadPoolExecutor(max_workers=jobs) as ex:
            for i, f in {i: ex.submit(run_cvc5, texts[i], 3.0) for i in left}.items():
                res, detail, secs = f.result()
                record(i, res, detail, secs, "cvc5-1.4.0")
        left = [i for i in left if verdicts[i].result == "unknown"]
    if left:
        with ThreadPoolExecutor(max_workers=max(2, jobs // 2)) as ex:
            futs = {i: ex.submit(run_cvc5, texts[i], cb) for i in left}
            r2 = _z3_pool(texts, {i: zb for i in left}, max(2, jobs // 2))
            for i, (res, detail, secs) in r2.items():
                record(i, res, detail, secs, zver)
            for i, f in futs.items():
                res, detail, secs = f.result()
                record(i, res, detail, secs, "cvc5-1.4.0")
    if tier == "thorough":
        # cross-solver check: every solver-discharged obligation is also given to the *other* solver; a
        # definite disagreement (unsat vs sat) withdraws the verdict (reported undecided, never a pass)
        from concurrent.futures import ThreadPoolExecutor

        LAST_STATS.update({"cross_checked": 0, "cross_agreed": 0, "cross_other_unknown": 0, "cross_disagreed": 0})
        by_z3 = [i for i in pending if verdicts[i].result == "unsat" and verdicts[i].solver.startswith("z3")]
        by_cvc5 = [i for i in pending if verdicts[i].result == "unsat" and verdicts[i].solver.startswith("cvc5")]
        others: dict[int, str] = {}
        with ThreadPoolExecutor(max_workers=jobs) as ex:
            for i, f in {i: ex.submit(run_cvc5, texts[i], 10.0) for i in by_z3}.items():
                res, detail, secs = f.result()
                others[i] = res
                verdicts[i].tried.append(("cvc5-cross", res, round(secs, 3)))
        for i, (res, detail, secs) in _z3_pool(texts, {i: 10.0 for i in by_cvc5}, jobs).items():
            others[i] = res
            verdicts[i].tried.append(("z3-cross", res, round(secs, 3)))
        for i, res in others.items():
            LAST_STATS["cross_checked"] += 1
            if res == "unsat":
                LAST_STATS["cross_agreed"] += 1
            elif res == "sat":
                LAST_STATS["cross_disagreed"] += 1
                verdicts[i].result = "unknown"
                verdicts[i].detail = "solver disagreement: " + str(verdicts[i].tried)
            else:
                LAST_STATS["cross_other_unknown"] += 1
    for i, j in _dups.items():
        v = verdicts[j]
        verdicts[i] = Verdict(obs[i], v.result, v.solver, 0.0, v.detail, list(v.tried), v.consts)
    return [verdicts[i] for i in range(len(obs))]


# --------------------------------------------------------------------------------------
# models (re-derived in-process for the few refuted obligations)
# --------------------------------------------------------------------------------------


def unescape_z3_string(s: str) -> str:
    def rep(m: re.Match[str]) -> str:
        return chr(int(m.group(1) or m.group(2), 16))

    return re.sub(r"\\u\{([0-9a-fA-F]+)\}|\\u([0-9a-fA-F]{4})", rep, s)


def _consts_of(t: Any) -> dict[str, Any]:
    out: dict[str, Any] = {}
    seen: set[int] = set()
    stack = [t]
    while stack:
        x = stack.pop()
        if x.get_id() in seen:
            continue
        seen.add(x.get_id())
        if z3.is_const(x) and x.decl().kind() == z3.Z3_OP_UNINTERPRETED:
            out[x.decl().name()] = x
        stack.extend(x.children())
    return out


class Model:
    """Model view: from the constant values shipped by the worker when possible, otherwise
    (uninterpreted functions involved) from a z3 model re-derived in-process."""

    def __init__(self, m: Any = None, consts: dict[str, str] | None = None, ob: Obligation | None = None) -> None:
        self.m = m
        self.consts = consts
        self.ob = ob

    def _full(self) -> Any:
        if self.m is None and self.ob is not None:
            s = z3.Solver()
            s.set("timeout", 30000)
            for c in self.ob.pc:
                s.add(c)
            s.add(z3.Not(self.ob.goal))
            if s.check() == z3.sat:
                self.m = s.model()
            self.ob = None
        return self.m

    def term(self, t: Any) -> Any:
        if self.consts is not None:
            subs = []
            ok = True
            for name, c in _consts_of(t).items():
                if name not in self.consts:
                    # absent from the solver's model = not constrained by the query: any value will do
                    dflt = {z3.Z3_SEQ_SORT: z3.StringVal(""), z3.Z3_INT_SORT: z3.IntVal(0), z3.Z3_BOOL_SORT: z3.BoolVal(False)}.get(c.sort().kind())
                    if dflt is None or (c.sort().kind() == z3.Z3_SEQ_SORT and c.sort() != z3.StringSort()):
                        ok = False
                        break
                    subs.append((c, dflt))
                    continue
                try:
                    val = z3.parse_smt2_string(f"(declare-const v {c.sort().sexpr()})(assert (= v {self.consts[name]}))")[0].arg(1)
                except Exception:
                    ok = False
                    break
                subs.append((c, val))
            if ok:
                r = z3.simplify(z3.substitute(t, *subs) if subs else t)
                if z3.is_int_value(r) or z3.is_string_value(r) or z3.is_true(r) or z3.is_false(r) or z3.is_fp_value(r) or z3.is_bv_value(r):
                    return r
        m = self._full()
        if m is None:
            raise ValueError("no model available")
        return m.eval(t, model_completion=True)

    def value(self, v: Any, max_len: int = 64) -> Any:
        """Concretise a symbolic value under the model."""
        if isinstance(v, V.SBool):
            return z3.is_true(self.term(v.t))
        if isinstance(v, V.SInt):
            return self.term(v.t).as_long()
        if isinstance(v, V.SStr):
            return unescape_z3_string(self.term(v.t).as_string())
        if isinstance(v, V.SBytes):
            s = unescape_z3_string(self.term(v.t).as_string())
            return bytes(ord(c) & 0xFF for c in s)
        if isinstance(v, V.SFloat):
            t = self.term(v.t)
            if z3.is_fp_value(t):
                if t.isNaN():
                    return float("nan")  # fp.to_ieee_bv(NaN) is unspecified: z3 leaves it unevaluated (model completion gives 0)
                bv = z3.simplify(z3.fpToIEEEBV(t))
            else:
                bv = self.term(z3.fpToIEEEBV(v.t))
            return struct.unpack("<d", struct.pack("<Q", bv.as_long()))[0]
        if isinstance(v, V.SOpaque):
            return f"<{v.kind}:{self.term(v.t)}>"
        if isinstance(v, tuple):
            return tuple(self.value(x, max_len) for x in v)
        if isinstance(v, list):
            return [self.value(x, max_len) for x in v]
        if isinstance(v, dict):
            return {k: self.value(x, max_len) for k, x in v.items()}
        if isinstance(v, V.SList):
            n = self.term(v.length).as_long()
            return [self.value(v.getf(z3.IntVal(i)), max_len) for i in range(min(max(n, 0), max_len))]
        if isinstance(v, V.SObj):
            return {"__obj__": v.kind, **{k: self.value(x, max_len) for k, x in v.fields.items()}}
        if isinstance(v, V.SMap):
            return "<symbolic map>"
        return v


def model_for(v: Verdict) -> Model | None:
    if v.result != "sat":
        return None
    if v.consts is not None:
        return Model(None, v.consts, v.ob)
    return get_model(v.ob)


def get_model(ob: Obligation, timeout_s: float = 30.0) -> Model | None:
    s = z3.Solver()
    s.set("timeout", int(timeout_s * 1000))
    for c in ob.pc:
        s.add(c)
    s.add(z3.Not(ob.goal))
    if s.check() == z3.sat:
        return Model(s.model())
    return None
