"""Discharging obligations (DESIGN §2.1 steps 4–6).

Every obligation is an independent query ``pc ∧ ¬goal`` (expect ``unsat``), serialised
to SMT-LIB and decided in a pool of worker processes: z3 (Python API, hard-killed at the
deadline) first, then ``/usr/bin/cvc5 --strings-exp`` on z3's ``unknown``.  Verdicts:
``unsat`` = discharged, ``sat`` = refuted (model re-derived in-process for replay),
``unknown`` = undecided (exit 2, never a violation).
"""

from __future__ import annotations

import multiprocessing as mp
import os
import re
import struct
import subprocess
import tempfile
import time
from dataclasses import dataclass, field
from typing import Any

import z3

from . import values as V
from .core import Obligation

Z3_BUDGET = {"quick": 10, "thorough": 60}
CVC5_BUDGET = {"quick": 20, "thorough": 120}
CVC5_BIN = "/usr/bin/cvc5"


@dataclass
class Verdict:
    ob: Obligation
    result: str  # unsat | sat | unknown
    solver: str
    seconds: float
    detail: str = ""
    tried: list[tuple[str, str, float]] = field(default_factory=list)

    @property
    def ok(self) -> bool:
        return self.result == self.ob.expect


def to_smt2(ob: Obligation) -> str:
    s = z3.Solver()
    for c in ob.pc:
        s.add(c)
    s.add(z3.Not(ob.goal))
    return s.to_smt2()


def _z3_worker(conn: Any) -> None:
    import z3 as zz

    while True:
        try:
            msg = conn.recv()
        except EOFError:
            return
        if msg is None:
            return
        smt2, timeout_s = msg
        t0 = time.time()
        try:
            s = zz.Solver()
            s.set("timeout", int(timeout_s * 1000))
            s.from_string(smt2)
            r = s.check()
            res = str(r)
            detail = s.reason_unknown() if res == "unknown" else ""
        except Exception as e:  # parse errors etc.
            res, detail = "error", repr(e)
        conn.send((res, detail, time.time() - t0))


class _Worker:
    def __init__(self, ctx: Any) -> None:
        self.ctx = ctx
        self.spawn()

    def spawn(self) -> None:
        self.parent, child = self.ctx.Pipe()
        self.proc = self.ctx.Process(target=_z3_worker, args=(child,), daemon=True)
        self.proc.start()
        child.close()
        self.task: Any = None
        self.deadline = 0.0

    def kill(self) -> None:
        try:
            self.proc.kill()
            self.proc.join(1)
        except Exception:
            pass
        try:
            self.parent.close()
        except Exception:
            pass


def run_cvc5(smt2: str, timeout_s: float) -> tuple[str, str, float]:
    text = smt2
    if "(set-logic" not in text:
        text = "(set-logic ALL)\n" + text
    text = re.sub(r"\(set-info :status [a-z]+\)\n?", "", text)
    t0 = time.time()
    with tempfile.NamedTemporaryFile("w", suffix=".smt2", delete=False, dir=os.environ.get("VERIF_TMP", None)) as fh:
        fh.write(text)
        path = fh.name
    try:
        p = subprocess.run(
            [CVC5_BIN, "--strings-exp", f"--tlimit={int(timeout_s * 1000)}", path],
            capture_output=True,
            text=True,
            timeout=timeout_s + 5,
        )
        out = (p.stdout or "").strip().splitlines()
        res = out[0].strip() if out else "unknown"
        if res not in ("sat", "unsat", "unknown"):
            return "unknown", ((p.stdout or "") + (p.stderr or ""))[:300], time.time() - t0
        return res, "", time.time() - t0
    except subprocess.TimeoutExpired:
        return "unknown", "timeout", time.time() - t0
    finally:
        os.unlink(path)


def discharge(obs: list[Obligation], tier: str = "quick", jobs: int | None = None, both: bool = False) -> list[Verdict]:
    """Decide every obligation.  ``both``: (thorough) also require cvc5 to agree on unsat
    for string-free small queries is *not* demanded — cvc5 is consulted on unknowns."""
    jobs = jobs or min(16, os.cpu_count() or 4)
    zb, cb = Z3_BUDGET[tier], CVC5_BUDGET[tier]
    verdicts: dict[int, Verdict] = {}
    texts: dict[int, str] = {}
    pending: list[int] = []
    for i, ob in enumerate(obs):
        # trivial goals are decided without a solver call (still counted, solver="simplify")
        g = z3.simplify(ob.goal)
        if z3.is_true(g) and ob.expect == "unsat":
            verdicts[i] = Verdict(ob, "unsat", "simplify", 0.0)
            continue
        texts[i] = to_smt2(ob)
        pending.append(i)
    if not pending:
        return [verdicts[i] for i in range(len(obs))]
    ctx = mp.get_context("spawn")
    workers = [_Worker(ctx) for _ in range(min(jobs, len(pending)))]
    queue = list(reversed(pending))
    cvc5_queue: list[int] = []
    active = 0
    try:
        while queue or active:
            for w in workers:
                if w.task is None and queue:
                    i = queue.pop()
                    w.task = i
                    zbi = min(zb, 3) if obs[i].kind == "canary" else zb  # canaries: short budget, then bounded mode
                    w.deadline = time.time() + zbi + 3
                    w.t0 = time.time()
                    w.parent.send((texts[i], zbi))
                    active += 1
            time.sleep(0.005)
            for w in workers:
                if w.task is None:
                    continue
                i = w.task
                if w.parent.poll():
                    try:
                        res, detail, secs = w.parent.recv()
                    except EOFError:
                        res, detail, secs = "unknown", "worker died", time.time() - w.t0
                        w.kill()
                        w.spawn()
                    w.task = None
                    active -= 1
                elif time.time() > w.deadline or not w.proc.is_alive():
                    res, detail, secs = "unknown", "hard timeout", time.time() - w.t0
                    w.kill()
                    w.spawn()
                    active -= 1
                else:
                    continue
                if res in ("sat", "unsat"):
                    verdicts[i] = Verdict(obs[i], res, "z3-" + z3.get_version_string(), secs, detail, [("z3", res, secs)])
                else:
                    verdicts[i] = Verdict(obs[i], "unknown", "z3", secs, detail, [("z3", res + ":" + detail, secs)])
                    if obs[i].kind != "canary":
                        cvc5_queue.append(i)
    finally:
        for w in workers:
            try:
                w.parent.send(None)
            except Exception:
                pass
            w.kill()
    if cvc5_queue:
        from concurrent.futures import ThreadPoolExecutor

        with ThreadPoolExecutor(max_workers=jobs) as ex:
            futs = {i: ex.submit(run_cvc5, texts[i], cb) for i in cvc5_queue}
            for i, f in futs.items():
                res, detail, secs = f.result()
                v = verdicts[i]
                v.tried.append(("cvc5", res + (":" + detail if detail else ""), secs))
                if res in ("sat", "unsat"):
                    v.result, v.solver, v.detail = res, "cvc5-1.0.3", detail
                v.seconds += secs
    return [verdicts[i] for i in range(len(obs))]


# --------------------------------------------------------------------------------------
# models (re-derived in-process for the few refuted obligations)
# --------------------------------------------------------------------------------------


def unescape_z3_string(s: str) -> str:
    def rep(m: re.Match[str]) -> str:
        return chr(int(m.group(1) or m.group(2), 16))

    return re.sub(r"\\u\{([0-9a-fA-F]+)\}|\\u([0-9a-fA-F]{4})", rep, s)


class Model:
    def __init__(self, m: Any) -> None:
        self.m = m

    def term(self, t: Any) -> Any:
        return self.m.eval(t, model_completion=True)

    def value(self, v: Any, max_len: int = 64) -> Any:
        """Concretise a symbolic value under the model."""
        if isinstance(v, V.SBool):
            return z3.is_true(self.term(v.t))
        if isinstance(v, V.SInt):
            return self.term(v.t).as_long()
        if isinstance(v, V.SStr):
            return unescape_z3_string(self.term(v.t).as_string())
        if isinstance(v, V.SBytes):
            s = unescape_z3_string(self.term(v.t).as_string())
            return bytes(ord(c) & 0xFF for c in s)
        if isinstance(v, V.SFloat):
            bv = self.term(z3.fpToIEEEBV(v.t))
            return struct.unpack("<d", struct.pack("<Q", bv.as_long()))[0]
        if isinstance(v, V.SOpaque):
            return f"<{v.kind}:{self.term(v.t)}>"
        if isinstance(v, tuple):
            return tuple(self.value(x, max_len) for x in v)
        if isinstance(v, list):
            return [self.value(x, max_len) for x in v]
        if isinstance(v, dict):
            return {k: self.value(x, max_len) for k, x in v.items()}
        if isinstance(v, V.SList):
            n = self.term(v.length).as_long()
            return [self.value(v.getf(z3.IntVal(i)), max_len) for i in range(min(max(n, 0), max_len))]
        if isinstance(v, V.SObj):
            return {"__obj__": v.kind, **{k: self.value(x, max_len) for k, x in v.fields.items()}}
        if isinstance(v, V.SMap):
            return "<symbolic map>"
        return v


def get_model(ob: Obligation, timeout_s: float = 30.0) -> Model | None:
    s = z3.Solver()
    s.set("timeout", int(timeout_s * 1000))
    for c in ob.pc:
        s.add(c)
    s.add(z3.Not(ob.goal))
    if s.check() == z3.sat:
        return Model(s.model())
    return None
