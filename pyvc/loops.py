"""Syntactic analysis of what a loop body can change on a path that reaches the back
edge (those are the only changes the loop head must havoc).  Statement blocks that end
in ``return`` (always), ``break`` (of this loop) or ``raise`` (outside any ``try`` in
the body) cannot reach the back edge and are skipped.
"""

from __future__ import annotations

import ast

MUTATORS = {
    "append", "insert", "pop", "extend", "remove", "clear", "update", "setdefault", "popitem",
    "move_to_end", "add", "discard", "sort", "reverse", "appendleft", "popleft", "write",
}  # fmt: skip


def _dotted(e: ast.expr) -> str | None:
    if isinstance(e, ast.Name):
        return e.id
    if isinstance(e, ast.Attribute):
        b = _dotted(e.value)
        return f"{b}.{e.attr}" if b else None
    return None


def back_edge_writes(loop: ast.AST) -> tuple[set[str], set[str]]:
    names: set[str] = set()
    mutated: set[str] = set()

    def targets(t: ast.expr) -> None:
        if isinstance(t, ast.Name):
            names.add(t.id)
        elif isinstance(t, (ast.Tuple, ast.List)):
            for e in t.elts:
                targets(e)
        elif isinstance(t, ast.Starred):
            targets(t.value)
        elif isinstance(t, ast.Attribute):
            d = _dotted(t)
            if d:
                mutated.add(d)
        elif isinstance(t, ast.Subscript):
            d = _dotted(t.value)
            if d:
                mutated.add(d)

    def exprs(e: ast.AST) -> None:
        for n in ast.walk(e):
            if isinstance(n, ast.Call) and isinstance(n.func, ast.Attribute) and n.func.attr in MUTATORS:
                d = _dotted(n.func.value)
                if d:
                    mutated.add(d)
            elif isinstance(n, ast.NamedExpr):
                targets(n.target)

    def block(body: list[ast.stmt], in_inner_loop: bool, in_try: bool) -> None:
        if body:
            last = body[-1]
            if isinstance(last, ast.Return) and not in_try:
                return
            if isinstance(last, ast.Break) and not in_inner_loop:
                return
            if isinstance(last, ast.Raise) and not in_try:
                return
        for st in body:
            stmt(st, in_inner_loop, in_try)

    def stmt(st: ast.stmt, inner: bool, in_try: bool) -> None:
        if isinstance(st, (ast.FunctionDef, ast.AsyncFunctionDef)):
            names.add(st.name)
            return
        if isinstance(st, ast.Assign):
            for t in st.targets:
                targets(t)
            exprs(st.value)
        elif isinstance(st, ast.AugAssign):
            targets(st.target)
            exprs(st.value)
        elif isinstance(st, ast.AnnAssign):
            if st.value is not None:
                targets(st.target)
                exprs(st.value)
        elif isinstance(st, (ast.For, ast.AsyncFor)):
            targets(st.target)
            exprs(st.iter)
            block(st.body, True, in_try)
            block(st.orelse, inner, in_try)
        elif isinstance(st, ast.While):
            exprs(st.test)
            block(st.body, True, in_try)
            block(st.orelse, inner, in_try)
        elif isinstance(st, ast.If):
            exprs(st.test)
            block(st.body, inner, in_try)
            block(st.orelse, inner, in_try)
        elif isinstance(st, (ast.With, ast.AsyncWith)):
            for it in st.items:
                exprs(it.context_expr)
                if it.optional_vars is not None:
                    targets(it.optional_vars)
            block(st.body, inner, in_try)
        elif isinstance(st, ast.Try):
            block(st.body, inner, True)
            for h in st.handlers:
                if h.name:
                    names.add(h.name)
                block(h.body, inner, in_try)
            block(st.orelse, inner, in_try)
            block(st.finalbody, inner, in_try)
        elif isinstance(st, ast.Delete):
            for t in st.targets:
                targets(t)
        else:
            for child in ast.iter_child_nodes(st):
                exprs(child)

    if isinstance(loop, (ast.For, ast.AsyncFor)):
        targets(loop.target)
    block(loop.body, False, False)  # type: ignore[attr-defined]
    return names, mutated
