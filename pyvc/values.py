"""Symbolic value algebra (DESIGN.md §3.1).

Values seen by the symbolic executor are either ordinary concrete Python objects
(ints, strings, enum members, classes, functions, tuples/lists/dicts *of values*), or
instances of the ``Sym`` classes below, each wrapping a z3 term.  Containers whose
*structure* is symbolic (length unknown) are ``SList`` / ``SMap``: they are represented
as Python closures from an index/key term to an element value, so ``insert`` / ``pop``
/ slicing need no quantified axioms (eager beta-reduction).

Python semantics assumed here (and cross-checked against CPython by the executor's
replay step): ints are mathematical; ``//`` and ``%`` floor; str is a sequence of
Unicode code points (z3 ``String``); bytes is modelled as a z3 ``String`` whose
characters are code points 0..255 (tagged by the distinct Python class ``SBytes`` so
``str == bytes`` is ``False`` as in CPython); floats are IEEE binary64.
"""

from __future__ import annotations

import itertools
from typing import Any, Callable

import z3


class Unsupported(Exception):
    """The code left the supported subset (DESIGN §2.2): exit 2, never a violation."""


class SymbolicCoercion(Unsupported):
    """A symbolic value was coerced to a concrete bool/int by un-modelled native code."""


# --------------------------------------------------------------------------------------
# context: fresh names / assumptions are routed to the running executor
# --------------------------------------------------------------------------------------

_CTX: list[Any] = []


def ctx() -> Any:
    if not _CTX:
        raise RuntimeError("no active symbolic execution context")
    return _CTX[-1]


def push_ctx(c: Any) -> None:
    _CTX.append(c)


def pop_ctx() -> None:
    _CTX.pop()


_plain_counter = itertools.count()


def fresh_name(base: str) -> str:
    if _CTX:
        return _CTX[-1].fresh_name(base)
    return f"{base}!{next(_plain_counter)}"


# --------------------------------------------------------------------------------------
# scalar symbolic values
# --------------------------------------------------------------------------------------


class Sym:
    __slots__ = ("t",)
    t: Any

    def __bool__(self) -> bool:
        raise SymbolicCoercion(f"symbolic value {self!r} coerced to bool by native code")

    def __hash__(self) -> int:
        return id(self)

    def __repr__(self) -> str:
        return f"{type(self).__name__}({self.t})"


def _arith(x: Any) -> Any:
    """Lift to a z3 Int (or Real/FP left as is)."""
    if isinstance(x, SInt):
        return x.t
    if isinstance(x, SBool):
        return z3.If(x.t, z3.IntVal(1), z3.IntVal(0))
    if isinstance(x, bool):
        return z3.IntVal(1 if x else 0)
    if isinstance(x, int):
        return z3.IntVal(x)
    raise Unsupported(f"not an integer value: {x!r}")


def is_intlike(x: Any) -> bool:
    return isinstance(x, (SInt, SBool, int)) and not isinstance(x, float)


class SInt(Sym):
    __slots__ = ()

    def __init__(self, t: Any) -> None:
        self.t = t

    # arithmetic (contract convenience; the executor goes through ops.binop)
    def __add__(self, o: Any) -> "SInt":
        return SInt(self.t + _arith(o))

    def __radd__(self, o: Any) -> "SInt":
        return SInt(_arith(o) + self.t)

    def __sub__(self, o: Any) -> "SInt":
        return SInt(self.t - _arith(o))

    def __rsub__(self, o: Any) -> "SInt":
        return SInt(_arith(o) - self.t)

    def __mul__(self, o: Any) -> "SInt":
        return SInt(self.t * _arith(o))

    def __rmul__(self, o: Any) -> "SInt":
        return SInt(_arith(o) * self.t)

    def __neg__(self) -> "SInt":
        return SInt(-self.t)

    def __lt__(self, o: Any) -> "SBool":
        return SBool(self.t < _arith(o))

    def __le__(self, o: Any) -> "SBool":
        return SBool(self.t <= _arith(o))

    def __gt__(self, o: Any) -> "SBool":
        return SBool(self.t > _arith(o))

    def __ge__(self, o: Any) -> "SBool":
        return SBool(self.t >= _arith(o))

    def __eq__(self, o: Any) -> "SBool":  # type: ignore[override]
        return eq(self, o)

    def __ne__(self, o: Any) -> "SBool":  # type: ignore[override]
        return Not(eq(self, o))

    __hash__ = Sym.__hash__


class SBool(Sym):
    __slots__ = ()

    def __init__(self, t: Any) -> None:
        self.t = t

    def __and__(self, o: Any) -> "SBool":
        return And(self, o)

    def __rand__(self, o: Any) -> "SBool":
        return And(o, self)

    def __or__(self, o: Any) -> "SBool":
        return Or(self, o)

    def __ror__(self, o: Any) -> "SBool":
        return Or(o, self)

    def __invert__(self) -> "SBool":
        return Not(self)

    def __eq__(self, o: Any) -> "SBool":  # type: ignore[override]
        return eq(self, o)

    def __ne__(self, o: Any) -> "SBool":  # type: ignore[override]
        return Not(eq(self, o))

    __hash__ = Sym.__hash__


class SStr(Sym):
    __slots__ = ()

    def __init__(self, t: Any) -> None:
        self.t = t

    def __eq__(self, o: Any) -> "SBool":  # type: ignore[override]
        return eq(self, o)

    def __ne__(self, o: Any) -> "SBool":  # type: ignore[override]
        return Not(eq(self, o))

    def __add__(self, o: Any) -> "SStr":
        return SStr(z3.Concat(self.t, strterm(o)))

    def __radd__(self, o: Any) -> "SStr":
        return SStr(z3.Concat(strterm(o), self.t))

    def length(self) -> SInt:
        return SInt(z3.Length(self.t))

    __hash__ = Sym.__hash__


class SBytes(Sym):
    """bytes, modelled as a z3 String over code points 0..255 (latin-1 view)."""

    __slots__ = ()

    def __init__(self, t: Any) -> None:
        self.t = t

    def __eq__(self, o: Any) -> "SBool":  # type: ignore[override]
        return eq(self, o)

    def __ne__(self, o: Any) -> "SBool":  # type: ignore[override]
        return Not(eq(self, o))

    def __add__(self, o: Any) -> "SBytes":
        return SBytes(z3.Concat(self.t, bytesterm(o)))

    def __radd__(self, o: Any) -> "SBytes":
        return SBytes(z3.Concat(bytesterm(o), self.t))

    def length(self) -> SInt:
        return SInt(z3.Length(self.t))

    __hash__ = Sym.__hash__


FP64 = z3.Float64()
RNE = z3.RNE()


class SFloat(Sym):
    """IEEE-754 binary64 (bit-exact; NaN / inf / rounding as in CPython)."""

    __slots__ = ()

    def __init__(self, t: Any) -> None:
        self.t = t

    __hash__ = Sym.__hash__


class SOpaque(Sym):
    """A value of an uninterpreted sort: only equality is known."""

    __slots__ = ("kind",)

    def __init__(self, t: Any, kind: str) -> None:
        self.t = t
        self.kind = kind

    def __eq__(self, o: Any) -> "SBool":  # type: ignore[override]
        return eq(self, o)

    def __ne__(self, o: Any) -> "SBool":  # type: ignore[override]
        return Not(eq(self, o))

    __hash__ = Sym.__hash__


_sorts: dict[str, Any] = {}


def opaque_sort(kind: str) -> Any:
    if kind not in _sorts:
        _sorts[kind] = z3.DeclareSort(kind)
    return _sorts[kind]


# --------------------------------------------------------------------------------------
# lifting helpers
# --------------------------------------------------------------------------------------


def bytes_to_smt(b: bytes) -> str:
    return b.decode("latin-1")


def strterm(x: Any) -> Any:
    if isinstance(x, SStr):
        return x.t
    if isinstance(x, str):
        return z3.StringVal(x)
    raise Unsupported(f"not a str value: {x!r}")


def bytesterm(x: Any) -> Any:
    if isinstance(x, SBytes):
        return x.t
    if isinstance(x, (bytes, bytearray)):
        return z3.StringVal(bytes_to_smt(bytes(x)))
    raise Unsupported(f"not a bytes value: {x!r}")


def boolterm(x: Any) -> Any:
    if isinstance(x, SBool):
        return x.t
    if isinstance(x, bool):
        return z3.BoolVal(x)
    if z3.is_bool(x):
        return x
    raise Unsupported(f"not a bool value: {x!r}")


def floatterm(x: Any) -> Any:
    if isinstance(x, SFloat):
        return x.t
    if isinstance(x, bool):
        return z3.FPVal(1.0 if x else 0.0, FP64)
    if isinstance(x, float):
        return z3.FPVal(x, FP64)
    if isinstance(x, int):
        if abs(x) >= 2**53:
            # exact only if representable; be conservative
            if float(x) != x:
                raise Unsupported("int -> float conversion not exact")
        return z3.FPVal(float(x), FP64)
    if isinstance(x, SInt):
        return z3.fpToFP(RNE, z3.ToReal(x.t), FP64)
    raise Unsupported(f"not a float value: {x!r}")


def is_sym(x: Any) -> bool:
    return isinstance(x, (Sym, SList, SMap, SODict, SSet))


def contains_sym(x: Any, _depth: int = 0) -> bool:
    if isinstance(x, (Sym, SList, SMap, SObj, SExc, SODict, SSet)):
        return True
    if _depth > 6:
        return False
    if isinstance(x, (tuple, list, set, frozenset)):
        return any(contains_sym(e, _depth + 1) for e in x)
    if isinstance(x, dict):
        return any(contains_sym(k, _depth + 1) or contains_sym(v, _depth + 1) for k, v in x.items())
    return False


# --------------------------------------------------------------------------------------
# boolean connectives over values
# --------------------------------------------------------------------------------------


def And(*xs: Any) -> SBool:
    ts = [boolterm(x) for x in xs]
    if not ts:
        return SBool(z3.BoolVal(True))
    return SBool(z3.And(*ts)) if len(ts) > 1 else SBool(ts[0])


def Or(*xs: Any) -> SBool:
    ts = [boolterm(x) for x in xs]
    if not ts:
        return SBool(z3.BoolVal(False))
    return SBool(z3.Or(*ts)) if len(ts) > 1 else SBool(ts[0])


def Not(x: Any) -> SBool:
    return SBool(z3.Not(boolterm(x)))


def Implies(a: Any, b: Any) -> SBool:
    return SBool(z3.Implies(boolterm(a), boolterm(b)))


def Iff(a: Any, b: Any) -> SBool:
    return SBool(boolterm(a) == boolterm(b))


BOUND_K: list[int] = []  # non-empty: bounded mode (DESIGN §2.1 step 6) — quantifiers over indices are expanded


def _bound_range() -> list["SInt"]:
    k = BOUND_K[-1]
    return [SInt(z3.IntVal(i)) for i in range(-1, k + 2)]


def ForAllInt(fn: Callable[[SInt], Any], name: str = "q", patterns: Callable[[SInt], list[Any]] | None = None) -> SBool:
    if BOUND_K:
        return And(*[fn(i) for i in _bound_range()])
    v = z3.Int(fresh_name(name))
    body = boolterm(fn(SInt(v)))
    if patterns is not None:
        pats = [p.t if isinstance(p, Sym) else p for p in patterns(SInt(v))]
        return SBool(z3.ForAll([v], body, patterns=pats))
    return SBool(z3.ForAll([v], body))


def ForAllInt2(fn: Callable[[SInt, SInt], Any], name: str = "q") -> SBool:
    if BOUND_K:
        return And(*[fn(i, j) for i in _bound_range() for j in _bound_range()])
    v = z3.Int(fresh_name(name))
    w = z3.Int(fresh_name(name))
    return SBool(z3.ForAll([v, w], boolterm(fn(SInt(v), SInt(w)))))


def ExistsInt(fn: Callable[[SInt], Any], name: str = "e") -> SBool:
    if BOUND_K:
        return Or(*[fn(i) for i in _bound_range()])
    v = z3.Int(fresh_name(name))
    return SBool(z3.Exists([v], boolterm(fn(SInt(v)))))


def ForAllStr(fn: Callable[[SStr], Any], name: str = "qs") -> SBool:
    v = z3.String(fresh_name(name))
    return SBool(z3.ForAll([v], boolterm(fn(SStr(v)))))


def ite(c: Any, a: Any, b: Any) -> Any:
    """Structural if-then-else over values."""
    if isinstance(c, bool):
        return a if c else b
    ct = boolterm(c)
    if a is b:
        return a
    if isinstance(a, tuple) and isinstance(b, tuple) and len(a) == len(b):
        return tuple(ite(c, x, y) for x, y in zip(a, b))
    if isinstance(a, SObj) and isinstance(b, SObj) and a.cls is None and b.cls is None and a.kind == b.kind and set(a.fields) == set(b.fields):
        return SObj(None, kind=a.kind, **{k: ite(c, a.fields[k], b.fields[k]) for k in a.fields})
    if isinstance(a, (SFloat, float)) or isinstance(b, (SFloat, float)):
        return SFloat(z3.If(ct, floatterm(a), floatterm(b)))
    if is_intlike(a) and is_intlike(b):
        if isinstance(a, (SBool, bool)) and isinstance(b, (SBool, bool)):
            return SBool(z3.If(ct, boolterm(a), boolterm(b)))
        return SInt(z3.If(ct, _arith(a), _arith(b)))
    if isinstance(a, (SStr, str)) and isinstance(b, (SStr, str)):
        return SStr(z3.If(ct, strterm(a), strterm(b)))
    if isinstance(a, (SBytes, bytes)) and isinstance(b, (SBytes, bytes)):
        return SBytes(z3.If(ct, bytesterm(a), bytesterm(b)))
    if isinstance(a, SOpaque) and isinstance(b, SOpaque) and a.kind == b.kind:
        return SOpaque(z3.If(ct, a.t, b.t), a.kind)
    if not contains_sym(a) and not contains_sym(b) and type(a) is type(b) and a == b:
        return a
    raise Unsupported(f"cannot merge values {a!r} / {b!r}")


def eq(a: Any, b: Any) -> SBool:
    """Python ``==`` between values, as a symbolic boolean."""
    r = _eq(a, b)
    return r if isinstance(r, SBool) else SBool(z3.BoolVal(bool(r)))


def _eq(a: Any, b: Any) -> Any:
    if a is None or b is None:
        return a is b
    if isinstance(a, SOpaque) or isinstance(b, SOpaque):
        if isinstance(a, SOpaque) and isinstance(b, SOpaque) and a.kind == b.kind:
            return SBool(a.t == b.t)
        return False
    if isinstance(a, (SFloat, float)) or isinstance(b, (SFloat, float)):
        if isinstance(a, (SFloat, float, SInt, int)) and isinstance(b, (SFloat, float, SInt, int)):
            return SBool(z3.fpEQ(floatterm(a), floatterm(b)))
        return False
    if is_intlike(a) and is_intlike(b):
        if not isinstance(a, Sym) and not isinstance(b, Sym):
            return a == b
        if isinstance(a, (SBool, bool)) and isinstance(b, (SBool, bool)):
            return SBool(boolterm(a) == boolterm(b))
        return SBool(_arith(a) == _arith(b))
    if isinstance(a, (SStr, str)) and isinstance(b, (SStr, str)):
        if not isinstance(a, Sym) and not isinstance(b, Sym):
            return a == b
        return SBool(strterm(a) == strterm(b))
    if isinstance(a, (SBytes, bytes, bytearray)) and isinstance(b, (SBytes, bytes, bytearray)):
        if not isinstance(a, Sym) and not isinstance(b, Sym):
            return a == b
        return SBool(bytesterm(a) == bytesterm(b))
    if isinstance(a, tuple) and isinstance(b, tuple):
        if len(a) != len(b):
            return False
        return And(*[eq(x, y) for x, y in zip(a, b)])
    if isinstance(a, (list, SList)) and isinstance(b, (list, SList)):
        la, lb = as_slist(a), as_slist(b)
        return And(
            SBool(la.length == lb.length),
            ForAllInt(lambda i: Implies(And(i >= 0, SBool(i.t < la.length)), eq(la.get(i), lb.get(i)))),
        )
    if (isinstance(a, SSet) or isinstance(b, SSet)) and isinstance(a, (SSet, set, frozenset)) and isinstance(b, (SSet, set, frozenset)):
        # set equality = same members; quantifier-free when both sides are finite enumerations
        other = a if isinstance(a, SSet) else b
        sa = a if isinstance(a, SSet) else SSet.of_values(other.shape, sorted(a, key=repr))
        sb = b if isinstance(b, SSet) else SSet.of_values(other.shape, sorted(b, key=repr))
        ta, tb = getattr(sa, "terms", None), getattr(sb, "terms", None)
        if ta is not None and tb is not None:
            return SBool(z3.And(*[sb.member(t) for t in ta], *[sa.member(t) for t in tb]))
        w = sa.shape.fresh("elt")
        return SBool(z3.ForAll([w.t], sa.member(w.t) == sb.member(w.t)))
    if isinstance(a, SObj) or isinstance(b, SObj):
        return a is b
    if isinstance(a, Sym) or isinstance(b, Sym):
        # different kinds (str vs bytes, int vs str, ...) are never equal in Python
        return False
    if contains_sym(a) or contains_sym(b):
        raise Unsupported(f"equality between {a!r} and {b!r}")
    return a == b


def _has_nonempty_literal(t: Any) -> bool:
    if z3.is_string_value(t):
        return len(t.as_string()) > 0
    if z3.is_app(t) and t.decl().kind() == z3.Z3_OP_SEQ_CONCAT:
        return any(_has_nonempty_literal(c) for c in t.children())
    return False


def truth(v: Any) -> Any:
    """Python truthiness: concrete bool, or SBool."""
    if isinstance(v, SBool):
        return v
    if isinstance(v, SInt):
        return SBool(v.t != 0)
    if isinstance(v, (SStr, SBytes)):
        if _has_nonempty_literal(v.t):
            return True  # a concatenation with a non-empty literal piece is non-empty
        return SBool(z3.Length(v.t) > 0)
    if isinstance(v, SFloat):
        return SBool(z3.Not(z3.fpIsZero(v.t)))
    if isinstance(v, SList):
        return SBool(v.length > 0)
    if isinstance(v, SODict):
        return SBool(v.length > 0)
    if isinstance(v, SSet):
        return v.nonempty()
    if isinstance(v, SMap):
        return SBool(v.size > 0)  # a dict is truthy iff non-empty; ``size`` is |dict| (same term ``len()`` returns)
    if isinstance(v, SOpaque):
        if _CTX:  # an opaque *reference* whose methods are given by contract ("Kind.__bool__" / "Kind.__len__")
            H = _CTX[-1].handlers
            h = H.get(f"{v.kind}.__bool__")
            if h is not None:
                return h(_CTX[-1], v)
            h = H.get(f"{v.kind}.__len__")
            if h is not None:
                return truth(h(_CTX[-1], v))
        # truthiness of an opaque value: an uninterpreted (but consistent) predicate of the value
        f = z3.Function(f"py_truthy_{v.kind}", opaque_sort(v.kind), z3.BoolSort())
        return SBool(f(v.t))
    if isinstance(v, SObj):
        if _CTX:
            H = _CTX[-1].handlers
            h = H.get(f"{v.kind}.__bool__")
            if h is not None:
                return h(_CTX[-1], v)
            h = H.get(f"{v.kind}.__len__")
            if h is not None:
                n = h(_CTX[-1], v)
                return truth(n)
        return True
    if isinstance(v, SExc):
        return True
    return bool(v)


# --------------------------------------------------------------------------------------
# shapes: how to create a fresh symbolic value of a given Python type
# --------------------------------------------------------------------------------------


class Shape:
    def fresh(self, name: str) -> Any:
        raise NotImplementedError

    def indexed(self, name: str) -> Callable[[Any], Any]:
        """A fresh family of values indexed by a z3 Int term."""
        raise NotImplementedError

    def keyed(self, name: str, key_sort: Any) -> Callable[[Any], Any]:
        raise NotImplementedError


class _Scalar(Shape):
    def __init__(self, sort: Callable[[], Any], wrap: Callable[[Any], Any], label: str) -> None:
        self._sort, self._wrap, self.label = sort, wrap, label

    def fresh(self, name: str) -> Any:
        return self._wrap(z3.Const(fresh_name(name), self._sort()))

    def indexed(self, name: str) -> Callable[[Any], Any]:
        f = z3.Function(fresh_name(name), z3.IntSort(), self._sort())
        return lambda i: self._wrap(f(i))

    def keyed(self, name: str, key_sort: Any) -> Callable[[Any], Any]:
        f = z3.Function(fresh_name(name), key_sort, self._sort())
        return lambda k: self._wrap(f(k))

    def __repr__(self) -> str:
        return self.label


IntShape = _Scalar(z3.IntSort, SInt, "Int")
BoolShape = _Scalar(z3.BoolSort, SBool, "Bool")
StrShape = _Scalar(z3.StringSort, SStr, "Str")
BytesShape = _Scalar(z3.StringSort, SBytes, "Bytes")
FloatShape = _Scalar(lambda: FP64, SFloat, "Float")


def OpaqueShape(kind: str) -> Shape:
    return _Scalar(lambda: opaque_sort(kind), lambda t: SOpaque(t, kind), f"Opaque[{kind}]")


class TupleShape(Shape):
    def __init__(self, *parts: Shape) -> None:
        self.parts = parts

    def fresh(self, name: str) -> Any:
        return tuple(p.fresh(f"{name}_{i}") for i, p in enumerate(self.parts))

    def indexed(self, name: str) -> Callable[[Any], Any]:
        fs = [p.indexed(f"{name}_{i}") for i, p in enumerate(self.parts)]
        return lambda i: tuple(f(i) for f in fs)

    def keyed(self, name: str, key_sort: Any) -> Callable[[Any], Any]:
        fs = [p.keyed(f"{name}_{i}", key_sort) for i, p in enumerate(self.parts)]
        return lambda k: tuple(f(k) for f in fs)

    def __repr__(self) -> str:
        return "Tuple(" + ",".join(map(repr, self.parts)) + ")"


class RecShape(Shape):
    """A record (abstract ``SObj`` of the given kind) with typed fields, e.g. an Arrow field
    ``RecShape("Field", name=StrShape, type=OpaqueShape("ArrowType"), nullable=BoolShape)``."""

    def __init__(self, kind: str, **fields: Shape) -> None:
        self.kind, self.fields = kind, fields

    def fresh(self, name: str) -> Any:
        return SObj(None, kind=self.kind, **{k: sh.fresh(f"{name}_{k}") for k, sh in self.fields.items()})

    def indexed(self, name: str) -> Callable[[Any], Any]:
        fs = {k: sh.indexed(f"{name}_{k}") for k, sh in self.fields.items()}
        return lambda i: SObj(None, kind=self.kind, **{k: f(i) for k, f in fs.items()})

    def keyed(self, name: str, key_sort: Any) -> Callable[[Any], Any]:
        fs = {k: sh.keyed(f"{name}_{k}", key_sort) for k, sh in self.fields.items()}
        return lambda x: SObj(None, kind=self.kind, **{k: f(x) for k, f in fs.items()})

    def __repr__(self) -> str:
        return f"Rec({self.kind})"


class OptShape(Shape):
    """``None`` or a value of the inner shape (decided by a nondeterministic choice: one path each)."""

    def __init__(self, inner: Shape) -> None:
        self.inner = inner

    def fresh(self, name: str) -> Any:
        return None if ctx().choose(2) == 0 else self.inner.fresh(name)

    def __repr__(self) -> str:
        return f"Opt({self.inner!r})"


class ConstShape(Shape):
    """A variable that is re-assigned in a loop but whose value the contract fixes (e.g. a flag)."""

    def __init__(self, *values: Any) -> None:
        self.values = values

    def fresh(self, name: str) -> Any:
        return self.values[ctx().choose(len(self.values))]


class ListShape(Shape):
    def __init__(self, elem: Shape) -> None:
        self.elem = elem

    def fresh(self, name: str) -> Any:
        n = z3.Int(fresh_name(name + "_len"))
        c = ctx()
        c.assume(n >= 0)
        if BOUND_K:
            c.assume(n <= BOUND_K[-1])
        cat = z3.String(fresh_name(name + "_cat")) if self.elem is StrShape or self.elem is BytesShape else None
        return SList(self.elem, self.elem.indexed(name), n, cat)

    def __repr__(self) -> str:
        return f"List({self.elem!r})"


def shape_of(v: Any) -> Shape:
    """Shape used to havoc a loop-modified variable (from its value at loop entry)."""
    if isinstance(v, (SBool, bool)):
        return BoolShape
    if isinstance(v, (SInt, int)):
        return IntShape
    if isinstance(v, (SStr, str)):
        return StrShape
    if isinstance(v, (SBytes, bytes)):
        return BytesShape
    if isinstance(v, (SFloat, float)):
        return FloatShape
    if isinstance(v, SOpaque):
        return OpaqueShape(v.kind)
    if isinstance(v, tuple):
        return TupleShape(*[shape_of(e) for e in v])
    if isinstance(v, SList):
        return ListShape(v.shape)
    if isinstance(v, SObj) and v.cls is None:
        return RecShape(v.kind, **{k: shape_of(x) for k, x in v.fields.items()})
    raise Unsupported(f"cannot infer a havoc shape for {v!r}; give one in the loop contract")


# --------------------------------------------------------------------------------------
# symbolic-length list
# --------------------------------------------------------------------------------------


class SList:
    """A Python list whose length is symbolic.  ``getf`` maps a z3 Int index term in
    ``[0, length)`` to the element value.  Mutable (Python list identity semantics)."""

    def __init__(self, shape: Shape, getf: Callable[[Any], Any], length: Any, cat: Any = None) -> None:
        self.shape = shape
        self.getf = getf
        self.length = length  # z3 Int term
        # ghost model field for lists of str/bytes: the concatenation of all elements (z3 String term),
        # maintained by append (cat([])="" / cat(l+[v])=cat(l)+v are the only facts used); None = not tracked
        self.cat = cat

    # ---- pure views -------------------------------------------------------------
    def get(self, i: Any) -> Any:
        return self.getf(_arith(i))

    def len(self) -> SInt:
        return SInt(self.length)

    def snapshot(self) -> "SList":
        return SList(self.shape, self.getf, self.length, self.cat)

    # ---- mutation ---------------------------------------------------------------
    def append(self, v: Any) -> None:
        old, n = self.getf, self.length
        self.getf = lambda j: ite(SBool(j == n), v, old(j))
        self.length = n + 1
        if self.cat is not None:
            self.cat = z3.Concat(self.cat, v.t if isinstance(v, (SStr, SBytes)) else z3.StringVal(bytes_to_smt(v) if isinstance(v, bytes) else v)) if isinstance(v, (SStr, SBytes, str, bytes)) else None

    def insert_at(self, i: Any, v: Any) -> None:
        """``list.insert(i, v)`` for ``0 <= i <= len`` (caller established the range)."""
        old, it = self.getf, _arith(i)
        self.getf = lambda j: ite(SBool(j < it), old(j), ite(SBool(j == it), v, old(j - 1)))
        self.length = self.length + 1
        self.cat = None

    def pop_at(self, i: Any) -> Any:
        """``list.pop(i)`` for ``0 <= i < len``."""
        old, it = self.getf, _arith(i)
        v = old(it)
        self.getf = lambda j: ite(SBool(j < it), old(j), old(j + 1))
        self.length = self.length - 1
        self.cat = None
        return v

    def set_at(self, i: Any, v: Any) -> None:
        old, it = self.getf, _arith(i)
        self.getf = lambda j: ite(SBool(j == it), v, old(j))
        self.cat = None

    def __repr__(self) -> str:
        return f"SList(len={self.length})"


def as_slist(x: Any) -> SList:
    if isinstance(x, SList):
        return x
    if isinstance(x, (list, tuple)):
        items = list(x)
        if not items:
            return SList(IntShape, lambda j: SInt(z3.IntVal(0)), z3.IntVal(0))

        def getf(j: Any, items: list[Any] = items) -> Any:
            v = items[-1]
            for k in range(len(items) - 2, -1, -1):
                v = ite(SBool(j == k), items[k], v)
            return v

        return SList(shape_of(items[0]), getf, z3.IntVal(len(items)))
    raise Unsupported(f"not a list: {x!r}")


# --------------------------------------------------------------------------------------
# symbolic set (a membership predicate)
# --------------------------------------------------------------------------------------


class SSet:
    """A set of scalar values given by its membership predicate (z3 term -> z3 Bool)."""

    def __init__(self, shape: Shape, member: Callable[[Any], Any]) -> None:
        self.shape, self.member = shape, member

    @staticmethod
    def of_values(shape: Shape, items: list[Any]) -> "SSet":
        ts = [x.t if isinstance(x, Sym) else (z3.StringVal(x) if isinstance(x, str) else z3.IntVal(x)) for x in items]
        r = SSet(shape, lambda t: z3.Or(*[t == c for c in ts]) if ts else z3.BoolVal(False))
        r.terms = ts  # type: ignore[attr-defined]  # finite enumeration: lets set equality stay quantifier-free
        return r

    def has(self, v: Any) -> SBool:
        t = v.t if isinstance(v, Sym) else (z3.StringVal(v) if isinstance(v, str) else z3.IntVal(v))
        return SBool(self.member(t))

    def nonempty(self) -> SBool:
        w = self.shape.fresh("member")
        if BOUND_K:
            raise Unsupported("set non-emptiness in bounded mode")
        return SBool(z3.Exists([w.t], self.member(w.t)))

    def diff(self, o: "SSet") -> "SSet":
        return SSet(self.shape, lambda t: z3.And(self.member(t), z3.Not(o.member(t))))

    def union(self, o: "SSet") -> "SSet":
        return SSet(self.shape, lambda t: z3.Or(self.member(t), o.member(t)))

    def inter(self, o: "SSet") -> "SSet":
        return SSet(self.shape, lambda t: z3.And(self.member(t), o.member(t)))


# --------------------------------------------------------------------------------------
# symbolic map (dict with symbolic key set)
# --------------------------------------------------------------------------------------


class SMap:
    """A dict whose key set is symbolic.  ``has(k)`` / ``val(k)`` are closures over a
    key term; ``rank(k)`` (optional) is the insertion/LRU rank for ordered dicts.
    ``size`` is a ghost Int term maintained by the operations (|dict|)."""

    def __init__(
        self,
        key_shape: Shape,
        val_shape: Shape,
        has: Callable[[Any], Any],
        val: Callable[[Any], Any],
        size: Any,
        rank: Callable[[Any], Any] | None = None,
        clock: Any = None,
    ) -> None:
        self.key_shape, self.val_shape = key_shape, val_shape
        self.has_f, self.val_f, self.size = has, val, size
        self.rank_f, self.clock = rank, clock

    @staticmethod
    def fresh(name: str, key_shape: Shape, val_shape: Shape, ordered: bool = False) -> "SMap":
        k0 = key_shape.fresh(name + "_k")
        ks = k0.t.sort()
        hasf = z3.Function(fresh_name(name + "_has"), ks, z3.BoolSort())
        valf = val_shape.keyed(name + "_val", ks)
        size = z3.Int(fresh_name(name + "_size"))
        ctx().assume(size >= 0)
        rank = None
        clock = None
        if ordered:
            rf = z3.Function(fresh_name(name + "_rank"), ks, z3.IntSort())
            rank = lambda k: rf(k)  # noqa: E731
            clock = z3.Int(fresh_name(name + "_clock"))
        return SMap(key_shape, val_shape, lambda k: hasf(k), valf, size, rank, clock)

    def keyterm(self, k: Any) -> Any:
        if isinstance(k, Sym):
            return k.t
        if isinstance(k, str):
            return z3.StringVal(k)
        if isinstance(k, bytes):
            return z3.StringVal(bytes_to_smt(k))
        if isinstance(k, bool):
            return z3.BoolVal(k)
        if isinstance(k, int):
            return z3.IntVal(k)
        raise Unsupported(f"map key {k!r}")

    def has(self, k: Any) -> SBool:
        return SBool(self.has_f(self.keyterm(k)))

    def val(self, k: Any) -> Any:
        return self.val_f(self.keyterm(k))

    def snapshot(self) -> "SMap":
        return SMap(self.key_shape, self.val_shape, self.has_f, self.val_f, self.size, self.rank_f, self.clock)

    def store(self, k: Any, v: Any) -> None:
        kt = self.keyterm(k)
        oh, ov, osz = self.has_f, self.val_f, self.size
        self.size = z3.If(oh(kt), osz, osz + 1)
        self.has_f = lambda x: z3.Or(x == kt, oh(x))
        self.val_f = lambda x: ite(SBool(x == kt), v, ov(x))
        if self.rank_f is not None:
            # a *new* key gets a fresh highest rank; an existing key keeps its position
            orf, clk = self.rank_f, self.clock
            self.rank_f = lambda x: z3.If(z3.And(x == kt, z3.Not(oh(kt))), clk, orf(x))
            self.clock = clk + 1

    def delete(self, k: Any) -> None:
        kt = self.keyterm(k)
        oh = self.has_f
        self.size = self.size - 1
        self.has_f = lambda x: z3.And(x != kt, oh(x))

    def move_to_end(self, k: Any) -> None:
        kt = self.keyterm(k)
        if self.rank_f is None:
            raise Unsupported("move_to_end on an unordered map")
        orf, clk = self.rank_f, self.clock
        self.rank_f = lambda x: z3.If(x == kt, clk, orf(x))
        self.clock = clk + 1


# --------------------------------------------------------------------------------------
# records and exceptions
# --------------------------------------------------------------------------------------


class SObj:
    """A mutable record: an instance of a real class (``cls``) or of an abstract kind
    (``kind``), with only the fields the contract's view names."""

    _ids = itertools.count()

    def __init__(self, cls: Any = None, kind: str | None = None, **fields: Any) -> None:
        # closed=True (set after construction): the view lists *all* attributes, so a missing one is a
        # Python AttributeError rather than "the contract forgot a field"
        object.__setattr__(self, "closed", False)
        object.__setattr__(self, "cls", cls)
        object.__setattr__(self, "kind", kind or (cls.__name__ if cls is not None else "obj"))
        object.__setattr__(self, "fields", dict(fields))
        object.__setattr__(self, "oid", next(SObj._ids))

    def __repr__(self) -> str:
        return f"<SObj {self.kind}#{self.oid}>"

    def __bool__(self) -> bool:
        return True


class SExc:
    """An exception instance in the symbolic world: a real class + symbolic args/attrs."""

    def __init__(self, cls: type, args: tuple[Any, ...] = (), attrs: dict[str, Any] | None = None) -> None:
        self.cls = cls
        self.args = args
        self.attrs = dict(attrs or {})
        self.cause: Any = None
        self.site: str = ""

    def __repr__(self) -> str:
        return f"<SExc {self.cls.__name__}{self.args!r}>"


# --------------------------------------------------------------------------------------
# ordered dict as a sequence of (key, value) with pairwise-distinct keys
# --------------------------------------------------------------------------------------


class SODict:
    """``dict`` / ``OrderedDict`` whose contents are symbolic, kept as the insertion-ordered
    sequence of its items.  Keys are pairwise distinct (assumed by ``fresh``, preserved by
    every operation).  Iteration order, ``popitem(last=...)`` and ``move_to_end`` are exact."""

    def __init__(self, key_shape: Shape, val_shape: Shape, items: SList) -> None:
        self.key_shape, self.val_shape, self.items = key_shape, val_shape, items

    @staticmethod
    def fresh(name: str, key_shape: Shape, val_shape: Shape) -> "SODict":
        items = ListShape(TupleShape(key_shape, val_shape)).fresh(name)
        d = SODict(key_shape, val_shape, items)
        ctx().assume(d.distinct_keys())
        return d

    @staticmethod
    def empty(key_shape: Shape, val_shape: Shape) -> "SODict":
        sh = TupleShape(key_shape, val_shape)
        return SODict(key_shape, val_shape, SList(sh, sh.indexed(fresh_name("empty")), z3.IntVal(0)))

    def distinct_keys(self) -> SBool:
        it = self.items.snapshot()
        return ForAllInt2(lambda i, j: Implies(And(i >= 0, SBool(i.t < j.t), SBool(j.t < it.length)), Not(eq(it.get(i)[0], it.get(j)[0]))))

    @property
    def length(self) -> Any:
        return self.items.length

    def key(self, i: Any) -> Any:
        return self.items.get(i)[0]

    def val(self, i: Any) -> Any:
        return self.items.get(i)[1]

    def has(self, k: Any) -> SBool:
        it = self.items.snapshot()
        return ExistsInt(lambda i: And(i >= 0, SBool(i.t < it.length), eq(it.get(i)[0], k)))

    def index_of(self, k: Any) -> SInt:
        """Position of a key known (on this path) to be present."""
        p = SInt(z3.Int(fresh_name("pos")))
        ctx().assume(And(p >= 0, SBool(p.t < self.items.length), eq(self.key(p), k)))
        return p

    def snapshot(self) -> "SODict":
        return SODict(self.key_shape, self.val_shape, self.items.snapshot())


def fresh_like_odict(d: SODict, name: str) -> SODict:
    return SODict.fresh(name, d.key_shape, d.val_shape)
