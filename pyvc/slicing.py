"""Backward slices of large wiring functions (DESIGN §2.7).

``run_slice(S, fn, criterion, env, stop)`` finds the expression nodes of the *real* function ``fn``
selected by ``criterion`` (e.g. "the call ``_AuthMiddleware(...)``"), computes the statement-level
backward slice of the names they read (assignments / mutations of needed names, transitively, with
their enclosing conditions) and interprets only those statements of the real AST, in source order
and with their real control structure.  Nothing is re-typed: the executed statements are the
function's own AST nodes, every other statement is dropped.

* ``env``  values for the function's parameters (and for the ``stop`` names);
* ``stop`` names that are *not* traced: the driver supplies an arbitrary (abstract) value for them,
  which over-approximates whatever the dropped statements compute;
* ``return`` / ``raise`` statements are dropped: the slice describes executions of ``fn`` that
  complete normally (a configuration for which ``fn`` raises produces no result to talk about).

Soundness condition, checked syntactically (Unsupported otherwise): a mutable container created in
the slice is never handed to a call, aliased or mutated by a statement *outside* the slice.
The value of the i-th criterion node (source order) is returned as ``locals["__slice_i"]``.
"""

from __future__ import annotations

import ast
import copy
from typing import Any, Callable

from .source import source_of
from .values import Unsupported

PURE_CALLS = {"tuple", "list", "len", "isinstance", "bool", "str", "frozenset", "dict", "set", "sorted", "any", "all", "repr", "int", "iter", "enumerate", "zip"}
_COMPOUND = (ast.If, ast.For, ast.While, ast.With, ast.Try, ast.AsyncFor, ast.AsyncWith)
_MUTABLE_MAKERS = {"list", "dict", "set", "bytearray", "OrderedDict", "defaultdict", "deque"}


def _loads(node: ast.AST) -> set[str]:
    return {n.id for n in ast.walk(node) if isinstance(n, ast.Name) and isinstance(n.ctx, ast.Load)}


def _base_name(t: ast.AST) -> str | None:
    while isinstance(t, (ast.Attribute, ast.Subscript, ast.Starred)):
        t = t.value
    return t.id if isinstance(t, ast.Name) else None


def _target_names(t: ast.AST) -> set[str]:
    if isinstance(t, (ast.Tuple, ast.List)):
        out: set[str] = set()
        for e in t.elts:
            out |= _target_names(e)
        return out
    b = _base_name(t)
    return {b} if b else set()


def _defs(st: ast.stmt) -> set[str]:
    """Names a simple statement binds or mutates."""
    out: set[str] = set()
    if isinstance(st, ast.Assign):
        for t in st.targets:
            out |= _target_names(t)
    elif isinstance(st, (ast.AnnAssign, ast.AugAssign)):
        out |= _target_names(st.target)
    elif isinstance(st, (ast.Import, ast.ImportFrom)):
        out |= {(a.asname or a.name).split(".")[0] for a in st.names}
    elif isinstance(st, (ast.FunctionDef, ast.AsyncFunctionDef, ast.ClassDef)):
        out.add(st.name)
    elif isinstance(st, ast.Delete):
        for t in st.targets:
            out |= _target_names(t)
    elif isinstance(st, ast.Expr) and isinstance(st.value, ast.Call) and isinstance(st.value.func, ast.Attribute):
        b = _base_name(st.value.func.value)  # x.method(...) may mutate x
        if b:
            out.add(b)
    for n in ast.walk(st):
        if isinstance(n, ast.NamedExpr):
            out |= _target_names(n.target)
    return out


def _header_loads(st: ast.stmt) -> set[str]:
    if isinstance(st, (ast.If, ast.While)):
        return _loads(st.test)
    if isinstance(st, (ast.For, ast.AsyncFor)):
        return _loads(st.iter)
    if isinstance(st, (ast.With, ast.AsyncWith)):
        out: set[str] = set()
        for it in st.items:
            out |= _loads(it.context_expr)
        return out
    return set()


def _header_defs(st: ast.stmt) -> set[str]:
    if isinstance(st, (ast.For, ast.AsyncFor)):
        return _target_names(st.target)
    if isinstance(st, (ast.With, ast.AsyncWith)):
        out: set[str] = set()
        for it in st.items:
            if it.optional_vars is not None:
                out |= _target_names(it.optional_vars)
        return out
    return set()


def _blocks(st: ast.stmt) -> list[list[ast.stmt]]:
    bl = [getattr(st, f) for f in ("body", "orelse", "finalbody") if isinstance(getattr(st, f, None), list)]
    if isinstance(st, ast.Try):
        bl += [h.body for h in st.handlers]
    return bl


def _walk(stmts: list[ast.stmt], anc: tuple[ast.stmt, ...], out: list[tuple[ast.stmt, tuple[ast.stmt, ...]]]) -> None:
    for st in stmts:
        out.append((st, anc))
        if isinstance(st, _COMPOUND):
            for b in _blocks(st):
                _walk(b, anc + (st,), out)


def compute_slice(fnode: ast.AST, criterion: Callable[[ast.AST], bool], stop: set[str]) -> tuple[list[ast.stmt], list[ast.AST], set[str]]:
    """Returns (pruned body, criterion nodes in source order, relevant names)."""
    allst: list[tuple[ast.stmt, tuple[ast.stmt, ...]]] = []
    _walk(fnode.body, (), allst)  # type: ignore[attr-defined]
    crit: dict[int, list[ast.AST]] = {}
    crit_nodes: list[ast.AST] = []
    for st, _ in allst:
        if isinstance(st, _COMPOUND) or isinstance(st, (ast.FunctionDef, ast.AsyncFunctionDef, ast.ClassDef)):
            heads = [st.test] if isinstance(st, (ast.If, ast.While)) else ([it.context_expr for it in st.items] if isinstance(st, (ast.With, ast.AsyncWith)) else [])
            found = [n for h in heads for n in ast.walk(h) if criterion(n)]
        else:
            found = [n for n in ast.walk(st) if criterion(n)]
        if found:
            found.sort(key=lambda n: (getattr(n, "lineno", 0), getattr(n, "col_offset", 0)))
            crit[id(st)] = found
            crit_nodes.extend(found)
    if not crit_nodes:
        raise Unsupported("slice criterion selects no expression of the function (renamed or removed?)")
    crit_nodes.sort(key=lambda n: (getattr(n, "lineno", 0), getattr(n, "col_offset", 0)))
    relevant: set[str] = set()
    for n in crit_nodes:
        relevant |= _loads(n) - stop
    keep: set[int] = set()

    def keep_with_ancestors(st: ast.stmt, anc: tuple[ast.stmt, ...]) -> None:
        nonlocal relevant
        for a in anc:
            if id(a) not in keep:
                keep.add(id(a))
                relevant |= _header_loads(a) - stop
    for st, anc in allst:
        if id(st) in crit:
            keep_with_ancestors(st, anc)
    changed = True
    while changed:
        changed = False
        for st, anc in allst:
            if id(st) in keep or isinstance(st, (ast.Return, ast.Raise)):
                continue
            if isinstance(st, _COMPOUND):
                if _header_defs(st) & relevant:
                    keep.add(id(st))
                    relevant |= _header_loads(st) - stop
                    keep_with_ancestors(st, anc)
                    changed = True
                continue
            d = _defs(st)
            if d & relevant and not (d & stop and not (d - stop) & relevant):
                before = len(relevant) + len(keep)
                keep.add(id(st))
                relevant |= _loads(st) - stop
                keep_with_ancestors(st, anc)
                changed = changed or (len(relevant) + len(keep) != before)
    # ---- soundness: mutable containers created in the slice do not escape to dropped statements
    mutable: set[str] = set()
    for st, _ in allst:
        if id(st) in keep and isinstance(st, (ast.Assign, ast.AnnAssign)) and st.value is not None:
            v = st.value
            is_mut = isinstance(v, (ast.List, ast.Dict, ast.Set, ast.ListComp, ast.DictComp, ast.SetComp)) or (
                isinstance(v, ast.Call) and isinstance(v.func, ast.Name) and v.func.id in _MUTABLE_MAKERS
            )
            if is_mut:
                mutable |= _defs(st)
    for st, _ in allst:
        if id(st) in keep or isinstance(st, _COMPOUND):
            continue
        crit_here = {id(x) for n in crit.get(id(st), []) for x in ast.walk(n)}
        for n in ast.walk(st):
            if id(n) in crit_here:
                continue
            if isinstance(n, ast.Call):
                pure = isinstance(n.func, ast.Name) and n.func.id in PURE_CALLS
                argn = {a.id for a in list(n.args) + [k.value for k in n.keywords] if isinstance(a, ast.Name)}
                argn |= {a.value.id for a in n.args if isinstance(a, ast.Starred) and isinstance(a.value, ast.Name)}
                recv = _base_name(n.func.value) if isinstance(n.func, ast.Attribute) else None
                bad = ((argn & mutable) if not pure else set()) | ({recv} & mutable if recv else set())
                if bad:
                    raise Unsupported(f"slice soundness: {sorted(bad)} escapes to a call outside the slice at line {n.lineno}")
            if isinstance(n, (ast.Assign, ast.AnnAssign)) and isinstance(getattr(n, "value", None), ast.Name) and n.value.id in mutable:
                raise Unsupported(f"slice soundness: {n.value.id} is aliased outside the slice at line {n.lineno}")
        if _defs(st) & mutable and id(st) not in crit:
            raise Unsupported(f"slice soundness: {sorted(_defs(st) & mutable)} mutated outside the slice at line {st.lineno}")

    index = {id(n): i for i, n in enumerate(crit_nodes)}

    def prune(stmts: list[ast.stmt]) -> list[ast.stmt]:
        out: list[ast.stmt] = []
        for st in stmts:
            if isinstance(st, _COMPOUND):
                if id(st) not in keep:
                    # a criterion expression in the header of a dropped compound statement (``with f(x) as w:``,
                    # ``if g(y):``) is evaluated where the statement stands; its body is dropped
                    for n in crit.get(id(st), []):
                        a = ast.Assign(targets=[ast.Name(id=f"__slice_{index[id(n)]}", ctx=ast.Store())], value=n)
                        out.append(ast.fix_missing_locations(ast.copy_location(a, st)))
                    continue
                c = copy.copy(st)
                for f in ("body", "orelse", "finalbody"):
                    if isinstance(getattr(st, f, None), list):
                        pruned = prune(getattr(st, f))
                        setattr(c, f, pruned if (pruned or f != "body") else [ast.copy_location(ast.Pass(), st)])
                if isinstance(st, ast.Try):
                    hs = []
                    for h in st.handlers:
                        hc = copy.copy(h)
                        hc.body = prune(h.body) or [ast.copy_location(ast.Pass(), h)]
                        hs.append(hc)
                    c.handlers = hs
                out.append(c)
                continue
            if id(st) in crit and id(st) not in keep:
                for n in crit[id(st)]:
                    a = ast.Assign(targets=[ast.Name(id=f"__slice_{index[id(n)]}", ctx=ast.Store())], value=n)
                    out.append(ast.fix_missing_locations(ast.copy_location(a, st)))
                continue
            if id(st) in keep:
                out.append(st)
                for n in crit.get(id(st), []):  # statement kept whole: record the criterion value after it ran is not possible
                    raise Unsupported("slice criterion inside a statement of the slice itself")
        return out

    return prune(fnode.body), crit_nodes, relevant  # type: ignore[attr-defined]


_SLICE_MEMO: dict[Any, Any] = {}


def run_slice(S: Any, fn: Any, criterion: Callable[[ast.AST], bool], env: dict[str, Any], stop: set[str] | None = None, cache_key: str | None = None) -> dict[str, Any]:
    """Interpret the backward slice of ``fn`` for the selected expressions; returns the final locals.
    ``cache_key`` names the criterion: the (purely syntactic) slice is then computed once per process
    and function source instead of once per path."""
    from .interp import Frame

    stop = set(stop or ())
    fs = source_of(fn)
    mk = (fs.relpath, fs.qualname, fs.sha256, cache_key, frozenset(stop))
    if cache_key is not None and mk in _SLICE_MEMO:
        body, crit_nodes, relevant = _SLICE_MEMO[mk]
    else:
        body, crit_nodes, relevant = compute_slice(fs.node, criterion, stop)
        if cache_key is not None:
            _SLICE_MEMO[mk] = (body, crit_nodes, relevant)
    S.functions[f"{fs.relpath}::{fs.qualname} [slice: {len(body)} top-level statements for {len(crit_nodes)} criterion expression(s)]"] = {"sha256": fs.sha256, "nodes": fs.nodes}
    S.note(f"slice of {fs.qualname}: statements outside the backward slice dropped; return/raise dropped (normal completion assumed); stop names {sorted(stop)} arbitrary")
    frame = Frame(fs, fn.__globals__, None, fs.qualname)
    params = {a.arg for a in fs.node.args.posonlyargs + fs.node.args.args + fs.node.args.kwonlyargs}
    missing = sorted(n for n in (relevant & params) | (stop & _all_loads(body) if stop else set()) if n not in env)
    if missing:
        raise Unsupported(f"slice of {fs.qualname} needs values for {missing}")
    frame.locals.update(env)
    S.interp.exec_block(body, frame)
    return frame.locals


def _all_loads(body: list[ast.stmt]) -> set[str]:
    out: set[str] = set()
    for st in body:
        out |= _loads(st)
    return out
