"""Models of Python operators, builtins and container methods on symbolic values
(DESIGN §3.1).  Everything not modelled here raises ``Unsupported`` (exit 2)."""

from __future__ import annotations

import ast
import builtins
import contextlib
import operator
import struct as _struct
import threading
import types
from typing import Any, Callable

import z3

from . import values as V
from .core import PyRaise
from .values import (
    SODict,
    SSet,
    SBool,
    SBytes,
    SExc,
    SFloat,
    SInt,
    SList,
    SMap,
    SObj,
    SOpaque,
    SStr,
    Sym,
    Unsupported,
)


def _I(x: Any) -> Any:
    return V._arith(x)


def raise_(ip: Any, cls: type, *args: Any) -> PyRaise:
    return ip.mkraise(SExc(cls, tuple(args)))


# ======================================================================================
# symbolic iteration descriptors
# ======================================================================================


class MapView:
    """``m.items()`` / ``m.keys()`` / ``m.values()`` of a symbolic map (a view of the map as it was at the call)."""

    def __init__(self, m: Any, what: str) -> None:
        self.m, self.what = m, what


class SymIter:
    """An iterable of symbolic length: ``length`` (z3 Int) and ``at(k)`` for 0 <= k < length."""

    def __init__(self, length: Any, at: Callable[[Any], Any]) -> None:
        self.length, self.at = length, at
        self.pos = 0  # elements already consumed through next() (enumerate/zip/reversed/... are iterators)


def iteration(ip: Any, it: Any) -> Any:
    """Concrete-structure iterables -> Python list of values; symbolic -> (length, at)."""
    if isinstance(it, (list, tuple)):
        return list(it)
    if isinstance(it, dict):
        return list(it.keys())
    if isinstance(it, (set, frozenset)):
        try:
            return sorted(it)
        except TypeError:
            return list(it)
    if isinstance(it, (range, type({}.items()), type({}.keys()), type({}.values()), str, bytes, enumerate, zip, reversed)):
        return list(it)
    if isinstance(it, SList):
        snap = it.snapshot()
        return (snap.length, snap.getf)
    if isinstance(it, SymIter):
        if it.pos:
            p0, at0 = it.pos, it.at
            return (it.length - p0, lambda k: at0(k + p0))
        return (it.length, it.at)
    if isinstance(it, (SMap, MapView)):
        raise Unsupported("iteration over a symbolic map (no order): only the key-preserving dict comprehension over .items()/.keys() is modelled")
    if isinstance(it, SODict):
        snap = it.items.snapshot()
        return (snap.length, lambda k: snap.getf(k)[0])
    if isinstance(it, SObj) and it.kind == "iterator":
        seq = it.fields["seq"]
        pos = it.fields["pos"]
        if isinstance(seq, list):
            return seq[pos:]
        return (seq[0] - pos, lambda k: seq[1](k + pos))
    if isinstance(it, (SObj, SOpaque)) and ip.S.handlers.get(f"{it.kind}.__iter__") is not None:
        # abstract object / opaque reference whose iteration is given by contract (returns a SymIter / list)
        return iteration(ip, ip.S.handlers[f"{it.kind}.__iter__"](ip.S, it))
    if isinstance(it, (SStr,)):
        return (z3.Length(it.t), lambda k: SStr(z3.SubString(it.t, k, 1)))
    if isinstance(it, SBytes):
        return (z3.Length(it.t), lambda k: SInt(z3.StrToCode(z3.SubString(it.t, k, 1))))
    if isinstance(it, Sym):
        raise raise_(ip, TypeError, f"{type(it).__name__} object is not iterable")
    if it is None:
        raise raise_(ip, TypeError, "'NoneType' object is not iterable")
    if isinstance(it, types.GeneratorType):
        return list(it)
    try:
        return list(it)
    except TypeError as e:
        raise PyRaise(e) from None


def unpack(ip: Any, v: Any, n: int, starred: bool) -> list[Any]:
    if isinstance(v, (tuple, list)):
        if len(v) != n:
            raise raise_(ip, ValueError, f"not enough/too many values to unpack (expected {n}, got {len(v)})")
        return list(v)
    if isinstance(v, SList):
        if not ip.S.fork(SBool(v.length == n)):
            raise raise_(ip, ValueError, f"wrong number of values to unpack (expected {n})")
        return [v.get(i) for i in range(n)]
    seq = iteration(ip, v)
    if isinstance(seq, list):
        return unpack(ip, seq, n, starred)
    raise Unsupported(f"unpacking of {v!r}")


# ======================================================================================
# operators
# ======================================================================================

_BIN = {
    ast.Add: operator.add, ast.Sub: operator.sub, ast.Mult: operator.mul, ast.FloorDiv: operator.floordiv,
    ast.Mod: operator.mod, ast.Pow: operator.pow, ast.Div: operator.truediv, ast.BitAnd: operator.and_,
    ast.BitOr: operator.or_, ast.BitXor: operator.xor, ast.LShift: operator.lshift, ast.RShift: operator.rshift,
    ast.MatMult: operator.matmul,
}  # fmt: skip


def floordiv(a: Any, b: Any) -> Any:
    """Python floor division on z3 Ints (z3 ``/`` on Int is Euclidean)."""
    q = a / b
    r = a % b
    return z3.If(b > 0, q, z3.If(r == 0, q, q - 1))


def pymod(a: Any, b: Any) -> Any:
    return a - b * floordiv(a, b)


POW2 = z3.Function("pow2", z3.IntSort(), z3.IntSort())


def binop(ip: Any, op: ast.operator, a: Any, b: Any) -> Any:
    S = ip.S
    if not V.contains_sym(a) and not V.contains_sym(b):
        try:
            return _BIN[type(op)](a, b)
        except Exception as e:
            raise PyRaise(e) from None
    fa, fb = isinstance(a, (SFloat, float)), isinstance(b, (SFloat, float))
    if (fa or fb) and isinstance(a, (SFloat, float, SInt, int, SBool)) and isinstance(b, (SFloat, float, SInt, int, SBool)):
        return float_binop(ip, op, a, b)
    if V.is_intlike(a) and V.is_intlike(b):
        x, y = _I(a), _I(b)
        if isinstance(op, ast.Add):
            return SInt(x + y)
        if isinstance(op, ast.Sub):
            return SInt(x - y)
        if isinstance(op, ast.Mult):
            return SInt(x * y)
        if isinstance(op, (ast.FloorDiv, ast.Mod)):
            if not S.fork(SBool(y != 0)):
                raise raise_(ip, ZeroDivisionError, "integer division or modulo by zero")
            return SInt(floordiv(x, y)) if isinstance(op, ast.FloorDiv) else SInt(pymod(x, y))
        if isinstance(op, ast.Div):
            if not S.fork(SBool(y != 0)):
                raise raise_(ip, ZeroDivisionError, "division by zero")
            return SFloat(z3.fpDiv(V.RNE, V.floatterm(a), V.floatterm(b)))
        if isinstance(op, ast.Pow):
            if isinstance(b, int) and not isinstance(b, bool) and 0 <= b <= 8:
                r = z3.IntVal(1)
                for _ in range(b):
                    r = r * x
                return SInt(r)
            if a == 2 and isinstance(b, SInt):
                # 2 ** n for symbolic n >= 0: uninterpreted pow2 with the facts used (monotone, >= 1)
                if not S.fork(SBool(y >= 0)):
                    return SFloat(z3.FP(S.fresh_name("pow2neg"), V.FP64))
                S.assume(POW2(y) >= 1)
                S.assume(z3.Implies(y == 0, POW2(y) == 1))
                # monotonicity of 2**n against the binary64 exponent range (int -> float conversion)
                S.assume(z3.Implies(y <= 1023, POW2(y) <= 2**1023))
                S.assume(z3.Implies(y >= 1024, POW2(y) >= 2**1024))
                S.note("2**n for symbolic n encoded as uninterpreted pow2(n) with pow2(n)>=1")
                return SInt(POW2(y))
            raise Unsupported("integer power with symbolic operands")
        if isinstance(op, ast.LShift) and isinstance(b, int):
            return SInt(x * (2**b))
        if isinstance(op, ast.RShift) and isinstance(b, int):
            return SInt(floordiv(x, z3.IntVal(2**b)))
        raise Unsupported(f"integer operator {type(op).__name__} on symbolic values")
    if isinstance(a, (SStr, str)) and isinstance(b, (SStr, str)) and isinstance(op, ast.Add):
        return SStr(z3.Concat(V.strterm(a), V.strterm(b)))
    if isinstance(a, (SBytes, bytes, bytearray)) and isinstance(b, (SBytes, bytes, bytearray)) and isinstance(op, ast.Add):
        return SBytes(z3.Concat(V.bytesterm(a), V.bytesterm(b)))
    if isinstance(op, ast.Mult) and isinstance(a, (SStr, SBytes)) and isinstance(b, int):
        t = z3.StringVal("")
        for _ in range(max(b, 0)):
            t = z3.Concat(t, a.t)
        return type(a)(t)
    if isinstance(op, ast.Mult) and isinstance(a, (SStr, SBytes, str, bytes)) and isinstance(b, SInt):
        # s * n for a symbolic count: uninterpreted repeat(s, n) with its length; for a concrete
        # one-character s the result is pinned completely (a run of that character of length max(n, 0))
        st = _tt(a)
        r = STR_REPEAT(st, b.t)
        S.assume(z3.Length(r) == z3.Length(st) * z3.If(b.t > 0, b.t, z3.IntVal(0)))
        if isinstance(a, (str, bytes)) and len(a) == 1:
            S.assume(z3.InRe(r, z3.Star(z3.Re(st))))
        else:
            S.note("s * n with symbolic n: only the length of the result is modelled")
        return (SBytes if isinstance(a, (SBytes, bytes)) else SStr)(r)
    if isinstance(op, ast.Add) and isinstance(a, (list, tuple)) and type(a) is type(b):
        return a + b
    if isinstance(op, ast.Add) and isinstance(a, (list, SList)) and isinstance(b, (list, SList)):
        la, lb = V.as_slist(a).snapshot(), V.as_slist(b).snapshot()
        return SList(la.shape, lambda j: V.ite(SBool(j < la.length), la.getf(j), lb.getf(j - la.length)), la.length + lb.length)
    if isinstance(op, ast.Mod) and isinstance(a, str):
        args = b if isinstance(b, tuple) else (b,)
        return percent_format(ip, a, args)
    if isinstance(op, ast.BitOr) and isinstance(a, dict) and isinstance(b, dict):
        return {**a, **b}
    if isinstance(op, (ast.Sub, ast.BitOr, ast.BitAnd)) and (isinstance(a, SSet) or isinstance(b, SSet)) and isinstance(a, (SSet, set, frozenset)) and isinstance(b, (SSet, set, frozenset)):
        x, y = to_sset(ip, a), to_sset(ip, b)
        return x.diff(y) if isinstance(op, ast.Sub) else (x.union(y) if isinstance(op, ast.BitOr) else x.inter(y))
    if isinstance(op, ast.Add) and (isinstance(a, (SStr, str)) != isinstance(b, (SStr, str))):
        raise raise_(ip, TypeError, "can only concatenate str to str")
    if isinstance(a, SObj) or isinstance(b, SObj):
        # abstract objects: binary operators by contract ("Kind.__sub__" / reflected "Kind.__rsub__")
        nm = {ast.Add: "add", ast.Sub: "sub", ast.Mult: "mul", ast.Div: "truediv", ast.FloorDiv: "floordiv", ast.Mod: "mod"}.get(type(op))
        for o, other, dunder in ((a, b, f"__{nm}__"), (b, a, f"__r{nm}__")):
            h = S.handlers.get(f"{o.kind}.{dunder}") if nm and isinstance(o, SObj) else None
            if h is not None:
                return h(S, o, other)
    raise Unsupported(f"operator {type(op).__name__} on {type(a).__name__}, {type(b).__name__}")


_DBL_OVERFLOW = 2**1024 - 2**970  # smallest int whose round-to-nearest-even conversion leaves binary64


def int_to_float(ip: Any, x: Any) -> Any:
    """CPython int -> float (PyLong_AsDouble) for a symbolic int: OverflowError when the correctly
    rounded value is not finite.  z3 does not decide ``to_fp`` of a non-constant Real, so the result is
    a fresh binary64 constant (one per int term and path) constrained by facts of correct rounding
    (finite; 0 -> +0.0; monotone against the exactly representable 0, +-1, +-2**1023).  The int side is
    decided by forks so that the float facts stay free of Int terms (pure FloatingPoint queries are
    bit-blasted; mixed ones are an order of magnitude slower).  Sound over-approximation: counter-models
    are replayed natively.  Returns a z3 FP term."""
    if not isinstance(x, SInt):
        return V.floatterm(x)
    S, t = ip.S, x.t
    cache = S.ghost.setdefault("__float_of_int__", {})
    if t.get_id() in cache:
        return cache[t.get_id()]
    if not S.fork(SBool(z3.And(t < _DBL_OVERFLOW, t > -_DBL_OVERFLOW))):
        raise raise_(ip, OverflowError, "int too large to convert to float")
    f = z3.FP(S.fresh_name("float_of_int"), V.FP64)
    one, big = z3.FPVal(1.0, V.FP64), z3.FPVal(2.0**1023, V.FP64)
    S.assume(z3.And(z3.Not(z3.fpIsNaN(f)), z3.Not(z3.fpIsInf(f))))
    if S.fork(SBool(t >= 1)):
        S.assume(z3.fpGEQ(f, one))
        if S.fork(SBool(t <= 2**1023)):
            S.assume(z3.fpLEQ(f, big))
    elif S.fork(SBool(t <= -1)):
        S.assume(z3.fpLEQ(f, z3.fpNeg(one)))
        if S.fork(SBool(t >= -(2**1023))):
            S.assume(z3.fpGEQ(f, z3.fpNeg(big)))
    else:
        S.assume(z3.And(z3.fpIsZero(f), z3.fpIsPositive(f)))
    S.note("float(int) for a symbolic int: fresh binary64 value with finiteness/sign/monotonicity facts; OverflowError beyond the binary64 range")
    cache[t.get_id()] = f
    return f


def float_binop(ip: Any, op: ast.operator, a: Any, b: Any) -> Any:
    x, y = int_to_float(ip, a), int_to_float(ip, b)
    if isinstance(op, ast.Add):
        return SFloat(z3.fpAdd(V.RNE, x, y))
    if isinstance(op, ast.Sub):
        return SFloat(z3.fpSub(V.RNE, x, y))
    if isinstance(op, ast.Mult):
        return SFloat(z3.fpMul(V.RNE, x, y))
    if isinstance(op, ast.Div):
        if not ip.S.fork(SBool(z3.Not(z3.fpIsZero(y)))):
            raise raise_(ip, ZeroDivisionError, "float division by zero")
        return SFloat(z3.fpDiv(V.RNE, x, y))
    raise Unsupported(f"float operator {type(op).__name__}")


def unaryop(ip: Any, op: ast.unaryop, v: Any) -> Any:
    if isinstance(op, ast.Not):
        t = V.truth(v)
        return (not t) if isinstance(t, bool) else V.Not(t)
    if not V.contains_sym(v):
        try:
            return {ast.USub: operator.neg, ast.UAdd: operator.pos, ast.Invert: operator.invert}[type(op)](v)
        except Exception as e:
            raise PyRaise(e) from None
    if isinstance(op, ast.USub):
        if isinstance(v, SFloat):
            return SFloat(z3.fpNeg(v.t))
        return SInt(-_I(v))
    if isinstance(op, ast.UAdd):
        return v
    raise Unsupported(f"unary {type(op).__name__}")


def compare(ip: Any, op: ast.cmpop, a: Any, b: Any) -> Any:
    if isinstance(op, ast.Is):
        return identical(a, b)
    if isinstance(op, ast.IsNot):
        r = identical(a, b)
        return (not r) if isinstance(r, bool) else V.Not(r)
    if isinstance(op, ast.Eq):
        return pyeq(ip, a, b)
    if isinstance(op, ast.NotEq):
        r = pyeq(ip, a, b)
        return (not r) if isinstance(r, bool) else V.Not(r)
    if isinstance(op, ast.In):
        return contains(ip, b, a)
    if isinstance(op, ast.NotIn):
        r = contains(ip, b, a)
        return (not r) if isinstance(r, bool) else V.Not(r)
    if not V.contains_sym(a) and not V.contains_sym(b):
        try:
            return {ast.Lt: operator.lt, ast.LtE: operator.le, ast.Gt: operator.gt, ast.GtE: operator.ge}[type(op)](a, b)
        except Exception as e:
            raise PyRaise(e) from None
    if isinstance(a, (SFloat, float)) or isinstance(b, (SFloat, float)):
        if not isinstance(a, (SFloat, float, SInt, int, SBool)) or not isinstance(b, (SFloat, float, SInt, int, SBool)):
            raise raise_(ip, TypeError, "'<' not supported between these types")
        x, y = V.floatterm(a), V.floatterm(b)
        f = {ast.Lt: z3.fpLT, ast.LtE: z3.fpLEQ, ast.Gt: z3.fpGT, ast.GtE: z3.fpGEQ}[type(op)]
        return SBool(f(x, y))
    if V.is_intlike(a) and V.is_intlike(b):
        x, y = _I(a), _I(b)
        return SBool({ast.Lt: x < y, ast.LtE: x <= y, ast.Gt: x > y, ast.GtE: x >= y}[type(op)])
    if isinstance(a, (SStr, str)) and isinstance(b, (SStr, str)) or isinstance(a, (SBytes, bytes)) and isinstance(b, (SBytes, bytes)):
        x = V.strterm(a) if isinstance(a, (SStr, str)) else V.bytesterm(a)
        y = V.strterm(b) if isinstance(b, (SStr, str)) else V.bytesterm(b)
        return SBool({ast.Lt: x < y, ast.LtE: x <= y, ast.Gt: y < x, ast.GtE: y <= x}[type(op)])
    if isinstance(a, tuple) and isinstance(b, tuple) and len(a) == len(b) and len(a) > 0:
        # lexicographic
        strict = type(op) in (ast.Lt, ast.Gt)
        lt = ast.Lt() if type(op) in (ast.Lt, ast.LtE) else ast.Gt()
        res: Any = (not strict)
        for x, y in reversed(list(zip(a, b))):
            e = V.eq(x, y)
            l = compare(ip, lt, x, y)
            res = V.Or(l, V.And(e, res))
        return res
    if a is None or b is None or isinstance(a, (SObj, SExc, SOpaque)) or isinstance(b, (SObj, SExc, SOpaque)):
        raise raise_(ip, TypeError, f"ordering not supported between {kindname(a)} and {kindname(b)}")
    if (isinstance(a, (SStr, str)) and V.is_intlike(b)) or (V.is_intlike(a) and isinstance(b, (SStr, str))):
        raise raise_(ip, TypeError, "ordering not supported between str and int")
    raise Unsupported(f"comparison {type(op).__name__} on {a!r}, {b!r}")


def kindname(v: Any) -> str:
    return {SInt: "int", SBool: "bool", SStr: "str", SBytes: "bytes", SFloat: "float", SList: "list", SMap: "dict"}.get(type(v), type(v).__name__)


IS_NONE: dict[str, Any] = {}


def identical(a: Any, b: Any) -> Any:
    if a is b:
        return True
    # an opaque Python value of a nullable kind ("Kind?") may be None
    for x, y in ((a, b), (b, a)):
        if isinstance(x, SOpaque) and x.kind.endswith("?") and y is None:
            f = IS_NONE.setdefault(x.kind, z3.Function(f"is_none_{x.kind[:-1]}", V.opaque_sort(x.kind), z3.BoolSort()))
            return SBool(f(x.t))
    if isinstance(a, (Sym, SList, SMap, SObj, SExc)) or isinstance(b, (Sym, SList, SMap, SObj, SExc)):
        if a is None or b is None or isinstance(a, type) or isinstance(b, type):
            return False
        if isinstance(a, (SObj, SExc, SList, SMap)) or isinstance(b, (SObj, SExc, SList, SMap)):
            return False
        if isinstance(a, (SBool, bool)) and isinstance(b, (SBool, bool)):
            raise Unsupported("`is` between symbolic booleans (use a fork)")
        raise Unsupported(f"`is` on symbolic scalar values {a!r} / {b!r}")
    return a is b


def pyeq(ip: Any, a: Any, b: Any) -> Any:
    if not V.contains_sym(a) and not V.contains_sym(b):
        try:
            return a == b
        except Exception as e:
            raise PyRaise(e) from None
    if isinstance(a, SObj) or isinstance(b, SObj):
        for o, other in ((a, b), (b, a)):
            if isinstance(o, SObj):
                h = ip.S.handlers.get(f"{o.kind}.__eq__")
                if h is not None:
                    return h(ip.S, o, other)
        if isinstance(a, SObj) and isinstance(b, SObj) and a.cls is b.cls and getattr(a.cls, "__dataclass_fields__", None):
            return V.And(*[V.eq(a.fields[f], b.fields[f]) for f in a.cls.__dataclass_fields__ if f in a.fields and f in b.fields])
        return a is b
    if isinstance(a, dict) and isinstance(b, dict):
        if set(a.keys()) != set(b.keys()):
            return False
        return V.And(*[pyeq_s(ip, a[k], b[k]) for k in a])
    r = V._eq(a, b)
    return r


def pyeq_s(ip: Any, a: Any, b: Any) -> SBool:
    r = pyeq(ip, a, b)
    return r if isinstance(r, SBool) else SBool(z3.BoolVal(bool(r)))


def contains(ip: Any, container: Any, item: Any) -> Any:
    if not V.contains_sym(container) and not V.contains_sym(item):
        try:
            return item in container
        except Exception as e:
            raise PyRaise(e) from None
    if isinstance(container, (SStr, str)) and isinstance(item, (SStr, str)):
        return SBool(z3.Contains(V.strterm(container), V.strterm(item)))
    if isinstance(container, (SBytes, bytes)) and isinstance(item, (SBytes, bytes)):
        return SBool(z3.Contains(V.bytesterm(container), V.bytesterm(item)))
    if isinstance(container, (SBytes, bytes)) and V.is_intlike(item):
        return SBool(z3.Contains(V.bytesterm(container), z3.StrFromCode(_I(item))))
    if isinstance(container, (list, tuple, set, frozenset)):
        rs = [pyeq(ip, item, x) for x in container]
        if any(r is True for r in rs):
            return True
        rs = [r for r in rs if r is not False]
        return V.Or(*rs) if rs else False
    if isinstance(container, dict):
        return contains(ip, list(container.keys()), item)
    if isinstance(container, type({}.keys())):
        return contains(ip, list(container), item)
    if isinstance(container, SMap):
        return container.has(item)
    if isinstance(container, SODict):
        return container.has(item)
    if isinstance(container, SSet):
        return container.has(item)
    if isinstance(container, SList):
        c = container.snapshot()
        return V.ExistsInt(lambda i: V.And(i >= 0, SBool(i.t < c.length), V.eq(c.get(i), item)))
    if isinstance(container, SObj):
        h = ip.S.handlers.get(f"{container.kind}.__contains__")
        if h is not None:
            return h(ip.S, container, item)
    if isinstance(container, (SStr, str)):
        raise raise_(ip, TypeError, "'in <string>' requires string as left operand")
    raise Unsupported(f"`in` on {container!r}")


# ======================================================================================
# subscripts
# ======================================================================================


def norm_index(ip: Any, i: Any, length: Any, what: str) -> Any:
    """Bounds-check a (possibly negative) index; returns the effective z3 index term."""
    it = _I(i)
    ok = z3.And(it >= -length, it < length)
    if not ip.S.fork(SBool(ok)):
        raise raise_(ip, IndexError, f"{what} index out of range")
    if isinstance(i, int) and i >= 0:
        return it
    return z3.If(it < 0, it + length, it)


def clamp_slice(sl: slice, length: Any) -> tuple[Any, Any]:
    if sl.step is not None and sl.step != 1:
        raise Unsupported("slice step")

    def clamp(v: Any, default: Any) -> Any:
        if v is None:
            return default
        t = _I(v)
        if isinstance(v, int) and v >= 0:
            return z3.If(t > length, length, t)
        return z3.If(t < 0, z3.If(t + length < 0, z3.IntVal(0), t + length), z3.If(t > length, length, t))

    lo = clamp(sl.start, z3.IntVal(0))
    hi = clamp(sl.stop, length)
    return lo, hi


def subscript(ip: Any, obj: Any, idx: Any) -> Any:
    S = ip.S
    if isinstance(obj, (SStr, SBytes)) or (isinstance(obj, (str, bytes)) and V.contains_sym(idx)):
        isb = isinstance(obj, (SBytes, bytes))
        t = V.bytesterm(obj) if isb else V.strterm(obj)
        n = z3.Length(t)
        if isinstance(idx, slice):
            lo, hi = clamp_slice(idx, n)
            r = z3.If(hi > lo, z3.SubString(t, lo, hi - lo), z3.StringVal(""))
            return SBytes(r) if isb else SStr(r)
        if not V.is_intlike(idx):
            raise raise_(ip, TypeError, "string indices must be integers")
        k = norm_index(ip, idx, n, "string")
        ch = z3.SubString(t, k, 1)
        return SInt(z3.StrToCode(ch)) if isb else SStr(ch)
    if isinstance(obj, SList):
        if isinstance(idx, slice):
            lo, hi = clamp_slice(idx, obj.length)
            old = obj.getf
            return SList(obj.shape, lambda j: old(j + lo), z3.If(hi > lo, hi - lo, z3.IntVal(0)))
        k = norm_index(ip, idx, obj.length, "list")
        return obj.getf(k)
    import enum as _enum

    if isinstance(obj, type) and issubclass(obj, _enum.Enum) and isinstance(idx, SStr):
        # EnumClass[name] with a symbolic name: the member of that name (aliases included), else KeyError
        for nm, member in obj.__members__.items():
            if S.fork(V.eq(idx, nm)):
                return member
        raise raise_(ip, KeyError, idx)
    if isinstance(obj, SMap):
        if not S.fork(obj.has(idx)):
            raise raise_(ip, KeyError, idx)
        return obj.val(idx)
    if isinstance(obj, SODict):
        if not S.fork(obj.has(idx)):
            raise raise_(ip, KeyError, idx)
        return obj.val(obj.index_of(idx))
    if isinstance(obj, SObj):
        h = S.handlers.get(f"{obj.kind}.__getitem__")
        if h is not None:
            return h(S, obj, idx)
        raise Unsupported(f"subscript of {obj!r}")
    if isinstance(obj, SOpaque) and S.handlers.get(f"{obj.kind}.__getitem__") is not None:
        return S.handlers[f"{obj.kind}.__getitem__"](S, obj, idx)
    if isinstance(obj, (list, tuple)) and isinstance(idx, SInt):
        n = len(obj)
        k = norm_index(ip, idx, z3.IntVal(n), "list")
        if n == 0:
            raise Unsupported("unreachable")
        v = obj[n - 1]
        for j in range(n - 2, -1, -1):
            v = V.ite(SBool(k == j), obj[j], v)
        return v
    if isinstance(obj, dict) and (isinstance(idx, Sym) or (isinstance(idx, tuple) and V.contains_sym(idx))):
        cands = [(k, v) for k, v in obj.items() if V._eq(idx, k) is not False]
        hit = V.Or(*[V.eq(idx, k) for k, _ in cands]) if cands else False
        if not S.fork(hit):
            raise raise_(ip, KeyError, idx)
        v = cands[-1][1]
        for k, x in reversed(cands[:-1]):
            v = merge_or_fork(ip, V.eq(idx, k), x, v)
        return v
    if isinstance(obj, (Sym,)):
        raise raise_(ip, TypeError, f"'{kindname(obj)}' object is not subscriptable")
    if obj is None:
        raise raise_(ip, TypeError, "'NoneType' object is not subscriptable")
    if isinstance(idx, slice) and V.contains_sym([idx.start, idx.stop]):
        if isinstance(obj, (list, tuple)):
            return subscript(ip, V.as_slist(obj), idx)
    if V.contains_sym(idx):
        raise Unsupported(f"symbolic subscript {idx!r} of {type(obj).__name__}")
    try:
        return obj[idx]
    except Exception as e:
        raise PyRaise(e) from None


def merge_or_fork(ip: Any, c: SBool, a: Any, b: Any) -> Any:
    try:
        return V.ite(c, a, b)
    except Unsupported:
        return a if ip.S.fork(c) else b


def store_subscript(ip: Any, obj: Any, idx: Any, v: Any) -> None:
    if isinstance(obj, SList):
        k = norm_index(ip, idx, obj.length, "list assignment")
        obj.set_at(k, v)
        return
    if isinstance(obj, SMap):
        obj.store(idx, v)
        return
    if isinstance(obj, SODict):
        odict_store(ip, obj, idx, v)
        return
    if isinstance(obj, SObj):
        h = ip.S.handlers.get(f"{obj.kind}.__setitem__")
        if h is not None:
            h(ip.S, obj, idx, v)
            return
        raise Unsupported(f"item assignment on {obj!r}")
    if isinstance(obj, list) and isinstance(idx, SInt):
        raise Unsupported("symbolic index store into a concrete list")
    if isinstance(obj, dict) and (isinstance(idx, Sym) or (isinstance(idx, tuple) and V.contains_sym(idx)) or (not V.contains_sym(idx) and any(isinstance(k, Sym) for k in obj))):
        # dict of concrete cardinality with symbolic scalar keys, or tuples of such (held by identity): the store overwrites the
        # first existing key equal to `idx` (one fork per key that may be equal), else inserts a new key
        for k in list(obj):
            c = V._eq(idx, k)
            if c is True or (c is not False and ip.S.fork(c)):
                obj[k] = v
                return
        obj[idx] = v
        return
    if isinstance(obj, dict) and V.contains_sym(idx):
        raise Unsupported("symbolic key store into a concrete dict (model it as SMap)")
    if isinstance(obj, (Sym, tuple, str, bytes)) or obj is None:
        raise raise_(ip, TypeError, f"'{kindname(obj)}' object does not support item assignment")
    try:
        obj[idx] = v
    except Exception as e:
        raise PyRaise(e) from None


def del_subscript(ip: Any, obj: Any, idx: Any) -> None:
    if isinstance(obj, SMap):
        if not ip.S.fork(obj.has(idx)):
            raise raise_(ip, KeyError, idx)
        obj.delete(idx)
        return
    if isinstance(obj, SList):
        k = norm_index(ip, idx, obj.length, "list assignment")
        obj.pop_at(k)
        return
    if isinstance(obj, SODict):
        if not ip.S.fork(obj.has(idx)):
            raise raise_(ip, KeyError, idx)
        obj.items.pop_at(obj.index_of(idx))
        return
    if isinstance(obj, SObj):
        h = ip.S.handlers.get(f"{obj.kind}.__delitem__")
        if h is not None:
            h(ip.S, obj, idx)
            return
    if isinstance(obj, dict) and (isinstance(idx, Sym) or (isinstance(idx, tuple) and V.contains_sym(idx))):
        # dict of concrete cardinality with symbolic keys (same model as store_subscript): delete the first key equal to `idx`
        for k in list(obj):
            c = V._eq(idx, k)
            if c is True or (c is not False and ip.S.fork(c)):
                del obj[k]
                return
        raise raise_(ip, KeyError, idx)
    if V.contains_sym(idx):
        raise Unsupported("del with symbolic key on concrete container")
    try:
        del obj[idx]
    except Exception as e:
        raise PyRaise(e) from None


# ======================================================================================
# strings: formatting
# ======================================================================================

PY_REPR_STR = z3.Function("py_repr_str", z3.StringSort(), z3.StringSort())
PY_REPR_BYTES = z3.Function("py_repr_bytes", z3.StringSort(), z3.StringSort())
PY_STR_FLOAT = z3.Function("py_str_float", V.FP64, z3.StringSort())
PY_STR_OPAQUE: dict[str, Any] = {}


def int_to_str(t: Any) -> Any:
    return z3.If(t < 0, z3.Concat(z3.StringVal("-"), z3.IntToStr(-t)), z3.IntToStr(t))


def to_str(ip: Any, v: Any) -> Any:
    """Python ``str(v)``."""
    if isinstance(v, SStr):
        return v
    if isinstance(v, SBool):
        return SStr(z3.If(v.t, z3.StringVal("True"), z3.StringVal("False")))
    if isinstance(v, SInt):
        return SStr(int_to_str(v.t))
    if isinstance(v, SBytes):
        return SStr(PY_REPR_BYTES(v.t))
    if isinstance(v, SFloat):
        return SStr(PY_STR_FLOAT(v.t))
    if isinstance(v, SOpaque):
        f = PY_STR_OPAQUE.setdefault(v.kind, z3.Function(f"py_str_{v.kind}", V.opaque_sort(v.kind), z3.StringSort()))
        return SStr(f(v.t))
    if isinstance(v, SExc):
        h = ip.S.handlers.get(f"{v.cls.__name__}.__str__")
        if h is not None:
            return h(ip.S, v)
        if len(v.args) == 0:
            return ""
        if len(v.args) == 1:
            if v.cls is KeyError or issubclass(v.cls, KeyError):
                return to_repr(ip, v.args[0])
            return to_str(ip, v.args[0])
        return to_repr(ip, v.args)
    if isinstance(v, SObj):
        h = ip.S.handlers.get(f"{v.kind}.__str__")
        if h is not None:
            return h(ip.S, v)
        raise Unsupported(f"str() of {v!r}")
    if isinstance(v, (tuple, list, dict)) and V.contains_sym(v):
        return to_repr(ip, v)
    if isinstance(v, (SList, SMap)):
        raise Unsupported("str() of a symbolic container")
    return str(v)


def to_repr(ip: Any, v: Any) -> Any:
    if isinstance(v, SStr):
        return SStr(PY_REPR_STR(v.t))
    if isinstance(v, (SInt, SBool, SFloat, SBytes, SOpaque)):
        return to_str(ip, v)
    if isinstance(v, (tuple, list)) and V.contains_sym(v):
        inner = []
        for i, x in enumerate(v):
            if i:
                inner.append(", ")
            inner.append(to_repr(ip, x))
        if isinstance(v, tuple):
            return concat_str(["("] + inner + ([",)"] if len(v) == 1 else [")"]))
        return concat_str(["["] + inner + ["]"])
    if isinstance(v, dict) and V.contains_sym(v):
        inner = []
        for i, (k, x) in enumerate(v.items()):
            if i:
                inner.append(", ")
            inner += [to_repr(ip, k), ": ", to_repr(ip, x)]
        return concat_str(["{"] + inner + ["}"])
    if isinstance(v, SExc):
        return concat_str([v.cls.__name__, "("] + [to_repr(ip, a) for a in v.args] + [")"])
    if V.contains_sym(v):
        raise Unsupported(f"repr() of {v!r}")
    return repr(v)


def concat_str(parts: list[Any]) -> Any:
    if all(isinstance(p, str) for p in parts):
        return "".join(parts)
    ts = [V.strterm(p) for p in parts if not (isinstance(p, str) and p == "")]
    if not ts:
        return ""
    return SStr(z3.Concat(*ts)) if len(ts) > 1 else SStr(ts[0])


def format_value(ip: Any, v: Any, conversion: int, spec: Any) -> Any:
    if conversion == ord("r"):
        r = to_repr(ip, v)
    elif conversion == ord("s"):
        r = to_str(ip, v)
    elif conversion == ord("a"):
        r = to_repr(ip, v)
    else:
        r = None
    if spec not in ("", None):
        if V.contains_sym(v) or V.contains_sym(spec):
            # formatted numbers inside messages: opaque text (never inspected by contracts)
            ip.S.note("format specs on symbolic values rendered as an opaque string")
            return SStr(z3.String(ip.S.fresh_name("fmt")))
        return format(v if r is None else r, spec)
    if r is not None:
        return r
    if V.contains_sym(v) or isinstance(v, (SObj, SExc)):
        return to_str(ip, v)
    return format(v, "")


def percent_format(ip: Any, fmt: str, args: tuple[Any, ...]) -> Any:
    if not V.contains_sym(args):
        return fmt % args
    import re

    parts: list[Any] = []
    pos = 0
    ai = 0
    for m in re.finditer(r"%(?:([sdr%])|[-0-9.]*[dfsxX])", fmt):
        parts.append(fmt[pos : m.start()])
        pos = m.end()
        if m.group(0) == "%%":
            parts.append("%")
            continue
        a = args[ai]
        ai += 1
        if m.group(1) == "s" or (m.group(1) == "d" and isinstance(a, (SInt, int))):
            parts.append(to_str(ip, a))
        elif m.group(1) == "r":
            parts.append(to_repr(ip, a))
        else:
            parts.append(SStr(z3.String(ip.S.fresh_name("fmt"))))
    parts.append(fmt[pos:])
    return concat_str(parts)


# ======================================================================================
# builtins
# ======================================================================================


def b_len(ip: Any, x: Any) -> Any:
    if isinstance(x, (SStr, SBytes)):
        return SInt(z3.Length(x.t))
    if isinstance(x, SList):
        return SInt(x.length)
    if isinstance(x, SMap):
        return SInt(x.size)
    if isinstance(x, SymIter):
        return SInt(x.length)
    if isinstance(x, SODict):
        return SInt(x.length)
    if isinstance(x, SObj):
        h = ip.S.handlers.get(f"{x.kind}.__len__")
        if h is not None:
            return h(ip.S, x)
        raise Unsupported(f"len() of {x!r}")
    if isinstance(x, SOpaque) and ip.S.handlers.get(f"{x.kind}.__len__") is not None:
        return ip.S.handlers[f"{x.kind}.__len__"](ip.S, x)
    if isinstance(x, Sym) or x is None:
        raise raise_(ip, TypeError, f"object of type '{kindname(x)}' has no len()")
    try:
        return len(x)
    except Exception as e:
        raise PyRaise(e) from None


def is_ascii_int_literal(t: Any) -> Any:
    """CPython ``int(str)`` accepts optional whitespace/sign/underscores and any Unicode
    decimal digits; this predicate is the ASCII-digit core  [0-9]+  (no sign)."""
    digit = z3.Range(z3.StringVal("0"), z3.StringVal("9"))
    return z3.InRe(t, z3.Plus(digit))


PY_INT_OF_STR = z3.Function("py_int_of_str", z3.StringSort(), z3.IntSort())
PY_INT_OK = z3.Function("py_int_parses", z3.StringSort(), z3.BoolSort())


def b_int(ip: Any, x: Any = 0, base: Any = 10) -> Any:
    S = ip.S
    if not V.contains_sym(x):
        try:
            return int(x, base) if base != 10 else int(x)
        except Exception as e:
            raise PyRaise(e) from None
    if isinstance(x, (SInt,)):
        return x
    if isinstance(x, SBool):
        return SInt(_I(x))
    if isinstance(x, (SStr, SBytes)):
        if base != 10:
            raise Unsupported("int(str, base)")
        t = x.t
        if S.fork(SBool(is_ascii_int_literal(t))):
            r = z3.StrToInt(t)
            # facts of decimal notation the string solvers do not derive on their own
            S.assume(r >= 0)
            nz = z3.Range(z3.StringVal("1"), z3.StringVal("9"))
            dg = z3.Range(z3.StringVal("0"), z3.StringVal("9"))
            canonical = z3.Union(z3.Re(z3.StringVal("0")), z3.Concat(nz, z3.Star(dg)))
            S.assume(z3.Implies(z3.InRe(t, canonical), z3.IntToStr(r) == t))
            return SInt(r)
        # outside the ASCII-digit core CPython may still parse (sign, whitespace, '_',
        # non-ASCII digits): uninterpreted, closed by native replay of every model
        if S.fork(SBool(PY_INT_OK(t))):
            S.note("int(str) outside [0-9]+ is uninterpreted (CPython accepts sign/space/_/Unicode digits); models are replayed natively")
            return SInt(PY_INT_OF_STR(t))
        raise raise_(ip, ValueError, "invalid literal for int() with base 10")
    if isinstance(x, SFloat):
        # CPython: NaN -> ValueError, +-inf -> OverflowError, otherwise truncation toward zero (exact: every finite
        # binary64 is a rational, so the real-valued view loses nothing)
        if S.fork(SBool(z3.fpIsNaN(x.t))):
            raise raise_(ip, ValueError, "cannot convert float NaN to integer")
        if S.fork(SBool(z3.fpIsInf(x.t))):
            raise raise_(ip, OverflowError, "cannot convert float infinity to integer")
        r = z3.fpToReal(x.t)
        return SInt(z3.If(r >= 0, z3.ToInt(r), -z3.ToInt(-r)))
    raise raise_(ip, TypeError, "int() argument must be a string, a bytes-like object or a real number")


def b_checksum(name: str) -> Any:
    """zlib.crc32 / zlib.adler32 / binascii.crc32 on symbolic bytes: a deterministic function into [0, 2**32) about
    which nothing else is known - in particular it is NOT injective (4 bytes of output)."""

    def f(ip: Any, data: Any, *start: Any) -> Any:
        if not V.contains_sym(data) and not V.contains_sym(start):
            import binascii
            import zlib

            return {"crc32": zlib.crc32, "adler32": zlib.adler32, "b_crc32": binascii.crc32}[name](data, *start)
        if start:
            raise Unsupported(f"{name} with a running value")
        fn = z3.Function(f"py_{name}", z3.StringSort(), z3.IntSort())
        r = fn(V.bytesterm(data))
        ip.S.assume(z3.And(r >= 0, r < 2**32))
        return SInt(r)

    return f


def b_str(ip: Any, x: Any = "", *a: Any) -> Any:
    if a:
        if isinstance(x, (SBytes, bytes)):
            return call_sym_method(ip, x if isinstance(x, SBytes) else SBytes(V.bytesterm(x)), "decode", list(a), {})
        raise Unsupported("str(x, encoding)")
    return to_str(ip, x)


def b_repr(ip: Any, x: Any) -> Any:
    return to_repr(ip, x)


def b_bool(ip: Any, x: Any = False) -> Any:
    return V.truth(x)


def b_float(ip: Any, x: Any = 0.0) -> Any:
    if not V.contains_sym(x):
        try:
            return float(x)
        except Exception as e:
            raise PyRaise(e) from None
    if isinstance(x, SFloat):
        return x
    if isinstance(x, (SInt, SBool)):
        return SFloat(int_to_float(ip, x if isinstance(x, SInt) else SInt(_I(x))))
    if isinstance(x, SStr):
        # float(str): any double or ValueError (contents not interpreted)
        if ip.S.fork(SBool(z3.Bool(ip.S.fresh_name("float_parses")))):
            return SFloat(z3.FP(ip.S.fresh_name("float_of_str"), V.FP64))
        raise raise_(ip, ValueError, "could not convert string to float")
    raise raise_(ip, TypeError, "float() argument must be a string or a real number")


def b_abs(ip: Any, x: Any) -> Any:
    if isinstance(x, SInt):
        return SInt(z3.If(x.t < 0, -x.t, x.t))
    if isinstance(x, SFloat):
        return SFloat(z3.fpAbs(x.t))
    return abs(x)


def _minmax(ip: Any, is_min: bool, args: tuple[Any, ...], kwargs: dict[str, Any]) -> Any:
    if kwargs.get("key") is not None:
        raise Unsupported("min/max with key")
    if len(args) == 1:
        seq = iteration(ip, args[0])
        if not isinstance(seq, list):
            raise Unsupported("min/max of a symbolic-length iterable")
        if not seq:
            if "default" in kwargs:
                return kwargs["default"]
            raise raise_(ip, ValueError, "min()/max() iterable argument is empty")
        args = tuple(seq)
    if not V.contains_sym(args):
        try:
            return (min if is_min else max)(*args)
        except Exception as e:
            raise PyRaise(e) from None
    # CPython: result = first; for x in rest: if x < result (min) / x > result (max): result = x
    res = args[0]
    for x in args[1:]:
        c = compare(ip, ast.Lt() if is_min else ast.Gt(), x, res)
        res = V.ite(c, x, res) if not isinstance(c, bool) else (x if c else res)
    return res


def b_min(ip: Any, *args: Any, **kw: Any) -> Any:
    return _minmax(ip, True, args, kw)


def b_max(ip: Any, *args: Any, **kw: Any) -> Any:
    return _minmax(ip, False, args, kw)


def b_sum(ip: Any, xs: Any, start: Any = 0) -> Any:
    seq = iteration(ip, xs)
    if not isinstance(seq, list):
        raise Unsupported("sum over a symbolic-length iterable")
    r = start
    for x in seq:
        r = binop(ip, ast.Add(), r, x)
    return r


def b_any(ip: Any, xs: Any) -> Any:
    seq = iteration(ip, xs)
    if not isinstance(seq, list):
        raise Unsupported("any() over a symbolic-length iterable")
    ts = [V.truth(x) for x in seq]
    if any(t is True for t in ts):
        return True
    ts = [t for t in ts if t is not False]
    return V.Or(*ts) if ts else False


def b_all(ip: Any, xs: Any) -> Any:
    seq = iteration(ip, xs)
    if not isinstance(seq, list):
        raise Unsupported("all() over a symbolic-length iterable")
    ts = [V.truth(x) for x in seq]
    if any(t is False for t in ts):
        return False
    ts = [t for t in ts if t is not True]
    return V.And(*ts) if ts else True


_KIND_CLASSES: list[tuple[type, tuple[type, ...]]] = [
    (SBool, (bool, int)),
    (SInt, (int,)),
    (SStr, (str,)),
    (SBytes, (bytes,)),
    (SFloat, (float,)),
    (SList, (list,)),
    (SMap, (dict,)),
]


def py_type(ip: Any, v: Any) -> Any:
    for k, cl in _KIND_CLASSES:
        if isinstance(v, k):
            return cl[0]
    if isinstance(v, SExc):
        return v.cls
    if isinstance(v, SObj):
        if v.cls is None:
            raise Unsupported(f"type() of abstract object {v!r}")
        return v.cls
    from .interp import BoundMethod, Closure

    if isinstance(v, Closure):
        return types.FunctionType
    if isinstance(v, BoundMethod):
        return types.MethodType
    if isinstance(v, SOpaque):
        raise Unsupported(f"type() of opaque {v.kind}")
    return type(v)


def b_isinstance(ip: Any, v: Any, cls: Any) -> Any:
    import typing

    if isinstance(cls, tuple):
        rs = [b_isinstance(ip, v, c) for c in cls]
        if any(r is True for r in rs):
            return True
        rs = [r for r in rs if r is not False]
        return V.Or(*rs) if rs else False
    if isinstance(cls, types.UnionType):
        return b_isinstance(ip, v, typing.get_args(cls))
    if isinstance(v, SObj):
        h = ip.S.handlers.get(f"{v.kind}.__isinstance__")
        if h is not None:
            return h(ip.S, v, cls)
    if isinstance(v, SOpaque):
        h = ip.S.handlers.get(f"{v.kind}.__isinstance__")  # run-time type of an opaque value, given by contract
        if h is not None:
            return h(ip.S, v, cls)
        raise Unsupported(f"isinstance() of opaque {v.kind}")
    try:
        return issubclass(py_type(ip, v), cls)
    except TypeError as e:
        raise PyRaise(e) from None


def b_type(ip: Any, v: Any, *rest: Any) -> Any:
    if rest:
        raise Unsupported("type(name, bases, dict)")
    return py_type(ip, v)


def b_getattr(ip: Any, obj: Any, name: str, *default: Any) -> Any:
    if V.contains_sym(name):
        raise Unsupported("getattr with symbolic name")
    try:
        return ip.getattr_value(obj, name)
    except PyRaise as pr:
        if default and issubclass(pr.cls, AttributeError):
            return default[0]
        raise


def b_hasattr(ip: Any, obj: Any, name: str) -> Any:
    try:
        ip.getattr_value(obj, name)
        return True
    except PyRaise as pr:
        if issubclass(pr.cls, AttributeError):
            return False
        raise


def b_setattr(ip: Any, obj: Any, name: str, v: Any) -> None:
    ip.setattr_value(obj, name, v)


def b_callable(ip: Any, v: Any) -> Any:
    from .interp import BoundMethod, Closure, SymMethod

    if isinstance(v, (Closure, BoundMethod, SymMethod)):
        return True
    if isinstance(v, SObj):
        if ip.S.handlers.get(f"{v.kind}.__call__") is not None:
            return True
        return v.cls is not None and hasattr(v.cls, "__call__")
    if isinstance(v, (Sym, SList, SMap, SExc)):
        return False
    return callable(v)


def b_range(ip: Any, *args: Any) -> Any:
    if not V.contains_sym(args):
        return range(*args)
    if len(args) == 1:
        lo, hi = z3.IntVal(0), _I(args[0])
    elif len(args) == 2:
        lo, hi = _I(args[0]), _I(args[1])
    else:
        raise Unsupported("range with symbolic step")
    n = z3.If(hi > lo, hi - lo, z3.IntVal(0))
    return SymIter(n, lambda k: SInt(lo + k))


def b_enumerate(ip: Any, xs: Any, start: Any = 0) -> Any:
    seq = iteration(ip, xs)
    if isinstance(seq, list):
        if isinstance(start, int):
            return [(start + i, x) for i, x in enumerate(seq)]
        return [(binop(ip, ast.Add(), start, i), x) for i, x in enumerate(seq)]
    length, at = seq
    st = _I(start)
    return SymIter(length, lambda k: (SInt(st + k), at(k)))


def b_zip(ip: Any, *xs: Any, strict: bool = False) -> Any:
    seqs = [iteration(ip, x) for x in xs]
    if all(isinstance(s, list) for s in seqs):
        if strict and len({len(s) for s in seqs}) > 1:
            raise raise_(ip, ValueError, "zip() arguments have different lengths")
        return list(zip(*seqs))
    lens = []
    ats = []
    for s in seqs:
        if isinstance(s, list):
            sl = V.as_slist(s)
            lens.append(sl.length)
            ats.append(sl.getf)
        else:
            lens.append(s[0])
            ats.append(s[1])
    n = lens[0]
    for m in lens[1:]:
        if strict and not ip.S.fork(SBool(m == lens[0])):
            raise raise_(ip, ValueError, "zip() arguments have different lengths")
        n = z3.If(m < n, m, n)
    return SymIter(n, lambda k: tuple(a(k) for a in ats))


def b_list(ip: Any, xs: Any = ()) -> Any:
    seq = iteration(ip, xs)
    if isinstance(seq, list):
        return list(seq)
    if isinstance(xs, SList):
        return xs.snapshot()
    shape = V.shape_of(seq[1](z3.IntVal(0)))
    return SList(shape, seq[1], seq[0])


def b_tuple(ip: Any, xs: Any = ()) -> Any:
    seq = iteration(ip, xs)
    if isinstance(seq, list):
        return tuple(seq)
    raise Unsupported("tuple() of a symbolic-length iterable")


def b_dict(ip: Any, *a: Any, **kw: Any) -> Any:
    if a and isinstance(a[0], SMap):
        if kw:
            raise Unsupported("dict(SMap, **kw)")
        return a[0].snapshot()
    d: dict[Any, Any] = {}
    if a:
        src = a[0]
        if isinstance(src, dict):
            d.update(src)
        else:
            seq = iteration(ip, src)
            if not isinstance(seq, list):
                raise Unsupported("dict() of a symbolic-length iterable")
            for kv in seq:
                k, v = unpack(ip, kv, 2, False)
                if V.contains_sym(k):
                    raise Unsupported("dict() with symbolic keys")
                d[k] = v
    d.update(kw)
    return d


def to_sset(ip: Any, xs: Any) -> SSet:
    """View any supported collection of scalars as a membership predicate."""
    if isinstance(xs, SSet):
        return xs
    if isinstance(xs, SODict):
        snap = xs.snapshot()
        wrap = xs.key_shape._wrap
        return SSet(xs.key_shape, lambda t: snap.has(wrap(t)).t)
    if isinstance(xs, SMap):
        hf = xs.has_f
        return SSet(xs.key_shape, lambda t: hf(t))
    if isinstance(xs, SList):
        snap = xs.snapshot()
        w = snap.shape._wrap
        return SSet(snap.shape, lambda t: V.ExistsInt(lambda i: V.And(i >= 0, SBool(i.t < snap.length), V.eq(snap.get(i), w(t)))).t)
    seq = iteration(ip, xs)
    if isinstance(seq, list):
        if not seq:
            return SSet(V.StrShape, lambda t: z3.BoolVal(False))
        return SSet.of_values(V.shape_of(seq[0]), seq)
    raise Unsupported(f"set view of {xs!r}")


def b_set(ip: Any, xs: Any = ()) -> Any:
    if isinstance(xs, (SSet, SODict, SMap, SList)):
        return to_sset(ip, xs)
    seq = iteration(ip, xs)
    if not isinstance(seq, list):
        raise Unsupported("set() of a symbolic-length iterable")
    if V.contains_sym(seq):
        return to_sset(ip, seq)
    return set(seq)


def b_frozenset(ip: Any, xs: Any = ()) -> Any:
    r = b_set(ip, xs)
    return r if isinstance(r, SSet) else frozenset(r)  # a symbolic set is immutable already (membership predicate)


def b_sorted(ip: Any, xs: Any, **kw: Any) -> Any:
    if isinstance(xs, SSet):
        # some ordering of the members: a list of members, empty iff the set is empty (order not modelled)
        L = V.ListShape(xs.shape).fresh("sorted")
        S = ip.S
        S.assume(SBool((L.length > 0) == xs.nonempty().t))
        S.assume(V.ForAllInt(lambda j: V.Implies(V.And(j >= 0, SBool(j.t < L.length)), SBool(xs.member(L.get(j).t)))))
        S.note("sorted(<symbolic set>) abstracted: a list of members, empty iff the set is empty; order not modelled")
        return L
    seq = iteration(ip, xs)
    if not isinstance(seq, list) or V.contains_sym(seq) or kw.get("key") is not None and not callable(kw["key"]):
        raise Unsupported("sorted() with symbolic members")
    try:
        return sorted(seq, **kw)
    except Exception as e:
        raise PyRaise(e) from None


def b_reversed(ip: Any, xs: Any) -> Any:
    seq = iteration(ip, xs)
    if not isinstance(seq, list):
        if isinstance(xs, (SList, SymIter, SODict)):
            # a sequence / ordered-dict view: element k of the reversed view is element len-1-k
            n, at = seq
            return SymIter(n, lambda k: at(n - 1 - k))
        raise Unsupported("reversed() of a symbolic-length iterable")
    return list(reversed(seq))


def b_print(ip: Any, *a: Any, **kw: Any) -> None:
    return None


def b_bytes(ip: Any, x: Any = b"", *a: Any) -> Any:
    if not V.contains_sym(x):
        try:
            return bytes(x, *a)
        except Exception as e:
            raise PyRaise(e) from None
    if isinstance(x, SBytes):
        return x
    if isinstance(x, SStr) and a:
        return call_sym_method(ip, x, "encode", list(a), {})
    raise Unsupported(f"bytes({x!r})")


def b_iter(ip: Any, x: Any) -> Any:
    return SObj(None, kind="iterator", seq=iteration(ip, x), pos=0)


class EagerGen(list):
    """Result of a generator expression over concrete-structure iterables: evaluated eagerly (its
    conditions fork), still a ``list`` for every consumer; ``next()`` consumes from the front."""


def b_next(ip: Any, it: Any, *default: Any) -> Any:
    if isinstance(it, EagerGen):
        if it:
            return it.pop(0)
        if default:
            return default[0]
        raise raise_(ip, StopIteration)
    if isinstance(it, SObj) and it.kind == "iterator":
        seq, pos = it.fields["seq"], it.fields["pos"]
        if isinstance(seq, list):
            if pos < len(seq):
                it.fields["pos"] = pos + 1
                return seq[pos]
        else:
            if ip.S.fork(SBool(seq[0] > pos)):
                it.fields["pos"] = pos + 1
                return seq[1](z3.IntVal(pos))
        if default:
            return default[0]
        raise raise_(ip, StopIteration)
    if isinstance(it, SymIter):
        if ip.S.fork(SBool(it.length > it.pos)):
            v = it.at(z3.IntVal(it.pos))
            it.pos += 1
            return v
        if default:
            return default[0]
        raise raise_(ip, StopIteration)
    if isinstance(it, SObj):
        h = ip.S.handlers.get(f"{it.kind}.__next__")
        if h is not None:
            return h(ip.S, it)
    raise Unsupported("next() of a non-iterator")


def b_ord(ip: Any, c: Any) -> Any:
    if isinstance(c, SStr):
        return SInt(z3.StrToCode(c.t))
    return ord(c)


def b_chr(ip: Any, c: Any) -> Any:
    if isinstance(c, SInt):
        return SStr(z3.StrFromCode(c.t))
    return chr(c)


def b_id(ip: Any, x: Any) -> Any:
    return id(x)


def b_issubclass(ip: Any, a: Any, b: Any) -> Any:
    try:
        return issubclass(a, b)
    except TypeError as e:
        raise PyRaise(e) from None


BUILTINS: dict[Any, Callable[..., Any]] = {
    len: b_len, int: b_int, str: b_str, repr: b_repr, bool: b_bool, float: b_float, abs: b_abs, min: b_min, max: b_max,
    sum: b_sum, any: b_any, all: b_all, isinstance: b_isinstance, type: b_type, getattr: b_getattr, hasattr: b_hasattr,
    setattr: b_setattr, callable: b_callable, range: b_range, enumerate: b_enumerate, zip: b_zip, list: b_list,
    tuple: b_tuple, dict: b_dict, set: b_set, frozenset: b_frozenset, sorted: b_sorted, reversed: b_reversed,
    print: b_print, bytes: b_bytes, iter: b_iter, next: b_next, ord: b_ord, chr: b_chr, id: b_id, issubclass: b_issubclass,
}  # fmt: skip

EXTRA_MODELS: dict[Any, Callable[..., Any]] = {}


def _register_checksums() -> None:
    import binascii
    import zlib

    EXTRA_MODELS[zlib.crc32] = b_checksum("crc32")
    EXTRA_MODELS[zlib.adler32] = b_checksum("adler32")
    if binascii.crc32 is not zlib.crc32:
        EXTRA_MODELS[binascii.crc32] = b_checksum("b_crc32")


def lookup_builtin(f: Any) -> Any:
    try:
        if f in BUILTINS:
            return BUILTINS[f]
        if f in EXTRA_MODELS:
            return EXTRA_MODELS[f]
    except TypeError:
        return None
    return None


_IMPURE_MODULES = ("time", "random", "secrets", "uuid", "socket", "subprocess", "os", "_thread", "threading", "select", "datetime", "tempfile", "shutil", "io", "_io")


def is_impure(f: Any) -> bool:
    mod = getattr(f, "__module__", None) or ""
    slf = getattr(f, "__self__", None)
    if isinstance(slf, types.ModuleType):
        mod = slf.__name__
    name = getattr(f, "__name__", "")
    if mod in ("os", "posix", "nt"):
        return name not in ("fspath", "getenv", "fsencode", "fsdecode")
    if mod == "datetime":
        return name in ("now", "utcnow", "today")
    if mod in ("io", "_io"):
        return name == "open"
    return mod.split(".")[0] in _IMPURE_MODULES or f is builtins.open or f is builtins.input


# ======================================================================================
# locks (DESIGN §2.5)
# ======================================================================================

_LOCK_TYPES = (type(threading.Lock()), type(threading.RLock()))


def is_lock(v: Any) -> bool:
    return isinstance(v, _LOCK_TYPES) or (isinstance(v, SObj) and v.kind in ("Lock", "RLock"))


def lock_id(v: Any) -> Any:
    return v.fields.get("name", f"lock#{v.oid}") if isinstance(v, SObj) else f"lock@{id(v):x}"


def lock_acquire(ip: Any, v: Any) -> None:
    lid = lock_id(v)
    hook = ip.S.handlers.get("Lock.on_acquire")  # a contract's scheduling point: other threads may have run by now
    if hook is not None:
        hook(ip.S, lid)
    held = ip.S.ghost.setdefault("__held__", [])
    if lid in held and not (isinstance(v, SObj) and v.kind == "RLock"):
        ip.S.oblige(f"lock.{lid}.no-self-deadlock", False, kind="lock")
    held.append(lid)
    ip.S.event("acquire", lid)


def lock_release(ip: Any, v: Any) -> None:
    held = ip.S.ghost.setdefault("__held__", [])
    lid = lock_id(v)
    if lid not in held:
        raise raise_(ip, RuntimeError, "release unlocked lock")
    held.reverse()
    held.remove(lid)
    held.reverse()
    ip.S.event("release", lid)


def holds(S: Any, lock_name: str) -> bool:
    return lock_name in S.ghost.get("__held__", [])


# ======================================================================================
# havoc helpers for loops
# ======================================================================================


def fresh_like(v: Any, name: str) -> Any:
    if isinstance(v, SList):
        return V.ListShape(v.shape).fresh(name)
    if isinstance(v, SMap):
        return SMap.fresh(name, v.key_shape, v.val_shape, ordered=v.rank_f is not None)
    if isinstance(v, SODict):
        return V.fresh_like_odict(v, name)
    return V.shape_of(v).fresh(name)


def havoc_object(ip: Any, obj: Any, dotted: str, hints: dict[str, Any]) -> None:
    parts = dotted.split(".")
    for p in parts[1:-1] if len(parts) > 2 else []:
        obj = ip.getattr_value(obj, p)
    if len(parts) >= 2:
        # x.f mutated (attribute store, or x.f.append(...))
        holder = obj
        field = parts[-1]
        if len(parts) > 2:
            pass
        if isinstance(holder, SObj) and field in holder.fields:
            cur = holder.fields[field]
            if isinstance(cur, (SList, SMap, SODict)):
                new = fresh_like(cur, dotted.replace(".", "_"))
                cur.__dict__.update(new.__dict__)
            else:
                shape = hints.get(dotted) or V.shape_of(cur)
                holder.fields[field] = shape.fresh(dotted.replace(".", "_"))
            return
        if isinstance(holder, SObj):
            return  # e.g. obj.method() that is a MUTATOR-named handler call: handled by the handler's own ghost state
        raise Unsupported(f"loop mutates {dotted} of a concrete object; model it in the contract view")
    if isinstance(obj, (SList, SMap, SODict)):
        new = fresh_like(obj, dotted)
        obj.__dict__.update(new.__dict__)
        return
    if isinstance(obj, SObj):
        return
    if isinstance(obj, (list, dict, set)):
        if dotted in hints:
            return  # the variable was just re-bound to a fresh value of the contract's loop_havoc shape
        raise Unsupported(f"loop mutates concrete container {dotted!r} across iterations; give it a symbolic view (SList/SMap) or a loop_havoc hint")


def map_terms(v: Any, fn: Any) -> Any:
    if isinstance(v, SOpaque):
        return SOpaque(fn(v.t), v.kind)
    if isinstance(v, Sym):
        return type(v)(fn(v.t))
    if isinstance(v, tuple):
        return tuple(map_terms(x, fn) for x in v)
    if isinstance(v, SObj) and v.cls is None:
        return SObj(None, kind=v.kind, **{k: map_terms(x, fn) for k, x in v.fields.items()})
    return v


def symbolic_comprehension(ip: Any, e: Any, frame: Any) -> Any:
    """``[elt for x in <symbolic-length iterable>]`` without filters, for a *pure* element
    expression: evaluated once on a generic index, then read pointwise by substitution."""
    if len(e.generators) != 1 or e.generators[0].ifs or e.generators[0].is_async:
        return None
    g = e.generators[0]
    it = ip.eval(g.iter, frame)
    seq = iteration(ip, it)
    if isinstance(seq, list):
        out = []
        f = ip.comp_frame(frame)
        for x in seq:
            ip.assign(g.target, x, f)
            out.append(ip.eval(e.elt, f))
        return out
    S = ip.S
    length, at = seq
    k = z3.Int(S.fresh_name("k_comp"))
    f = ip.comp_frame(frame)
    ip.assign(g.target, at(k), f)
    before = len(S.decisions)
    val = ip.eval(e.elt, f)
    if len(S.decisions) != before:
        raise Unsupported("comprehension over a symbolic-length iterable whose element expression branches")
    return SList(V.shape_of(val), lambda j: map_terms(val, lambda t: z3.substitute(t, (k, j))), length)


def symbolic_dict_comprehension(ip: Any, e: Any, frame: Any) -> Any:
    """``{k: f(k, v) for k, v in m.items()}`` / ``{k: f(k) for k in m.keys()}`` over a symbolic map ``m`` held in a
    plain local, without filters, with the key passed through unchanged and a *pure* value expression: the result
    has the same key set and size, and the value at every key is the expression evaluated at that key (evaluated
    once on a generic key, read pointwise by substitution).  Anything else: ``None`` (the caller's generic path)."""
    if len(e.generators) != 1 or e.generators[0].ifs or e.generators[0].is_async:
        return None
    g = e.generators[0]
    c = g.iter
    if not (isinstance(c, ast.Call) and not c.args and not c.keywords and isinstance(c.func, ast.Attribute) and c.func.attr in ("items", "keys") and isinstance(c.func.value, ast.Name)):
        return None
    try:
        recv = frame.lookup(c.func.value.id)
    except PyRaise:
        return None
    if not isinstance(recv, SMap):
        return None
    S = ip.S
    m = recv.snapshot()
    kv = m.key_shape.fresh("k_comp")
    f = ip.comp_frame(frame)
    ip.assign(g.target, (kv, m.val(kv)) if c.func.attr == "items" else kv, f)
    before = len(S.decisions)
    kk = ip.eval(e.key, f)
    vv = ip.eval(e.value, f)
    if len(S.decisions) != before:
        raise Unsupported("dict comprehension over a symbolic map whose key/value expression branches")
    if not (isinstance(kk, Sym) and type(kk) is type(kv) and kk.t.eq(kv.t)):
        raise Unsupported("dict comprehension over a symbolic map must pass the key through unchanged")
    return SMap(m.key_shape, V.shape_of(vv), m.has_f, lambda x: map_terms(vv, lambda t: z3.substitute(t, (kv.t, x))), m.size, m.rank_f, m.clock)


# ======================================================================================
# methods on symbolic values
# ======================================================================================

WS_CHARS = " \t\n\r\x0b\x0c"
PY_LOWER = z3.Function("py_lower", z3.StringSort(), z3.StringSort())
PY_UPPER = z3.Function("py_upper", z3.StringSort(), z3.StringSort())
PY_STRIP = z3.Function("py_strip", z3.StringSort(), z3.StringSort())
STR_BEFORE_FIRST = z3.Function("py_before_first", z3.StringSort(), z3.StringSort(), z3.StringSort())  # s.split(sep, 1)[0] when sep in s
STR_AFTER_FIRST = z3.Function("py_after_first", z3.StringSort(), z3.StringSort(), z3.StringSort())  # s.split(sep, 1)[1] when sep in s
UTF8_ENC = z3.Function("utf8_encode", z3.StringSort(), z3.StringSort())
UTF8_DEC = z3.Function("utf8_decode", z3.StringSort(), z3.StringSort())
UTF8_OK = z3.Function("utf8_valid", z3.StringSort(), z3.BoolSort())
ASCII_RE = z3.Star(z3.Range(z3.StringVal("\x00"), z3.StringVal("\x7f")))
STR_REPEAT = z3.Function("str_repeat", z3.StringSort(), z3.IntSort(), z3.StringSort())
BYTES_HEX = z3.Function("bytes_hex", z3.StringSort(), z3.StringSort())
BYTES_UNHEX = z3.Function("bytes_unhex", z3.StringSort(), z3.StringSort())
HEX_OK = z3.Function("hex_valid", z3.StringSort(), z3.BoolSort())


def _tt(v: Any) -> Any:
    return V.bytesterm(v) if isinstance(v, (SBytes, bytes, bytearray)) else V.strterm(v)


def _same_kind(ip: Any, obj: Any, x: Any) -> None:
    isb = isinstance(obj, (SBytes, bytes))
    if isb != isinstance(x, (SBytes, bytes, bytearray)):
        raise raise_(ip, TypeError, "str/bytes mismatch")


def encode_utf8(ip: Any, s: Any) -> SBytes:
    """str.encode(): uninterpreted injective function with the UTF-8 facts used
    (ASCII strings encode to themselves; encoding distributes over concatenation is
    supplied by lemma sites that need it)."""
    t = V.strterm(s)
    S = ip.S
    r = UTF8_ENC(t)
    S.assume(core_is_bytes(r))
    S.assume(UTF8_DEC(r) == t)
    S.assume(UTF8_OK(r))
    S.assume(z3.Implies(z3.InRe(t, ASCII_RE), r == t))
    S.assume(z3.Length(r) >= z3.Length(t))
    S.assume((z3.Length(r) == 0) == (z3.Length(t) == 0))
    S.assume(z3.Contains(r, z3.StringVal("\x00")) == z3.Contains(t, z3.StringVal("\x00")))
    S.assume(z3.InRe(r, ASCII_RE) == z3.InRe(t, ASCII_RE))
    return SBytes(r)


def core_is_bytes(t: Any) -> Any:
    from .core import is_bytes_term

    return is_bytes_term(t)


def decode_utf8(ip: Any, b: Any, errors: str = "strict") -> SStr:
    t = V.bytesterm(b)
    S = ip.S
    if errors == "strict":
        if not S.fork(SBool(z3.Or(z3.InRe(t, ASCII_RE), UTF8_OK(t)))):
            e = SExc(UnicodeDecodeError, ("utf-8", b, 0, 1, "invalid start byte"))
            raise ip.mkraise(e)
    if errors != "strict":
        # lenient error handlers (ignore/replace/...): ASCII maps to itself, anything else to *some* string
        lenient = z3.Function(f"utf8_decode_{errors}", z3.StringSort(), z3.StringSort())
        r = lenient(t)
        S.assume(z3.Implies(z3.InRe(t, ASCII_RE), r == t))
        S.assume(z3.Implies(UTF8_OK(t), r == UTF8_DEC(t)))  # the error handler only matters on invalid input
        if errors == "replace":  # every offending byte becomes U+FFFD, so the result is ASCII exactly when the input is
            S.assume(z3.InRe(r, ASCII_RE) == z3.InRe(t, ASCII_RE))
        return SStr(r)
    r = UTF8_DEC(t)
    S.assume(z3.Implies(z3.InRe(t, ASCII_RE), r == t))
    S.assume(z3.InRe(r, ASCII_RE) == z3.InRe(t, ASCII_RE))  # non-ASCII bytes decode to a non-ASCII string
    S.assume(UTF8_ENC(r) == t)
    S.assume(z3.Length(r) <= z3.Length(t))
    return SStr(r)


def call_sym_method(ip: Any, obj: Any, name: str, args: list[Any], kwargs: dict[str, Any]) -> Any:
    S = ip.S
    if isinstance(obj, (SStr, SBytes)):
        return str_method(ip, obj, name, args, kwargs)
    if isinstance(obj, SList):
        return list_method(ip, obj, name, args, kwargs)
    if isinstance(obj, SMap):
        return map_method(ip, obj, name, args, kwargs)
    if isinstance(obj, SODict):
        return odict_method(ip, obj, name, args, kwargs)
    if isinstance(obj, SOpaque) and S.handlers.get(f"{obj.kind}.{name}") is not None:
        # an opaque *reference* (e.g. into a ghost heap) whose methods are given by contract
        return S.handlers[f"{obj.kind}.{name}"](S, obj, *args, **kwargs)
    if isinstance(obj, SInt):
        if name == "bit_length":
            raise Unsupported("int.bit_length on symbolic")
        if name == "to_bytes":
            raise Unsupported("int.to_bytes on symbolic")
    if isinstance(obj, SFloat) and name == "is_integer":
        raise Unsupported("float.is_integer")
    raise raise_(ip, AttributeError, f"'{kindname(obj)}' object has no attribute {name!r}")


def str_method(ip: Any, obj: Any, name: str, args: list[Any], kwargs: dict[str, Any]) -> Any:
    S = ip.S
    isb = isinstance(obj, (SBytes, bytes))
    t = _tt(obj)
    W = SBytes if isb else SStr

    def arg_t(i: int) -> Any:
        _same_kind(ip, obj, args[i])
        return _tt(args[i])

    if name in ("startswith", "endswith"):
        a = args[0]
        opts = list(a) if isinstance(a, tuple) else [a]
        for o in opts:
            _same_kind(ip, obj, o)
        if len(args) > 1:
            raise Unsupported("startswith with start offset")
        f = z3.PrefixOf if name == "startswith" else z3.SuffixOf
        return V.Or(*[SBool(f(_tt(o), t)) for o in opts]) if opts else False
    if name == "encode" and not isb:
        if S.handlers.get("SStr.encode") is not None:  # the contract file supplies its own (weaker) contract of str.encode on symbolic strings
            return S.handlers["SStr.encode"](S, obj, *args, **kwargs)
        enc = (args[0] if args else kwargs.get("encoding", "utf-8")).lower().replace("_", "-")
        if enc in ("utf-8", "utf8"):
            return encode_utf8(ip, obj)
        if enc in ("ascii", "latin-1", "latin1", "iso-8859-1"):
            lim = "\x7f" if enc == "ascii" else "ÿ"
            okre = z3.Star(z3.Range(z3.StringVal("\x00"), z3.StringVal(lim)))
            if not S.fork(SBool(z3.InRe(t, okre))):
                raise ip.mkraise(SExc(UnicodeEncodeError, (enc, obj, 0, 1, "ordinal not in range")))
            return SBytes(t)
        raise Unsupported(f"encode({enc})")
    if name == "decode" and isb:
        enc = (args[0] if args else kwargs.get("encoding", "utf-8")).lower().replace("_", "-")
        errors = args[1] if len(args) > 1 else kwargs.get("errors", "strict")
        if enc in ("utf-8", "utf8"):
            return decode_utf8(ip, obj, errors)
        if enc in ("latin-1", "latin1", "iso-8859-1"):
            return SStr(t)
        if enc == "ascii":
            if errors == "strict" and not S.fork(SBool(z3.InRe(t, ASCII_RE))):
                raise ip.mkraise(SExc(UnicodeDecodeError, ("ascii", obj, 0, 1, "ordinal not in range(128)")))
            if errors != "strict":
                # lenient handlers (replace/ignore/...): ASCII bytes decode to themselves, any other input to
                # *some* string; "replace" substitutes exactly one character per offending byte
                if not isinstance(errors, str):
                    raise Unsupported("ascii decode with a symbolic error handler")
                lenient = z3.Function(f"ascii_decode_{errors}", z3.StringSort(), z3.StringSort())
                r = lenient(t)
                S.assume(z3.Implies(z3.InRe(t, ASCII_RE), r == t))
                if errors == "replace":
                    S.assume(z3.Length(r) == z3.Length(t))
                return SStr(r)
            return SStr(t)
        raise Unsupported(f"decode({enc})")
    if name == "find" or name == "index" or name == "rfind":
        if name == "rfind":
            raise Unsupported("rfind")
        start = _I(args[1]) if len(args) > 1 else z3.IntVal(0)
        r = z3.IndexOf(t, arg_t(0), start)
        if name == "index":
            if not S.fork(SBool(r >= 0)):
                raise raise_(ip, ValueError, "substring not found")
        return SInt(r)
    if name == "replace":
        if len(args) > 2:
            raise Unsupported("replace with count")
        r = z3.Function("str.replace_all", z3.StringSort(), z3.StringSort(), z3.StringSort(), z3.StringSort())
        raise Unsupported("str.replace (replace_all chains are undecided in both solvers; give the function a contract)")
    if name in ("lower", "upper"):
        f = PY_LOWER if name == "lower" else PY_UPPER
        r = f(t)
        S.assume(f(r) == r)  # idempotent
        S.assume((z3.Length(r) == 0) == (z3.Length(t) == 0))
        return W(r)
    if name == "strip" and not args:
        r = PY_STRIP(t)
        S.assume(PY_STRIP(r) == r)
        S.assume(z3.Length(r) <= z3.Length(t))
        S.assume(z3.Contains(t, r))
        ws = z3.Union(*[z3.Re(z3.StringVal(c)) for c in WS_CHARS])
        S.assume(z3.Implies(z3.InRe(t, z3.Star(ws)), z3.Length(r) == 0))
        S.assume(z3.Implies(z3.Length(r) > 0, z3.And(z3.Not(z3.InRe(z3.SubString(r, 0, 1), ws)), z3.Not(z3.InRe(z3.SubString(r, z3.Length(r) - 1, 1), ws)))))
        S.note("str.strip() abstracted: idempotent substring with no ASCII-whitespace ends; Unicode whitespace not modelled")
        return W(r)
    if name == "isdigit" or name == "isalnum" or name == "isalpha" or name == "isascii":
        if name == "isascii":
            return SBool(z3.InRe(t, ASCII_RE))
        raise Unsupported(f"str.{name} (Unicode classes)")
    if name == "join":
        seq = iteration(ip, args[0])
        if not isinstance(seq, list) and isinstance(args[0], SList) and args[0].cat is not None and z3.is_string_value(z3.simplify(t)) and z3.simplify(t).as_string() == "":
            return W(args[0].cat)  # "".join(l) = the list's concatenation ghost (maintained by append/extend)
        if not isinstance(seq, list):
            S.note("sep.join(<symbolic-length list>) rendered as an opaque string")
            return W(z3.String(S.fresh_name("joined")))
        parts: list[Any] = []
        for i, x in enumerate(seq):
            _same_kind(ip, obj, x)
            if i:
                parts.append(t)
            parts.append(_tt(x))
        if not parts:
            return W(z3.StringVal(""))
        return W(z3.Concat(*parts)) if len(parts) > 1 else W(parts[0])
    if name == "hex" and isb:
        if args or kwargs:
            raise Unsupported("bytes.hex with a separator")
        # bytes.hex(): uninterpreted injective function (bytes.fromhex inverts it), two characters per byte
        r = BYTES_HEX(t)
        S.assume(z3.Length(r) == 2 * z3.Length(t))
        S.assume(BYTES_UNHEX(r) == t)
        S.assume(HEX_OK(r))
        return SStr(r)
    if name == "split" and len(args) == 1 and not kwargs and isinstance(args[0], (str, bytes)) and len(args[0]) == 1:
        _same_kind(ip, obj, args[0])
        return split_single_char(ip, t, args[0], W, isb)
    if name == "split" and len(args) == 2 and not kwargs and isinstance(args[0], (str, bytes)) and len(args[0]) >= 1 and isinstance(args[1], int) and not isinstance(args[1], bool) and args[1] == 1:
        # s.split(sep, 1): cut at the first occurrence of sep (two parts), or [s] when sep does not occur
        # The two parts are the (well-defined) functions "text before / after the first occurrence", characterised by
        # t == before + sep + after with no occurrence of sep starting inside `before` (word equations, which the
        # sequence solvers handle far better than indexof/substr).
        sep_t = arg_t(0)
        if S.fork(SBool(z3.Contains(t, sep_t))):
            head, tail = STR_BEFORE_FIRST(t, sep_t), STR_AFTER_FIRST(t, sep_t)
            S.assume(t == z3.Concat(head, sep_t, tail))
            almost = args[0][:-1]
            almost_t = z3.StringVal(V.bytes_to_smt(almost) if isinstance(almost, bytes) else almost)
            S.assume(z3.Not(z3.Contains(z3.Concat(head, almost_t) if almost else head, sep_t)))
            return [W(head), W(tail)]
        return [obj if isinstance(obj, W) else W(t)]
    if name in ("split", "rsplit", "partition", "rpartition", "splitlines", "lstrip", "rstrip", "removeprefix", "removesuffix", "format", "title", "casefold", "count", "zfill", "ljust", "rjust", "strip"):
        if name == "removeprefix":
            p = arg_t(0)
            return W(z3.If(z3.PrefixOf(p, t), z3.SubString(t, z3.Length(p), z3.Length(t) - z3.Length(p)), t))
        if name == "removesuffix":
            p = arg_t(0)
            return W(z3.If(z3.And(z3.SuffixOf(p, t), z3.Length(p) > 0), z3.SubString(t, 0, z3.Length(t) - z3.Length(p)), t))
        if name == "partition":
            sep = arg_t(0)
            i = z3.IndexOf(t, sep, 0)
            n = z3.Length(t)
            found = i >= 0
            head = z3.If(found, z3.SubString(t, 0, i), t)
            mid = z3.If(found, sep, z3.StringVal(""))
            tail = z3.If(found, z3.SubString(t, i + z3.Length(sep), n - i - z3.Length(sep)), z3.StringVal(""))
            return (W(head), W(mid), W(tail))
        raise Unsupported(f"str.{name} on a symbolic string (abstract it in the contract)")
    raise raise_(ip, AttributeError, f"'{kindname(obj)}' object has no attribute {name!r}")


SPLIT_EXACT_PARTS = 6


def split_single_char(ip: Any, t: Any, sep: Any, W: Any, isb: bool) -> SList:
    """``t.split(sep)`` for a concrete one-character separator, exact on the part count up to
    ``SPLIT_EXACT_PARTS`` and on the first ``SPLIT_EXACT_PARTS`` parts (later parts: unconstrained).

    CPython: the result has one more element than there are occurrences of ``sep``; the elements are
    the maximal sep-free pieces in order, so ``sep.join(result) == t``.  Encoding, with ``N`` = the
    sep-free strings: the count is regular, ``n = k  <=>  t in (N sep){k-1} N``; and for ``n = k`` the
    pieces are the witnesses ``h_0..h_{k-1}`` of ``t = h_0 sep h_1 .. sep h_{k-1}`` with every ``h_i`` in
    ``N`` (such witnesses exist and are unique for every ``t``, so assuming them never constrains ``t``).
    The facts are also recorded by name (``split_facts``) so that a contract can cite them one by one."""
    from . import regex

    S = ip.S
    K = SPLIT_EXACT_PARTS
    c = sep[0] if isinstance(sep, bytes) else ord(sep)
    # the witnesses are unique, so a repeated split of the same term (on this path) reuses them
    memo = S.__dict__.setdefault("_split_memo", {})
    mk = (t.get_id(), c, isb)
    if mk in memo:
        getf0, n0 = memo[mk][:2]
        return SList(V.BytesShape if isb else V.StrShape, getf0, n0)
    limit = 0xFF if isb else regex.MAXCHAR
    if c > limit:
        raise Unsupported("split separator beyond the modelled character range")
    sep_t = z3.StringVal(chr(c))
    nosep = regex._union([regex._range(lo, hi) for lo, hi in regex._complement([(c, c)], limit)])
    N = z3.Star(nosep)
    anyc = z3.Star(regex._range(0, limit))
    sep_re = z3.Re(sep_t)
    h = [z3.String(S.fresh_name(f"split_part{k}")) for k in range(K)]
    tail = z3.String(S.fresh_name("split_tail"))
    n = z3.Int(S.fresh_name("split_n"))
    facts: dict[str, Any] = {"count": {}, "parts": {}, "n": n, "h": h}
    S.assume(n >= 1)

    def joined(k: int, extra: list[Any]) -> Any:
        pieces: list[Any] = []
        for i in range(k):
            pieces += [sep_t, h[i]] if i else [h[i]]
        pieces += extra
        return z3.Concat(*pieces) if len(pieces) > 1 else pieces[0]

    for k in range(1, K + 1):
        lang = z3.Concat(*([N, sep_re] * (k - 1) + [N])) if k > 1 else N
        facts["count"][k] = (n == k) == z3.InRe(t, lang)
        facts["parts"][k] = z3.Implies(n == k, z3.And(t == joined(k, []), *[z3.InRe(h[i], N) for i in range(k)]))
    facts["count"]["more"] = (n > K) == z3.InRe(t, z3.Concat(*([N, sep_re] * K + [anyc])))
    facts["parts"]["more"] = z3.Implies(n > K, z3.And(t == joined(K, [sep_t, tail]), *[z3.InRe(h[i], N) for i in range(K)]))
    for grp in ("count", "parts"):
        for f in facts[grp].values():
            S.assume(f)
    rest = z3.Function(S.fresh_name("split_later_part"), z3.IntSort(), z3.StringSort())

    def getf(j: Any) -> Any:
        js = z3.simplify(j) if z3.is_expr(j) else z3.IntVal(j)
        if z3.is_int_value(js):
            i = js.as_long()
            return W(h[i]) if 0 <= i < K else W(rest(js))
        v = rest(js)
        for k in range(K - 1, -1, -1):
            v = z3.If(js == k, h[k], v)
        return W(v)

    S.note(f"str.split(<1 char>) modelled exactly for the part count up to {K} and the first {K} parts; later parts unconstrained")
    memo[mk] = (getf, n, t, facts)  # t kept alive so its AST id is not reused
    return SList(V.BytesShape if isb else V.StrShape, getf, n)


def split_facts(S: Any, t: Any, sep: str) -> dict[str, Any]:
    """The named facts assumed for ``t.split(sep)`` on this path (after the split was modelled)."""
    c = sep[0] if isinstance(sep, bytes) else ord(sep)
    return S.__dict__.get("_split_memo", {})[(t.get_id(), c, isinstance(sep, bytes))][3]


def list_method(ip: Any, obj: SList, name: str, args: list[Any], kwargs: dict[str, Any]) -> Any:
    S = ip.S
    if name == "append":
        obj.append(args[0])
        return None
    if name == "insert":
        i = _I(args[0])
        n = obj.length
        eff = z3.If(i < 0, z3.If(i + n < 0, z3.IntVal(0), i + n), z3.If(i > n, n, i))
        if isinstance(args[0], int) and args[0] == 0:
            eff = z3.IntVal(0)
        obj.insert_at(SInt(z3.simplify(eff)) if False else SInt(eff), args[1])
        return None
    if name == "pop":
        if not S.fork(SBool(obj.length > 0)):
            raise raise_(ip, IndexError, "pop from empty list")
        if args:
            k = norm_index(ip, args[0], obj.length, "pop")
        else:
            k = obj.length - 1
        return obj.pop_at(SInt(k))
    if name == "copy":
        return obj.snapshot()
    if name == "clear":
        obj.length = z3.IntVal(0)
        obj.cat = z3.StringVal("") if obj.cat is not None else None
        return None
    if name == "extend":
        other = V.as_slist(args[0]).snapshot() if isinstance(args[0], (list, tuple, SList)) else None
        if other is None:
            raise Unsupported("extend with non-list")
        old, n = obj.getf, obj.length
        obj.getf = lambda j: V.ite(SBool(j < n), old(j), other.getf(j - n))
        obj.length = n + other.length
        obj.cat = z3.Concat(obj.cat, other.cat) if obj.cat is not None and other.cat is not None else None
        return None
    if not hasattr(list, name):
        raise raise_(ip, AttributeError, f"'list' object has no attribute {name!r}")
    raise Unsupported(f"list.{name} on a symbolic-length list")


def map_method(ip: Any, obj: SMap, name: str, args: list[Any], kwargs: dict[str, Any]) -> Any:
    S = ip.S
    if name == "get":
        default = args[1] if len(args) > 1 else kwargs.get("default")
        if S.fork(obj.has(args[0])):
            return obj.val(args[0])
        return default
    if name == "pop":
        if S.fork(obj.has(args[0])):
            v = obj.val(args[0])
            obj.delete(args[0])
            return v
        if len(args) > 1:
            return args[1]
        raise raise_(ip, KeyError, args[0])
    if name == "setdefault":
        if S.fork(obj.has(args[0])):
            return obj.val(args[0])
        obj.store(args[0], args[1] if len(args) > 1 else None)
        return args[1] if len(args) > 1 else None
    if name == "move_to_end":
        if not S.fork(obj.has(args[0])):
            raise raise_(ip, KeyError, args[0])
        obj.move_to_end(args[0])
        return None
    if name == "clear":
        obj.has_f = lambda x: z3.BoolVal(False)
        obj.size = z3.IntVal(0)
        return None
    if name == "copy":
        return obj.snapshot()
    if name in ("items", "keys", "values") and not args and not kwargs:
        return MapView(obj.snapshot(), name)
    if name == "popitem":
        last = kwargs.get("last", args[0] if args else True)
        if not S.fork(SBool(obj.size > 0)):
            raise raise_(ip, KeyError, "dictionary is empty")
        if obj.rank_f is None:
            raise Unsupported("popitem on an unordered symbolic map")
        k = obj.key_shape.fresh("popped_key")
        kt = k.t
        rf, hf = obj.rank_f, obj.has_f
        S.assume(hf(kt))
        q = z3.Const(S.fresh_name("qk"), kt.sort())
        if last:
            S.assume(z3.ForAll([q], z3.Implies(hf(q), rf(q) <= rf(kt))))
        else:
            S.assume(z3.ForAll([q], z3.Implies(hf(q), rf(q) >= rf(kt))))
        v = obj.val(k)
        obj.delete(k)
        return (k, v)
    if not hasattr(dict, name):
        raise raise_(ip, AttributeError, f"'dict' object has no attribute {name!r}")
    raise Unsupported(f"dict.{name} on a symbolic map")


def odict_store(ip: Any, d: SODict, k: Any, v: Any) -> None:
    if ip.S.fork(d.has(k)):
        p = d.index_of(k)
        d.items.set_at(p, (k, v))
    else:
        d.items.append((k, v))


def odict_method(ip: Any, d: SODict, name: str, args: list[Any], kwargs: dict[str, Any]) -> Any:
    S = ip.S
    if name == "get":
        if S.fork(d.has(args[0])):
            return d.val(d.index_of(args[0]))
        return args[1] if len(args) > 1 else kwargs.get("default")
    if name == "pop":
        if S.fork(d.has(args[0])):
            p = d.index_of(args[0])
            v = d.val(p)
            d.items.pop_at(p)
            return v
        if len(args) > 1:
            return args[1]
        raise raise_(ip, KeyError, args[0])
    if name == "popitem":
        last = kwargs.get("last", args[0] if args else True)
        if not S.fork(SBool(d.length > 0)):
            raise raise_(ip, KeyError, "dictionary is empty")
        return d.items.pop_at(SInt(d.length - 1) if last else 0)
    if name == "move_to_end":
        if kwargs.get("last", args[1] if len(args) > 1 else True) is not True:
            raise Unsupported("move_to_end(last=False)")
        if not S.fork(d.has(args[0])):
            raise raise_(ip, KeyError, args[0])
        p = d.index_of(args[0])
        item = d.items.pop_at(p)
        d.items.append(item)
        return None
    if name == "items":
        snap = d.items.snapshot()
        return SymIter(snap.length, snap.getf)
    if name == "keys":
        snap = d.items.snapshot()
        return SymIter(snap.length, lambda k: snap.getf(k)[0])
    if name == "values":
        snap = d.items.snapshot()
        return SymIter(snap.length, lambda k: snap.getf(k)[1])
    if name == "clear":
        d.items.length = z3.IntVal(0)
        return None
    if name == "copy":
        return d.snapshot()
    if name == "setdefault":
        if S.fork(d.has(args[0])):
            return d.val(d.index_of(args[0]))
        dv = args[1] if len(args) > 1 else None
        d.items.append((args[0], dv))
        return dv
    raise Unsupported(f"dict.{name} on a symbolic ordered dict")


# ======================================================================================
# methods of concrete receivers called with symbolic arguments
# ======================================================================================


def call_concrete_method(ip: Any, recv: Any, name: str, bound: Any, args: list[Any], kwargs: dict[str, Any]) -> Any:
    sym_args = V.contains_sym(args) or V.contains_sym(kwargs)
    if isinstance(recv, (str, bytes)) and sym_args:
        lifted = SBytes(V.bytesterm(recv)) if isinstance(recv, bytes) else SStr(V.strterm(recv))
        return str_method(ip, lifted, name, args, kwargs)
    if isinstance(recv, (str, bytes)) and name == "join":
        seq = iteration(ip, args[0])
        if isinstance(seq, list) and V.contains_sym(seq):
            lifted = SBytes(V.bytesterm(recv)) if isinstance(recv, bytes) else SStr(V.strterm(recv))
            return str_method(ip, lifted, name, [seq], kwargs)
    if isinstance(recv, list):
        if name in ("append", "extend", "clear", "copy", "reverse"):
            if name == "extend":
                seq = iteration(ip, args[0])
                if not isinstance(seq, list):
                    raise Unsupported("list.extend with a symbolic-length iterable")
                recv.extend(seq)
                return None
            return bound(*args, **kwargs)
        if name == "insert" and not V.contains_sym(args[0]):
            return bound(*args)
        if name == "pop" and not V.contains_sym(args):
            try:
                return bound(*args)
            except IndexError as e:
                raise PyRaise(e) from None
        if name in ("index", "count", "remove", "sort") and V.contains_sym(recv + list(args)):
            raise Unsupported(f"list.{name} with symbolic members")
    if isinstance(recv, dict):
        if name in ("items", "keys", "values", "copy", "clear", "popitem"):
            try:
                return bound(*args, **kwargs)
            except KeyError as e:
                raise PyRaise(e) from None
        key = args[0] if args else None
        if name in ("get", "pop", "setdefault", "__contains__", "__getitem__") and V.contains_sym(key):
            present = contains(ip, recv, key)
            if name == "__contains__":
                return present
            if ip.S.fork(present if isinstance(present, SBool) else bool(present)):
                v = subscript(ip, recv, key)
                if name == "pop":
                    raise Unsupported("dict.pop with symbolic key on a concrete dict")
                return v
            if name == "get":
                return args[1] if len(args) > 1 else None
            if name == "pop" and len(args) > 1:
                return args[1]
            if name == "setdefault":
                raise Unsupported("setdefault with symbolic key")
            raise raise_(ip, KeyError, key)
        if name == "update":
            for a in args:
                if isinstance(a, SMap):
                    raise Unsupported("dict.update(SMap)")
            return bound(*[dict(a) if isinstance(a, dict) else a for a in args], **kwargs)
        if name in ("get", "pop", "setdefault", "update", "fromkeys", "move_to_end"):
            try:
                return bound(*args, **kwargs)
            except Exception as e:
                raise PyRaise(e) from None
    if isinstance(recv, (set, frozenset)) and sym_args:
        # abstract objects (SObj without a value-equality class) are compared and hashed by identity, exactly like a
        # Python object without __eq__: a concrete set of them behaves concretely
        def _identity_obj(a: Any) -> bool:
            return isinstance(a, SObj) and (a.cls is None or (getattr(a.cls, "__eq__", object.__eq__) is object.__eq__ and getattr(a.cls, "__hash__", None) is object.__hash__))

        if name in ("add", "discard", "remove", "__contains__") and len(args) == 1 and _identity_obj(args[0]) and all(not V.contains_sym(m) or _identity_obj(m) for m in recv):
            try:
                return bound(*args)
            except KeyError:
                raise raise_(ip, KeyError, args[0]) from None
        raise Unsupported(f"set.{name} with symbolic argument")
    import contextvars as _cv

    if isinstance(recv, _cv.ContextVar) and name in ("set", "get", "reset"):
        # context variables hold symbolic values in ghost state (never in the real variable)
        store = ip.S.ghost.setdefault("__ctxvars__", {})
        if name == "set":
            tok = SObj(None, kind="CtxToken", var=recv, had=recv in store, old=store.get(recv))
            store[recv] = args[0]
            return tok
        if name == "reset":
            tok = args[0]
            if isinstance(tok, SObj) and tok.kind == "CtxToken":
                if tok.fields["had"]:
                    store[recv] = tok.fields["old"]
                else:
                    store.pop(recv, None)
                return None
            raise Unsupported("ContextVar.reset with a foreign token")
        if recv in store:
            return store[recv]
        if args:
            return args[0]
        try:
            return recv.get()
        except LookupError as e:
            raise PyRaise(e) from None
    if isinstance(recv, _struct.Struct):
        return struct_call(ip, name, recv.format, args)
    import re as _re

    if isinstance(recv, _re.Pattern) and name in ("match", "fullmatch", "search") and sym_args:
        from . import regex

        if len(args) != 1:
            raise Unsupported("regex match with pos/endpos")
        return regex.match_model(ip, recv, args[0], name)
    import collections as _collections

    if isinstance(recv, _collections.deque) and name in ("append", "appendleft", "extend", "extendleft") and sym_args:
        # a concrete deque is a positional container: putting abstract values into it needs no comparison
        if name in ("extend", "extendleft"):
            seq = iteration(ip, args[0])
            if not isinstance(seq, list):
                raise Unsupported(f"deque.{name} with a symbolic-length iterable")
            return getattr(recv, name)(seq)
        return bound(*args)
    if sym_args and not isinstance(recv, (list, dict, tuple)):
        raise Unsupported(f"method {type(recv).__name__}.{name} called with symbolic arguments")
    return ip.native_call(bound, args, kwargs)


# ======================================================================================
# object construction
# ======================================================================================


def construct(ip: Any, cls: type, args: list[Any], kwargs: dict[str, Any]) -> Any:
    import dataclasses
    import enum

    S = ip.S
    h = ip.find_handler(cls)
    if h is not None:
        return h(S, *args, **kwargs)
    m = lookup_builtin(cls)
    if m is not None:
        return m(ip, *args, **kwargs)
    if issubclass(cls, BaseException):
        init = cls.__dict__.get("__init__")
        # walk the MRO for a Python-level __init__ defined in /repo
        for k in cls.__mro__:
            init = k.__dict__.get("__init__")
            if init is not None:
                break
        e = SExc(cls, tuple(args))
        if isinstance(init, types.FunctionType):
            # real __init__ of a repo exception class: interpret it (sets attributes)
            ip.call_function(init, [e] + args, kwargs)
        else:
            if kwargs:
                e.attrs.update(kwargs)
        e.site = S.cur_site
        return e
    if issubclass(cls, enum.Enum):
        if V.contains_sym(args):
            a = args[0]
            for mem in cls:
                if V._eq(a, mem.value) is False:
                    continue
                if S.fork(V.eq(a, mem.value)):
                    return mem
            raise raise_(ip, ValueError, f"not a valid {cls.__name__}")
        return ip.native_call(cls, args, kwargs)
    if ip.is_repo_fn(cls) or getattr(cls, "__module__", "").startswith("vgi_rpc"):
        q = cls.__qualname__
        if dataclasses.is_dataclass(cls) and (q in S.inline or "dataclass:" + q in S.inline or "dataclasses" in S.inline):
            obj = SObj(cls)
            fields = dataclasses.fields(cls)
            names = [f.name for f in fields if f.init]
            if len(args) > len(names):
                raise raise_(ip, TypeError, f"{q}() takes {len(names)} positional arguments")
            vals = dict(zip(names, args))
            for k, v in kwargs.items():
                if k in vals or k not in names:
                    raise raise_(ip, TypeError, f"{q}() got an unexpected/multiple keyword argument {k!r}")
                vals[k] = v
            for f in fields:
                if f.name in vals:
                    obj.fields[f.name] = vals[f.name]
                elif f.default is not dataclasses.MISSING:
                    obj.fields[f.name] = f.default
                elif f.default_factory is not dataclasses.MISSING:
                    obj.fields[f.name] = f.default_factory()
                elif f.init:
                    raise raise_(ip, TypeError, f"{q}() missing required argument {f.name!r}")
            post = getattr(cls, "__post_init__", None)
            if post is not None:
                ip.dispatch_repo_function(post, [obj], {})
            return obj
        init = inspect_static(cls, "__init__")
        if q in S.inline and isinstance(init, types.FunctionType):
            obj = SObj(cls)
            ip.call_function(init, [obj] + args, kwargs)
            return obj
        if not V.contains_sym(args) and not V.contains_sym(kwargs) and (q in S.native):
            return ip.native_call(cls, args, kwargs)
        raise Unsupported(f"construction of {cls.__module__}.{q} has no contract (handler / inline / native)")
    if V.contains_sym(args) or V.contains_sym(kwargs):
        raise Unsupported(f"unmodelled constructor {cls.__module__}.{cls.__qualname__} with symbolic arguments")
    return ip.native_call(cls, args, kwargs)


def inspect_static(cls: type, name: str) -> Any:
    import inspect

    try:
        return inspect.getattr_static(cls, name)
    except AttributeError:
        return None


# ======================================================================================
# struct (DESIGN §3.1): little-endian fixed-width fields as a bijection range <-> n bytes
# ======================================================================================

_LE = {n: z3.Function(f"le{n}", z3.IntSort(), z3.StringSort()) for n in (1, 2, 4, 8)}
_UNLE = {n: z3.Function(f"unle{n}", z3.StringSort(), z3.IntSort()) for n in (1, 2, 4, 8)}
_FMT_SIZES = {"B": 1, "H": 2, "I": 4, "Q": 8}


def parse_fmt(fmt: str) -> list[tuple[str, int]]:
    import re

    if fmt[:1] not in "<>=!@" and re.fullmatch(r"(\d*[Bs])+", fmt):
        fmt = "<" + fmt  # native mode with one-byte fields only: no alignment padding and no byte order, same as '<'
    if not fmt.startswith("<"):
        raise Unsupported(f"struct format {fmt!r} (only little-endian '<' formats are modelled)")
    out: list[tuple[str, int]] = []
    for cnt, ch in re.findall(r"(\d*)([a-zA-Z?])", fmt[1:]):
        if ch == "s":
            out.append(("s", int(cnt or "1")))
        elif ch in _FMT_SIZES:
            for _ in range(int(cnt or "1")):
                out.append((ch, _FMT_SIZES[ch]))
        else:
            raise Unsupported(f"struct code {ch!r}")
    return out


def le_pack(ip: Any, n: int, v: Any) -> Any:
    S = ip.S
    if not V.is_intlike(v):
        raise ip.mkraise(SExc(_struct.error, ("required argument is not an integer",)))
    x = _I(v)
    if not S.fork(SBool(z3.And(x >= 0, x < 256**n))):
        raise ip.mkraise(SExc(_struct.error, ("argument out of range",)))
    b = _LE[n](x)
    S.assume(z3.Length(b) == n)
    S.assume(core_is_bytes(b))
    S.assume(_UNLE[n](b) == x)
    return b


def le_unpack(ip: Any, n: int, b: Any) -> Any:
    S = ip.S
    r = _UNLE[n](b)
    S.assume(z3.And(r >= 0, r < 256**n))
    S.assume(_LE[n](r) == b)
    return SInt(r)


def struct_pack(ip: Any, fmt: str, vals: list[Any]) -> Any:
    fields = parse_fmt(fmt)
    if len(fields) != len(vals):
        raise ip.mkraise(SExc(_struct.error, (f"pack expected {len(fields)} items for packing (got {len(vals)})",)))
    if not V.contains_sym(vals):
        try:
            return _struct.pack(fmt, *vals)
        except _struct.error as e:
            raise PyRaise(e) from None
    parts = []
    for (code, n), v in zip(fields, vals):
        if code == "s":
            if not isinstance(v, (bytes, SBytes)):
                raise ip.mkraise(SExc(_struct.error, ("argument for 's' must be a bytes object",)))
            if isinstance(v, bytes):
                parts.append(z3.StringVal(V.bytes_to_smt(v[:n].ljust(n, b"\0"))))
            else:
                raise Unsupported("struct 's' field with symbolic bytes")
        else:
            parts.append(le_pack(ip, n, v))
    return SBytes(z3.Concat(*parts) if len(parts) > 1 else parts[0])


def struct_unpack(ip: Any, fmt: str, data: Any, offset: Any = 0, exact: bool = True) -> tuple[Any, ...]:
    S = ip.S
    fields = parse_fmt(fmt)
    size = sum(n for _, n in fields)
    if not V.contains_sym([data, offset]):
        try:
            return _struct.unpack_from(fmt, data, offset) if not exact else _struct.unpack(fmt, data)
        except _struct.error as e:
            raise PyRaise(e) from None
    t = V.bytesterm(data)
    off = _I(offset)
    if exact:
        ok = z3.Length(t) == size
    else:
        ok = z3.And(off >= 0, z3.Length(t) - off >= size)
        if isinstance(offset, SInt):
            ok = z3.And(z3.If(off < 0, off + z3.Length(t), off) >= 0, z3.Length(t) - z3.If(off < 0, off + z3.Length(t), off) >= size)
            off = z3.If(off < 0, off + z3.Length(t), off)
    if not S.fork(SBool(ok)):
        raise ip.mkraise(SExc(_struct.error, (f"unpack requires a buffer of {size} bytes",)))
    out = []
    pos = off
    for code, n in fields:
        piece = z3.SubString(t, pos, n)
        if code == "s":
            out.append(SBytes(piece))
        else:
            out.append(le_unpack(ip, n, piece))
        pos = pos + n
    return tuple(out)


def struct_call(ip: Any, name: str, fmt: str, args: list[Any]) -> Any:
    if name == "pack":
        return struct_pack(ip, fmt, args)
    if name == "unpack":
        return struct_unpack(ip, fmt, args[0])
    if name == "unpack_from":
        return struct_unpack(ip, fmt, args[0], args[1] if len(args) > 1 else 0, exact=False)
    if name in ("pack_into",):
        raise Unsupported("struct.pack_into needs a buffer contract")
    raise Unsupported(f"struct.{name}")


def _m_struct_pack(ip: Any, fmt: str, *vals: Any) -> Any:
    return struct_pack(ip, fmt, list(vals))


def _m_struct_unpack(ip: Any, fmt: str, data: Any) -> Any:
    return struct_unpack(ip, fmt, data)


def _m_struct_unpack_from(ip: Any, fmt: str, data: Any, offset: Any = 0) -> Any:
    return struct_unpack(ip, fmt, data, offset, exact=False)


def _m_struct_calcsize(ip: Any, fmt: str) -> int:
    return _struct.calcsize(fmt)


def _m_re(mode: str) -> Any:
    def f(ip: Any, pattern: Any, s: Any, flags: int = 0) -> Any:
        import re as _re

        from . import regex

        if V.contains_sym(pattern):
            raise Unsupported("symbolic regex pattern")
        p = pattern if isinstance(pattern, _re.Pattern) else _re.compile(pattern, flags)
        if not V.contains_sym(s):
            return getattr(p, mode)(s)
        return regex.match_model(ip, p, s, mode)

    return f


import re as _re_mod

EXTRA_MODELS.update({_re_mod.match: _m_re("match"), _re_mod.fullmatch: _m_re("fullmatch"), _re_mod.search: _m_re("search")})

EXTRA_MODELS.update(
    {
        _struct.pack: _m_struct_pack,
        _struct.unpack: _m_struct_unpack,
        _struct.unpack_from: _m_struct_unpack_from,
        _struct.calcsize: _m_struct_calcsize,
    }
)


def _m_dataclasses_replace(ip: Any, obj: Any, /, **changes: Any) -> Any:
    """``dataclasses.replace(obj, **changes)``: a new instance built by the class constructor from the
    current values of the ``init`` fields overridden by ``changes`` (record of a real dataclass, or a
    concrete dataclass instance receiving symbolic changes)."""
    import dataclasses

    if not isinstance(obj, SObj) and not V.contains_sym(changes):
        return ip.native_call(dataclasses.replace, [obj], changes)
    cls = obj.cls if isinstance(obj, SObj) else type(obj)
    if cls is None or not dataclasses.is_dataclass(cls):
        raise raise_(ip, TypeError, "replace() should be called on dataclass instances")
    kw = dict(changes)
    for f in dataclasses.fields(cls):
        if not f.init:
            if f.name in kw:
                raise raise_(ip, ValueError, f"field {f.name} is declared with init=False, it cannot be specified with replace()")
            continue
        if f.name not in kw:
            kw[f.name] = ip.getattr_value(obj, f.name)
    return construct(ip, cls, [], kw)


import dataclasses as _dc_mod

EXTRA_MODELS[_dc_mod.replace] = _m_dataclasses_replace


def _m_bytes_fromhex(ip: Any, s: Any) -> Any:
    """``bytes.fromhex(s)``: bytes or ValueError; inverts ``bytes.hex()`` (``fromhex(x.hex()) == x``)."""
    if not V.contains_sym(s):
        return ip.native_call(bytes.fromhex, [s], {})
    if not isinstance(s, SStr):
        raise raise_(ip, TypeError, "fromhex() argument must be str")
    if not ip.S.fork(SBool(HEX_OK(s.t))):
        raise raise_(ip, ValueError, "non-hexadecimal number found in fromhex() arg")
    r = BYTES_UNHEX(s.t)
    ip.S.assume(core_is_bytes(r))
    return SBytes(r)


EXTRA_MODELS[bytes.fromhex] = _m_bytes_fromhex


def _m_math_pred(kind: str) -> Any:
    """``math.isfinite / isnan / isinf`` on IEEE binary64 values and ints."""

    def f(ip: Any, x: Any) -> Any:
        import math as _math

        if isinstance(x, SFloat):
            nan, inf = z3.fpIsNaN(x.t), z3.fpIsInf(x.t)
            return SBool({"isfinite": z3.Not(z3.Or(nan, inf)), "isnan": nan, "isinf": inf}[kind])
        if isinstance(x, (SInt, SBool)):
            return kind == "isfinite"
        if V.contains_sym(x):
            raise raise_(ip, TypeError, "must be real number")
        return ip.native_call(getattr(_math, kind), [x], {})

    return f


import math as _math_mod

EXTRA_MODELS.update({_math_mod.isfinite: _m_math_pred("isfinite"), _math_mod.isnan: _m_math_pred("isnan"), _math_mod.isinf: _m_math_pred("isinf")})


_register_checksums()
EXTRA_MODELS[object.__setattr__] = b_setattr  # the __slots__-friendly spelling of setattr()
EXTRA_MODELS[object.__getattribute__] = lambda ip, obj, name: ip.getattr_value(obj, name)
