"""pyvc — a small contract-based deductive verifier for a subset of Python.

The engine symbolically executes the *real* AST of functions in /repo (re-read on
every run), generates verification conditions from sidecar contracts, and discharges
them with z3 / cvc5.  See /verif/DESIGN.md §2–§4.
"""
