#!/usr/bin/env python3
"""Create a mutant patch:  tools/mkmutant.py Cxx name[.harmless] path/in/repo.py 'old text' 'new text'
Writes mutants/Cxx/<name>.patch (a unified diff against /repo's current file)."""
import difflib, os, sys
pid, name, rel, old, new = sys.argv[1:6]
src = open(os.path.join("/repo", rel)).read()
assert src.count(old) >= 1, f"old text not found in {rel}"
dst = src.replace(old, new, 1)
d = "".join(difflib.unified_diff(src.splitlines(True), dst.splitlines(True), f"a/{rel}", f"b/{rel}"))
out = os.path.join(os.path.dirname(os.path.dirname(os.path.abspath(__file__))), "mutants", pid)
os.makedirs(out, exist_ok=True)
open(os.path.join(out, name + ".patch"), "w").write(d)
print("wrote", os.path.join(out, name + ".patch"), len(d.splitlines()), "lines")
