#!/usr/bin/env python3
"""tools/store_seed.py <PID> <variant> <slug> <out_dir> <check_result> <caught_by> <needs>   -- files a confirmed seeded change under seeded/."""
import json, pathlib, shutil, sys

pid, var, slug, out, result, caught, needs = sys.argv[1:8]
out = pathlib.Path(out)
dst = pathlib.Path(__file__).resolve().parent.parent / "seeded" / f"{pid}_{var}_{slug}"
dst.mkdir(parents=True, exist_ok=True)
shutil.copy(out / f"{var}.diff", dst / "patch.diff")
shutil.copy(out / f"demo_{var}.py", dst / "demo.py")
if (out / "notes.md").exists():
    shutil.copy(out / "notes.md", dst / "author_notes.md")
meta = {
    "property": pid,
    "variant": var,
    "author": "independent sub-agent given only the property text and a scratch worktree",
    "needs_to_manifest": needs,
    "confirmed_by_coordinator": {
        "how": "tools/try_seed.sh: fresh scratch worktree of /repo; demo passes on the clean tree (pytest rc 0) and fails with patch.diff applied (rc 1); the touched module's test files keep every stable baseline test passing with the patch (tools/compare_baseline.py); ./check run with VERIF_REPO=<patched worktree>",
        "check_result": result,
        "caught_by": caught,
    },
}
(dst / "meta.json").write_text(json.dumps(meta, indent=1) + "\n")
print(dst)
