#!/usr/bin/env python3
"""tools/mkmutant_multi.py Cxx name[.harmless] path 'old1' 'new1' ['old2' 'new2' ...]  (several replacements in one file)"""
import difflib, os, sys
pid, name, rel = sys.argv[1:4]
pairs = sys.argv[4:]
src = open(os.path.join("/repo", rel)).read()
dst = src
for i in range(0, len(pairs), 2):
    assert dst.count(pairs[i]) >= 1, f"old text not found: {pairs[i][:60]!r}"
    dst = dst.replace(pairs[i], pairs[i + 1], 1)
d = "".join(difflib.unified_diff(src.splitlines(True), dst.splitlines(True), f"a/{rel}", f"b/{rel}"))
out = os.path.join(os.path.dirname(os.path.dirname(os.path.abspath(__file__))), "mutants", pid)
os.makedirs(out, exist_ok=True)
open(os.path.join(out, name + ".patch"), "w").write(d)
print("wrote", os.path.join(out, name + ".patch"), len(d.splitlines()), "lines")
