#!/usr/bin/env python3
"""Print the markdown table of all stored seeded changes (from seeded/*/meta.json)."""
import json, pathlib
root = pathlib.Path(__file__).resolve().parent.parent / "seeded"
print("| Seed | Needs to manifest | Result of `./check` on the patched tree | Caught by / what was strengthened |")
print("|---|---|---|---|")
for d in sorted(root.iterdir()):
    m = d / "meta.json"
    if not m.exists():
        continue
    j = json.loads(m.read_text())
    c = j.get("confirmed_by_coordinator", {})
    cb = j.get("checked_by")
    name = d.name + (f" (checked by {cb})" if cb else "")
    esc = lambda s: str(s).replace("|", "\\|").replace("\n", " ")
    print(f"| {name} | {esc(j.get('needs_to_manifest',''))} | {esc(c.get('check_result',''))} | {esc(c.get('caught_by',''))} |")
