#!/usr/bin/env bash
# tools/try_seed.sh <PID> <patch.diff> <demo.py> [pytest-targets...]
# Confirms a seeded change in a scratch worktree of /repo (outside /repo and /verif):
#  demo passes on the clean tree, fails with the patch; the given existing tests still pass with the patch;
#  then runs ./check PID against the patched tree.  The worktree is removed afterwards.
set -u
PID=$1; PATCH=$(realpath "$2"); DEMO=$(realpath "$3"); shift 3
WT=$(mktemp -d /tmp/tryseed.XXXXXX); rmdir "$WT"
git -C /repo worktree add -q "$WT" HEAD || exit 3
cleanup() { git -C /repo worktree remove --force "$WT" >/dev/null 2>&1; rm -rf "$WT"; }
trap cleanup EXIT
run_demo() { (cd "$WT" && cp "$DEMO" "$WT/_demo_seed.py" && PYTHONPATH="$WT" timeout ${DEMO_TIMEOUT:-300} /venv/bin/python -m pytest -o addopts="" -p no:timeout -p no:cacheprovider -q -x _demo_seed.py >/tmp/tryseed_demo.log 2>&1; echo $?); }
clean_rc=$(run_demo)
(cd "$WT" && git apply "$PATCH") || { echo "PATCH-DOES-NOT-APPLY"; exit 3; }
patched_rc=$(run_demo)
echo "demo: clean rc=$clean_rc patched rc=$patched_rc"
if [ $# -gt 0 ]; then
  (cd "$WT" && PYTHONPATH="$WT" timeout 1800 /venv/bin/python -m pytest -p no:cacheprovider -q "$@" --junitxml=/tmp/tryseed_tests.xml >/tmp/tryseed_tests.log 2>&1)
  python3 /verif/tools/compare_baseline.py /tmp/tryseed_tests.xml 2>/dev/null | grep -v MISSING | head -5
fi
rm -f "$WT/_demo_seed.py"
cd /verif && VERIF_REPO="$WT" ./check "$PID" > /tmp/tryseed_check.log 2>&1; rc=$?
echo "check $PID on patched tree: rc=$rc"; grep -E "^(REFUTED|VIOLATION|UNDECIDED)" /tmp/tryseed_check.log | cut -c1-220 | head -6; tail -1 /tmp/tryseed_check.log | cut -c1-200
