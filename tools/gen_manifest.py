#!/usr/bin/env python3
"""Regenerate MANIFEST.json from contracts/*.py (their MANIFEST dict) and tools/not_applicable.json."""
import ast, json, os, sys

V = os.path.dirname(os.path.dirname(os.path.abspath(__file__)))
props = [json.loads(l) for l in open(os.path.join(V, "properties.jsonl"))]
na = json.load(open(os.path.join(V, "tools", "not_applicable.json")))
checks, claimed = [], set()
ready = {l.strip() for l in open(os.path.join(V, "tools", "claimed.txt")) if l.strip()}
for p in props:
    pid = p["id"]
    if pid not in ready:
        continue
    path = os.path.join(V, "contracts", f"{pid}.py")
    if not os.path.exists(path):
        continue
    tree = ast.parse(open(path).read())
    meta = None
    for n in tree.body:
        if isinstance(n, ast.Assign) and any(isinstance(t, ast.Name) and t.id == "MANIFEST" for t in n.targets):
            meta = ast.literal_eval(n.value)
    if meta is None:
        continue
    claimed.add(pid)
    checks.append({
        "property_id": pid,
        "quick_cmd": f"./check {pid} --tier quick",
        "thorough_cmd": f"./check {pid} --tier thorough",
        "evidence_file": f"/verif/evidence/{pid}.json",
        "replay_cmd_template": f"./check {pid} --replay {{path}}",
        "engine": "pyvc",
        "level_claimed": {"category": "proof", "text": meta["level_text"], "design_ref": meta.get("design_ref", f"DESIGN.md §5 {pid}")},
        "level_note": meta["level_note"],
        "technique": meta.get("technique", "contract-based deductive verification: VCs generated from the real AST by pyvc, discharged by z3/cvc5"),
    })
hooks_commits = json.load(open(os.path.join(V, "tools", "repo_commits.json")))
m = {
    "version": 1,
    "setup_cmd": "./setup.sh",
    "hooks": {
        "guard": "QUERY_FARM_VGI_RPC_PYTHON_VERIF",
        "enable": "none required: the engine reads /repo's source and imports the real package; there is no instrumentation in /repo (the guard name is reserved and unused)",
        "baseline_off_cmd": "cd /repo && /venv/bin/python -m pytest -ra -q -p no:cacheprovider --timeout=900 --continue-on-collection-errors",
        "source_commits": hooks_commits.get("hook_commits", []),
        "add_only": True,
    },
    "engines": [{
        "name": "pyvc",
        "path": "/verif/pyvc",
        "serves_properties": sorted(claimed),
        "kind_free_text": "home-built deductive verifier for a Python subset: symbolic execution of the real AST re-read from /repo on every run, sidecar contracts (pre/post/raises/loop invariants/ghost traces/lock and dependency obligations) in /verif/contracts, VCs discharged by z3 5.1 with cvc5 1.4.0 (wheel) on unknowns, refutations replayed natively",
    }],
    "checks": checks,
    "notes": "fix: commits in /repo (unguarded by definition): " + ", ".join(hooks_commits.get("fix_commits", [])) + ". See DESIGN.md and known_findings.json.",
    "not_applicable": [{"property_id": p["id"], "reason": na.get(p["id"], "pending: contracts not built yet (DESIGN.md §9 build order)")} for p in props if p["id"] not in claimed],
}
json.dump(m, open(os.path.join(V, "MANIFEST.json"), "w"), indent=1)
try:
    import jsonschema
    jsonschema.validate(m, json.load(open("/root/.vp/MANIFEST.schema.json")))
    print(f"MANIFEST ok: {len(checks)} checks, {len(m['not_applicable'])} not applicable")
except ImportError:
    print("written (jsonschema not available to validate)")
