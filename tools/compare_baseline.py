#!/usr/bin/env python3
"""Compare a junit xml of the repo's suite with /root/.vp/BASELINE.json stable_pass."""
import json, sys, xml.etree.ElementTree as ET
base = json.load(open("/root/.vp/BASELINE.json"))
stable = set(base["stable_pass"])
res = {}
for tc in ET.parse(sys.argv[1]).getroot().iter("testcase"):
    tid = f"{tc.get('classname')}::{tc.get('name')}"
    bad = any(c.tag in ("failure", "error") for c in tc)
    skipped = any(c.tag == "skipped" for c in tc)
    res[tid] = "fail" if bad else ("skip" if skipped else "pass")
missing = [t for t in stable if t not in res]
failing = [t for t in stable if res.get(t) in ("fail",)]
skipped = [t for t in stable if res.get(t) == "skip"]
print(f"stable={len(stable)} pass={sum(1 for t in stable if res.get(t)=='pass')} fail={len(failing)} skip={len(skipped)} missing={len(missing)}")
for t in failing[:40]: print("FAIL", t)
for t in missing[:10]: print("MISSING", t)
for t in skipped[:10]: print("SKIP", t)
