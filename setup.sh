#!/usr/bin/env bash
# Build the overlay venv offline (idempotent).  See DESIGN.md §1 "Interpreter".
set -euo pipefail
cd "$(dirname "$0")"
V=.venv
if [ -x "$V/bin/python" ] && "$V/bin/python" -c "import z3, cvc5, jsonschema, vgi_rpc" >/dev/null 2>&1; then
  exit 0
fi
rm -rf "$V"
/venv/bin/python -m venv "$V"
PIP_NO_INDEX=1 "$V/bin/pip" install -q --no-index --find-links /opt/veriftools/wheels \
  z3-solver cvc5 crosshair-tool icontract deal jsonschema hypothesis >/dev/null
PYV=$("$V/bin/python" -c 'import sys;print(f"python{sys.version_info[0]}.{sys.version_info[1]}")')
echo "import site; site.addsitedir('/venv/lib/$PYV/site-packages')" > "$V/lib/$PYV/site-packages/repo_overlay.pth"
"$V/bin/python" -c "import z3, cvc5, jsonschema, vgi_rpc; print('overlay venv ok', z3.get_version_string())"
