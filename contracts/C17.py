"""C17 Request size caps and content decoding are enforced (DESIGN §5 C17).

Under contract: ``_MaxRequestBytesMiddleware.process_request`` (O1), ``_CompressionMiddleware.process_request``
(O2), the streaming decode loops of ``_decompress_body_zstd`` / ``_decompress_body_gzip`` with their peak
materialisation (O3), and ``_get_request_stream`` - the point where the RPC layer takes the body (O4).
falcon's request is an abstract record (path, content_length, get_header, bounded_stream.read, context);
``_codec.decompress`` is used *by contract* in O2 (that contract is C18.O1); zstandard / zlib are assumed
externals (contracts/lib_codec_model.py).
"""

from __future__ import annotations

import importlib.util
import io
import os
import sys
import zlib
from types import SimpleNamespace

import falcon
import pyarrow as pa
import z3
import zstandard

import vgi_rpc._codec as codec
import vgi_rpc.http.server._middleware as mw
import vgi_rpc.http.server._responses as responses
from pyvc import models
from pyvc.api import *  # noqa: F403
from pyvc.api import BoundedResult, PyRaise, ReplayResult, SExc, bounded, unit


def _load(name):
    p = os.path.join(os.path.dirname(os.path.abspath(__file__)), name + ".py")
    spec = importlib.util.spec_from_file_location("contracts_" + name, p)
    mod = importlib.util.module_from_spec(spec)
    sys.modules[spec.name] = mod
    spec.loader.exec_module(mod)
    return mod


lib = _load("lib_codec_model")
blen, sbytes, bcat = lib.blen, lib.sbytes, lib.bcat

MANIFEST = {
    "level_text": "Unbounded deductive proof over the real middleware code, for every path string, Content-Length, wire body, Content-Encoding header value, enabled-codec configuration, cap and decoder behaviour: the wire cap answers 413 before any read when Content-Length exceeds it and otherwise reads at most cap+1 bytes once; the decoding middleware answers 415 for unknown and for known-but-not-enabled codings, 413 when the decoder reports the limit, 400 for any other decode failure, and on success hands on exactly the decoder's output; identity bodies reach the RPC layer unchanged; the zstd/gzip decode loops never hold more than cap + one chunk of decoded bytes and return the decoded stream iff it fits the cap; _get_request_stream gives the RPC layer exactly those bytes. Tests try one bomb per codec; the proof covers every size relation including exactly-at-cap.",
    "level_note": "Assumes: falcon semantics (HTTPError in process_request stops dispatch and maps to its status; get_header None when absent; bounded_stream.read(n) = file semantics bounded by Content-Length), the zstandard/zlib reader contracts of contracts/lib_codec_model.py, _codec.decompress as proved in C18, header normalisation strip()/lower() abstracted as uninterpreted idempotent functions, exempt (health) paths carry no RPC body. NOT reduced: the middleware order and max_decompressed_bytes=max_request_bytes wiring inside make_wsgi_app, behaviour of zstd frames whose size header lies (library), peak allocation inside the C libraries - covered only by the labelled bounded stand-in on the real WSGI app. An incomplete (truncated) compressed stream is, per the libraries, a shorter decoded stream: whether it is refused is not demanded. Loop termination not verified; engine + z3/cvc5 trusted.",
    "technique": "contract-based deductive verification: abstract falcon request record with ghost wire body, by-contract decoder (C18), loop invariants over ghost decoder state with peak-materialisation preconditions, VCs from the real AST (pyvc), z3/cvc5; labelled bounded stand-in end-to-end on the real WSGI app",
    "design_ref": "DESIGN.md §5 C17",
}
EXPLANATION = MANIFEST["level_text"]
TRUSTED = [
    "pyvc VC generator and its encoding of Python ints/str/bytes/lists (DESIGN §3.1)",
    "z3 5.1.0 / cvc5 1.4.0",
    "falcon: an HTTPError raised in process_request stops dispatch and becomes its status (HTTPContentTooLarge=413, HTTPUnsupportedMediaType=415, HTTPBadRequest=400); req.get_header returns None when absent; req.bounded_stream.read(n) returns min(n, remaining) bytes of the body and never more than Content-Length in total; middleware run in list order",
    "zstandard / zlib reader contracts of contracts/lib_codec_model.py (exercised on the real libraries by C18's bounded stand-in)",
    "_codec.decompress contract (proved in C18): identity returns the data itself iff it fits the cap, zstd/gzip return the decoded stream (no longer than the cap) or raise DecompressionLimitExceeded / the library's error",
]
ASSUMPTIONS = [
    "str.strip()/str.lower() on the header value are uninterpreted idempotent functions (the specification uses the same normalised token)",
    "paths under the exempt prefix (health) carry no RPC body",
    "max_request_bytes >= 0; Content-Length, when present, is a non-negative int (falcon validates it)",
    "a zstd frame that declares a size decodes, through the one-shot API, to exactly that many bytes or raises (library); lying headers are covered by the bounded stand-in only",
    "make_wsgi_app wiring (order of the two middlewares, same cap for both) is observed on the real app by the bounded stand-in, not proved",
    "termination of the decode loops is not verified",
]

Limit = codec.DecompressionLimitExceeded
ENC = codec.Encoding
TooLarge, Unsupported415, BadRequest = falcon.HTTPContentTooLarge, falcon.HTTPUnsupportedMediaType, falcon.HTTPBadRequest
STATUS = {TooLarge: 413, Unsupported415: 415, BadRequest: 400}


def install_falcon_errors(S):
    for cls in STATUS:
        S.handlers[cls] = (lambda c: lambda S, *a, **kw: SExc(c, a, attrs=kw))(cls)


def status_of(out):
    if not out.raised:
        return None
    for cls, code in STATUS.items():
        if exc_is(out.exc, cls):
            return code
    return -1


def mk_request(S, *, path, content_length, wire, headers=None, context=None):
    """Abstract falcon request over a ghost wire body; reads are recorded as ('read', n, returned)."""
    stream = SObj(None, kind="BoundedStream")
    ctx = SObj(None, kind="ReqContext", **(context or {}))
    ctx.closed = True
    req = SObj(None, kind="Request", path=path, content_length=content_length, bounded_stream=stream, context=ctx)
    S.ghost["unread"] = wire
    headers = headers or {}

    def get_header(S, r, name, *a, **k):
        if name not in headers:
            raise Unsupported(f"contract view of the request has no header {name!r}")
        return headers[name]

    def read(S, st, n=None):
        unread = S.ghost["unread"]
        if n is None:
            S.ghost["unread"] = b""
            S.event("read", None, unread)
            return unread
        got, rest = sbytes("read"), sbytes("unread")
        S.assume(eq(unread, bcat(got, rest)))
        S.assume(blen(got) == ite(blen(unread) < n, blen(unread), n))  # file semantics: min(n, remaining)
        S.ghost["unread"] = rest
        S.event("read", n, got)
        return got

    S.handlers["Request.get_header"] = get_header
    S.handlers["BoundedStream.read"] = read
    return req, ctx


# ==========================================================================================
# C17.O1  _MaxRequestBytesMiddleware.process_request
# ==========================================================================================


class _NativeReq:
    def __init__(self, path, content_length, wire, headers=None):
        self.path, self.content_length = path, content_length
        self.bounded_stream = _SpyStream(wire)
        self.context = SimpleNamespace()
        self._headers = headers or {}

    def get_header(self, name, *a, **k):
        return self._headers.get(name)


class _SpyStream(io.BytesIO):
    def __init__(self, data):
        super().__init__(data)
        self.reads = []

    def read(self, n=-1):
        r = super().read(-1 if n is None else n)
        self.reads.append((n, len(r)))
        return r


def replay_max_bytes(inputs, ob):
    mx, path, ex = inputs["max_bytes"], inputs["path"], inputs["exempt_prefix"]
    cl = inputs["content_length"] if inputs.get("has_content_length") else None
    wire = inputs.get("wire", b"")
    wire = wire if isinstance(wire, bytes) else b""
    if cl is not None:
        wire = (wire + b"\x00" * max(0, min(cl, 1 << 20) - len(wire)))[: max(cl, 0)]
    m = mw._MaxRequestBytesMiddleware(mx, (ex,) if inputs.get("has_exempt") else ())
    req = _NativeReq(path, cl, wire)
    exempt = inputs.get("has_exempt") and (path == ex or path.startswith(ex + "/"))
    try:
        m.process_request(req, None)
        st = None
    except falcon.HTTPError as e:
        st = int(str(e.status)[:3])
    except Exception as e:
        return ReplayResult(True, f"raised {type(e).__name__}: {e}")
    reads = req.bounded_stream.reads
    if exempt:
        return ReplayResult(False, "exempt path: nothing demanded")
    problems = []
    size = cl if cl is not None else len(wire)
    if size > mx and st != 413:
        problems.append(f"body of {size} bytes > cap {mx} but status {st}")
    if size <= mx and st is not None:
        problems.append(f"body of {size} bytes <= cap {mx} refused with {st}")
    if cl is not None and reads:
        problems.append(f"read {reads} although Content-Length was present")
    if any(n is None or n < 0 or n > mx + 1 for n, _ in reads):
        problems.append(f"read sizes {reads} exceed cap+1")
    if st is None and cl is None and getattr(req.context, "capped_request_body", None) != wire:
        problems.append("capped_request_body is not the body")
    return ReplayResult(bool(problems), f"path={path!r} Content-Length={cl} body={len(wire)}B cap={mx}: status={st} reads={reads}; " + "; ".join(problems))


@unit(
    "C17.O1 _MaxRequestBytesMiddleware: wire cap, 413 before any read, at most cap+1 bytes read",
    targets=["vgi_rpc/http/server/_middleware.py::_MaxRequestBytesMiddleware.process_request", "vgi_rpc/http/server/_middleware.py::_MaxRequestBytesMiddleware._raise_too_large"],
    replay=replay_max_bytes,
    min_obligations=10,
)
def max_request_bytes(S):
    install_falcon_errors(S)
    mx = S.int("max_bytes")
    S.assume(mx >= 0)
    path = S.str("path")
    has_exempt = S.choose(2) == 1
    ex = S.str("exempt_prefix")
    has_cl = S.choose(2) == 1
    S.inputs["has_exempt"], S.inputs["has_content_length"] = has_exempt, has_cl
    cl = None
    wire = sbytes("wire")
    S.inputs["wire"] = wire
    if has_cl:
        cl = S.int("content_length")
        S.assume(cl >= 0)
    req, ctx = mk_request(S, path=path, content_length=cl, wire=wire)
    me = SObj(mw._MaxRequestBytesMiddleware, _max_bytes=mx, _exempt_prefixes=(ex,) if has_exempt else ())
    S.inline.add("_MaxRequestBytesMiddleware._raise_too_large")
    out = S.outcome(mw._MaxRequestBytesMiddleware.process_request, me, req, SObj(None, kind="Response"))
    reads = S.events("read")
    st = status_of(out)
    if has_exempt:
        exempt = Or(eq(path, ex), SBool(z3.PrefixOf(z3.Concat(ex.t, z3.StringVal("/")), path.t)))
        S.assume(Not(exempt))  # nothing is demanded of exempt (health) paths
    S.oblige("O1.raises_only_413", st in (None, 413), kind="raises")
    for _, n, got in reads:
        S.oblige("O1.never_asks_for_more_than_cap_plus_one_bytes", And(n >= 0, n <= mx + 1) if n is not None else False, kind="trace")
    if has_cl:
        S.oblige("O1.content_length_present_means_no_read_here", len(reads) == 0, kind="trace")
        if out.raised:
            S.oblige("O1.413_only_when_content_length_exceeds_cap", cl > mx, kind="raises")
        else:
            S.oblige("O1.content_length_over_cap_is_refused", cl <= mx)
            S.oblige("O1.body_left_for_the_bounded_stream", "capped_request_body" not in ctx.fields, kind="trace")
    else:
        S.oblige("O1.chunked_body_read_exactly_once", len(reads) == 1, kind="trace")
        if out.raised:
            S.oblige("O1.413_only_when_body_exceeds_cap", blen(wire) > mx, kind="raises")
        else:
            body = ctx.fields.get("capped_request_body")
            S.oblige("O1.body_handed_on_through_the_context", body is not None, kind="trace")
            if body is not None:
                S.oblige("O1.handlers_see_the_whole_body", eq(body, wire))
                S.oblige("O1.body_seen_by_handlers_fits_the_cap", blen(body) <= mx)
            S.canary("O1.canary.chunked_body_never_exactly_at_cap", blen(wire) < mx)


# ==========================================================================================
# C17.O2  _CompressionMiddleware.process_request
# ==========================================================================================

SUBSETS = [(), (ENC.ZSTD,), (ENC.GZIP,), (ENC.ZSTD, ENC.GZIP), (ENC.ZSTD, ENC.GZIP, ENC.IDENTITY)]


def norm_token(header):
    """The normalised token the specification talks about: lower(strip(header)), same abstraction as the engine's."""
    return SStr(models.PY_LOWER(models.PY_STRIP(header.t)))


def _native_mw(decode, cap):
    m = mw._CompressionMiddleware.__new__(mw._CompressionMiddleware)
    m._levels = {}
    m._decode = tuple(decode)
    m._max_decompressed_bytes = cap
    return m


def replay_compression(inputs, ob):
    decode = [ENC[n] for n in inputs["decode"]]
    cap = inputs["cap"] if inputs.get("capped") else None
    header = inputs.get("content_encoding") if inputs.get("has_header") else None
    if isinstance(inputs.get("token"), str) and header and header.strip().lower() != inputs["token"]:
        header = inputs["token"]  # the model interprets the abstracted strip()/lower() freely: replay the normalised token itself
    tok = (header or "").strip().lower()
    enc = next((e for e in ENC if e.value == tok), None)
    mode = inputs.get("decoder_mode", "returns")
    payload = b"vgi" * 5
    if cap is not None:
        payload = (payload * (cap // 15 + 2))[: max(cap - 1, 0) if mode != "limit" else cap + 1]
    if mode == "limit" and cap is None:
        return ReplayResult(False, "limit without cap: not reachable natively")
    if enc in (ENC.ZSTD, ENC.GZIP):
        wire = codec.compress(enc, payload) if mode != "error" else b"\x00garbage\xff"
    else:
        wire = payload
        if enc is ENC.IDENTITY and isinstance(inputs.get("wire"), bytes) and (cap is None or (len(inputs["wire"]) > cap) == (mode == "limit")):
            wire = inputs["wire"]
    req = _NativeReq("/m", None, wire, {"Content-Encoding": header})
    if inputs.get("capped_body"):
        req.context.capped_request_body = wire
    m = _native_mw(decode, cap)
    try:
        m.process_request(req, None)
        st = None
    except falcon.HTTPError as e:
        st = int(str(e.status)[:3])
    except Exception as e:
        return ReplayResult(True, f"raised {type(e).__name__}: {e}")
    seen = None
    ds = getattr(req.context, "decompressed_stream", None)
    if st is None:
        seen = ds.read() if ds is not None else responses._get_request_stream(req).read()
        seen = bytes(seen)
    if not tok:
        want, want_seen = None, wire
    elif enc is None:
        want, want_seen = 415, None
    elif enc is ENC.IDENTITY:
        want, want_seen = (413 if cap is not None and len(wire) > cap else None), wire
    elif enc not in decode:
        want, want_seen = 415, None
    elif mode == "error":
        want, want_seen = 400, None
    elif mode == "limit":
        want, want_seen = 413, None
    else:
        want, want_seen = None, payload
    bad = st != want or (st is None and seen != want_seen)
    return ReplayResult(bad, f"Content-Encoding={header!r} enabled={[e.value for e in decode]} cap={cap} body={len(wire)}B ({mode}): status={st} (expected {want}); RPC layer sees {None if seen is None else len(seen)} bytes (expected {None if want_seen is None else len(want_seen)})")


HEADER_CORPUS = ["gzip", "zstd", "identity", "GZIP", " gzip ", "gzip, br", "br, gzip", "gzip;q=1", "gzip; q=0", "br", "gzip, zstd", "zstd, gzip", "x-gzip", "identity, gzip", "gzip,", ",gzip", "gzip,gzip", "deflate", "gzip zstd", "*"]


def search_compression(ob, seed=0):
    """Bounded native search, used only when the proof is lost or the unit leaves the engine's fragment: a corpus of
    Content-Encoding spellings (case, padding, parameters, lists, repeats) x enabled decoders x cap, judged by the same
    oracle as the model replays (replay_compression)."""
    for header in HEADER_CORPUS:
        for decode in (["zstd", "gzip"], ["gzip"], ["zstd"], []):
            for capped in (False, True):
                for mode in ("returns", "error") + (("limit",) if capped else ()):
                    inputs = {"decode": [n.upper() for n in decode], "capped": capped, "cap": 64, "has_header": True, "content_encoding": header, "decoder_mode": mode}
                    try:
                        rr = replay_compression(inputs, ob)
                    except Exception as e:  # noqa: BLE001
                        rr = ReplayResult(False, f"harness raised {e!r}")
                    if rr.confirmed:
                        return inputs, rr
    return None


def classify_compression(inputs, ob):
    tok = ((inputs.get("content_encoding") if inputs.get("has_header") else None) or "").strip().lower()
    return "identity" if tok == "identity" else ""


@unit(
    "C17.O2 _CompressionMiddleware.process_request: 415 / 413 / 400 / decoded body handed on",
    targets=["vgi_rpc/http/server/_middleware.py::_CompressionMiddleware.process_request"],
    replay=replay_compression,
    search=search_compression,
    classify=classify_compression,
    min_obligations=40,
    by_contract=["vgi_rpc/_codec.py::decompress (C18.O1)"],
)
def compression_request(S):
    install_falcon_errors(S)
    decode = SUBSETS[S.choose(len(SUBSETS))]
    S.inputs["decode"] = [e.name for e in decode]
    capped = S.choose(2) == 1
    S.inputs["capped"] = capped
    cap = None
    if capped:
        cap = S.int("cap")
        S.assume(cap >= 0)
    hk = S.choose(3)  # header absent / present but empty / any non-empty value
    has_header = hk != 0
    S.inputs["has_header"] = has_header
    header = None
    if hk == 1:
        header = ""
        S.inputs["content_encoding"] = ""
    elif hk == 2:
        header = S.str("content_encoding")
        S.assume(header.length() >= 1)
    capped_body = S.choose(2) == 1
    S.inputs["capped_body"] = capped_body
    wire = sbytes("wire")
    S.inputs["wire"] = wire
    if isinstance(header, SStr):
        S.inputs["token"] = norm_token(header)
    context = {"capped_request_body": wire} if capped_body else {}
    if capped_body and capped:
        S.assume(blen(wire) <= cap)  # O1: what the wire-cap middleware hands on fits the (same) cap
    req, ctx = mk_request(S, path="/m", content_length=None, wire=wire, headers={"Content-Encoding": header}, context=context)
    me = SObj(mw._CompressionMiddleware, _decode=decode, _levels={}, _max_decompressed_bytes=cap)
    chosen = [None, ENC.ZSTD][S.choose(2)]
    S.handlers["_CompressionMiddleware._pick_response_encoding"] = lambda S, m, r: (chosen, False)
    for var in (mw._current_response_codec, mw._current_body_precompressed, mw._current_request_batch):
        S.handlers[(var, "set")] = (lambda v: lambda S, value: S.event("ctxvar", v.name, value))(var)
    R = sbytes("decoded")
    state = {}

    def decoder(S, enc, data, *, max_output_size=None):
        """_codec.decompress by contract (C18.O1)."""
        S.event("decode", enc, data, max_output_size)
        if enc is ENC.IDENTITY:
            if max_output_size is not None and S.fork(blen(data) > max_output_size):
                state["mode"] = S.inputs["decoder_mode"] = "limit"
                raise PyRaise(SExc(Limit, ("identity body exceeds cap",)))
            state["mode"] = S.inputs["decoder_mode"] = "returns"
            return data
        mode = ["returns", "limit", "error"][S.choose(3)]
        state["mode"] = mode
        S.inputs["decoder_mode"] = mode
        if mode == "limit":
            if max_output_size is None:
                raise PathEnd()  # the limit error exists only under a cap (C18.O1)
            raise PyRaise(SExc(Limit, ("decoded output exceeds cap",)))
        if mode == "error":
            raise PyRaise(SExc(zstandard.ZstdError if enc is ENC.ZSTD else zlib.error, ("corrupt stream",)))
        if max_output_size is not None:
            S.assume(blen(R) <= max_output_size)
        return R

    S.handlers[codec.decompress] = decoder
    S.handlers[pa.BufferReader] = lambda S, b: SObj(None, kind="BufferReader", data=b)
    out = S.outcome(mw._CompressionMiddleware.process_request, me, req, SObj(None, kind="Response"))
    st = status_of(out)
    decodes, reads = S.events("decode"), S.events("read")
    handed = ctx.fields.get("decompressed_stream")
    S.oblige("O2.raises_only_mapped_http_errors", st in (None, 413, 415, 400), kind="raises")

    def untouched(tag):
        S.oblige(f"O2.{tag}.passes_without_error", out.returned, kind="raises")
        if handed is None:
            S.oblige(f"O2.{tag}.body_left_unread_for_the_rpc_layer", not reads and not decodes, kind="trace")
        else:
            S.oblige(f"O2.{tag}.stream_handed_on_is_the_wire_body", handed.kind == "BufferReader" and isinstance(handed.fields["data"], SBytes), kind="trace")
            if isinstance(handed.fields.get("data"), SBytes):
                S.oblige(f"O2.{tag}.stream_handed_on_equals_the_wire_body", eq(handed.fields["data"], wire))

    if not isinstance(header, SStr):
        untouched("no_header" if header is None else "empty_header")
        return
    tok = norm_token(header)
    if out.returned and handed is None and not decodes:
        # passed through untouched: allowed only for a blank token or identity
        S.oblige("O2.untouched_only_for_blank_or_identity", Or(eq(tok, ""), eq(tok, "identity")))
        S.oblige("O2.untouched_body_is_still_unread", not reads, kind="trace")
        return
    known = {e: eq(tok, e.value) for e in ENC}
    if st == 415:
        S.oblige("O2.415_only_for_unknown_or_disabled_coding", And(Not(eq(tok, "")), *[Not(known[e]) for e in decode]), kind="raises")
        S.oblige("O2.415_before_touching_the_body", not reads and not decodes, kind="trace")
        S.oblige("O2.identity_body_reaches_the_rpc_layer_unchanged", Not(known[ENC.IDENTITY]), kind="raises")
        S.canary("O2.canary.415_only_for_unknown_tokens", And(*[Not(known[e]) for e in ENC]))
        return
    # from here on the middleware decided to decode: the token names an enabled coding (or identity)
    S.oblige("O2.blank_token_is_not_decoded", Not(eq(tok, "")))
    S.oblige("O2.decodes_exactly_once", len(decodes) == 1, kind="trace")
    if len(decodes) != 1:
        return
    _, enc, data, mos = decodes[0]
    S.oblige("O2.decoded_coding_is_the_one_named_by_the_header", known[enc] if isinstance(enc, ENC) else False)
    S.oblige("O2.decoded_coding_is_enabled_or_identity", enc in decode or enc is ENC.IDENTITY, kind="trace")
    S.oblige("O2.decoder_gets_the_cap", eq(mos, cap) if (mos is None) == (cap is None) else False)
    S.oblige("O2.decoder_gets_the_whole_wire_body", eq(data, wire) if isinstance(data, (SBytes, bytes)) else False)
    if capped_body:
        S.oblige("O2.capped_body_is_not_read_again", not reads, kind="trace")
    else:
        S.oblige("O2.wire_body_read_once", len(reads) == 1, kind="trace")
    mode = state.get("mode")
    if mode == "limit":
        S.oblige("O2.limit_exceeded_is_413", st == 413, kind="raises")
    elif mode == "error":
        S.oblige("O2.other_decode_failure_is_400", st == 400, kind="raises")
    else:
        S.oblige("O2.successful_decode_passes", out.returned, kind="raises")
        want = wire if enc is ENC.IDENTITY else R
        ok = handed is not None and handed.kind == "BufferReader" and isinstance(handed.fields.get("data"), (SBytes, bytes))
        S.oblige("O2.a_stream_over_decoded_bytes_is_handed_on", ok, kind="trace")
        if ok:
            S.oblige("O2.stream_handed_on_is_exactly_the_decoder_output", eq(handed.fields["data"], want))
        if capped:
            S.oblige("O2.decoded_body_handed_on_fits_the_cap", blen(want) <= cap)
        S.canary("O2.canary.decoded_body_never_exactly_at_cap", blen(want) < cap if capped else True)


# ==========================================================================================
# C17.O3  decode loops: cap logic + peak materialisation
# ==========================================================================================

c18 = None


def _c18():
    """Native replay helpers are shared with C18 (loaded lazily, outside any unit registry)."""
    global c18
    if c18 is None:
        from pyvc import api

        api._CURRENT.append([])
        try:
            c18 = _load("C18")
        finally:
            api._CURRENT.pop()
    return c18


class _Spy:
    """Wraps the real decoder objects and records every bounded read (native replay of O3)."""

    def __init__(self):
        self.events = []
        self.total = 0

    def zstd(self):
        spy = self
        real = zstandard.ZstdDecompressor

        class Reader:
            def __init__(self, r):
                self.r = r

            def __enter__(self):
                self.r.__enter__()
                return self

            def __exit__(self, *a):
                return self.r.__exit__(*a)

            def read(self, n=-1):
                c = self.r.read(n)
                spy.events.append(("read", n, spy.total))
                spy.total += len(c)
                return c

            def readinto(self, buf):
                n = self.r.readinto(buf)
                spy.events.append(("read", len(buf), spy.total))
                spy.total += n
                return n

            def __getattr__(self, name):
                return getattr(self.r, name)

        class D:
            def __init__(self, *a, **k):
                self.d = real(*a, **k)

            def decompress(self, data, *a, **k):
                out = self.d.decompress(data, *a, **k)
                spy.events.append(("oneshot", len(out), 0))
                return out

            def stream_reader(self, data, *a, **k):
                return Reader(self.d.stream_reader(data, *a, **k))

            def __getattr__(self, name):
                return getattr(self.d, name)

        return D

    def zlibobj(self):
        spy = self
        real = zlib.decompressobj

        class O:
            def __init__(self, *a, **k):
                self.o = real(*a, **k)

            def __getattr__(self, name):  # unconsumed_tail, eof, unused_data, copy ...
                return getattr(self.o, name)

            def decompress(self, buf, n=0):
                c = self.o.decompress(buf, n)
                spy.events.append(("read", n, spy.total))
                spy.total += len(c)
                return c

            def flush(self, *a):
                spy.events.append(("flush", len(self.o.unconsumed_tail), spy.total))
                c = self.o.flush(*a)
                spy.total += len(c)
                return c

        return O


def _replay_loop(which, inputs):
    from unittest import mock

    C = _c18()
    D, m = C._D_of(inputs), inputs["max_output_size"]
    spy = _Spy()
    chunk = codec._DECOMPRESS_CHUNK_BYTES
    if which == "zstd":
        frame = C.zstd_frame(D, inputs.get("header") == "declared")
        with mock.patch.object(zstandard, "ZstdDecompressor", spy.zstd()):
            bad, txt = C.judge_native(lambda: codec._decompress_body_zstd(frame, max_output_size=m), D, m)
    else:
        frame = C.gzip_frame(D)
        with mock.patch.object(zlib, "decompressobj", spy.zlibobj()):
            bad, txt = C.judge_native(lambda: codec._decompress_body_gzip(frame, max_output_size=m), D, m)
    problems = []
    for kind, n, before in spy.events:
        if kind == "read" and (n is None or n < 1 or before + n > m + chunk):
            problems.append(f"read({n}) with {before} bytes already decoded exceeds cap+chunk")
        if kind == "oneshot" and n > m:
            problems.append(f"one-shot decode materialised {n} bytes > cap")
        if kind == "flush" and n:
            problems.append(f"flush() reached with {n} undecoded input bytes (decoded without limit)")
    return ReplayResult(bad or bool(problems), f"{which} ({inputs.get('header', '')}) D={len(D)}B cap={m}: {txt}; reads={spy.events[:6]}; " + "; ".join(problems))


def replay_zstd_loop(inputs, ob):
    return _replay_loop("zstd", inputs)


def replay_gzip_loop(inputs, ob):
    return _replay_loop("gzip", inputs)


def _search(which):
    def search(ob, seed):
        for header in ("declared", "unknown") if which == "zstd" else ("",):
            for D, m in _c18()._grid():
                if m is None:
                    continue
                inputs = {"D": D, "max_output_size": m, "header": header}
                rr = _replay_loop(which, inputs)
                if rr.confirmed:
                    return {**inputs, "D": D[:64]}, rr
        return None

    return search


def judge_capped(S, tag, out, D, cap, declared=None):
    """C17: a decoded body longer than the cap is refused with the limit error, anything else the decoder
    cannot decode is the library's error (-> 400 in O2), otherwise the whole decoded stream comes back."""
    if out.raised:
        if exc_is(out.exc, Limit):
            over = blen(D) > cap if declared is None else Or(blen(D) > cap, declared > cap)
            S.oblige(f"O3.{tag}.limit_error_only_when_decoded_or_declared_size_exceeds_cap", over, kind="raises")
        else:
            S.oblige(f"O3.{tag}.other_errors_are_the_librarys", getattr(out.exc, "attrs", {}).get("library_error") is True, kind="raises")
        return
    S.oblige(f"O3.{tag}.returns_the_whole_decoded_stream", eq(out.value, D))
    S.oblige(f"O3.{tag}.decoded_body_fits_the_cap", blen(D) <= cap)


@unit(
    "C17.O3z _decompress_body_zstd under a cap: result and peak materialisation",
    targets=["vgi_rpc/_codec.py::_decompress_body_zstd", "vgi_rpc/_codec.py::_zstd_content_size"],
    replay=replay_zstd_loop,
    search=_search("zstd"),
    min_obligations=20,
)
def zstd_loop(S):
    data, D = sbytes("data"), sbytes("D")
    S.inputs["D"] = D
    cap = S.int("max_output_size")
    S.assume(cap >= 0)
    header = ["declared", "unknown", "unknown_signed"][S.choose(3)]
    S.inputs["header"] = "declared" if header == "declared" else "unknown"
    declared = None
    if header == "declared":
        declared = S.int("declared")
        S.assume(And(declared >= 0, declared < 2**64 - 1))  # may lie: tied to len(D) only where the one-shot API returns
    L = lib.CodecLibs(S, data, D, cap, declared=declared, unknown_sentinel=2**64 - 1 if header == "unknown" else -1, lib_errors=True, bound_reads=True)
    L.install_loops()
    S.inline.add("_zstd_content_size")
    out = S.outcome(codec._decompress_body_zstd, data, max_output_size=cap)
    judge_capped(S, "zstd", out, D, cap, declared)
    if out.returned:
        S.canary("O3.zstd.canary.never_exactly_at_cap", blen(D) < cap)


@unit(
    "C17.O3g _decompress_body_gzip under a cap: result and peak materialisation",
    targets=["vgi_rpc/_codec.py::_decompress_body_gzip"],
    replay=replay_gzip_loop,
    search=_search("gzip"),
    min_obligations=14,
)
def gzip_loop(S):
    data, D = sbytes("data"), sbytes("D")
    S.inputs["D"] = D
    cap = S.int("max_output_size")
    S.assume(cap >= 0)
    S.assume(Implies(blen(data) == 0, blen(D) == 0))
    L = lib.CodecLibs(S, data, D, cap, lib_errors=True, bound_reads=True)
    L.install_loops()
    out = S.outcome(codec._decompress_body_gzip, data, max_output_size=cap)
    judge_capped(S, "gzip", out, D, cap)
    if out.returned:
        S.canary("O3.gzip.canary.never_exactly_at_cap", blen(D) < cap)


# ==========================================================================================
# C17.O4  _get_request_stream: what the RPC layer reads
# ==========================================================================================


def replay_get_stream(inputs, ob):
    wire = inputs.get("wire", b"")
    wire = wire if isinstance(wire, bytes) else b""
    req = _NativeReq("/m", None, wire)
    decoded = b"decoded:" + wire
    if inputs.get("decoded_present"):
        req.context.decompressed_stream = pa.BufferReader(decoded)
    if inputs.get("capped_body"):
        req.context.capped_request_body = wire
    got = bytes(responses._get_request_stream(req).read())
    want = decoded if inputs.get("decoded_present") else wire
    return ReplayResult(got != want, f"_get_request_stream returned {len(got)} bytes, expected {len(want)}")


@unit(
    "C17.O4 _get_request_stream: the RPC layer reads the decoded stream, else the (capped) wire body",
    targets=["vgi_rpc/http/server/_responses.py::_get_request_stream"],
    replay=replay_get_stream,
    min_obligations=6,
)
def get_request_stream(S):
    decoded_present = S.choose(2) == 1
    capped_body = S.choose(2) == 1
    S.inputs["decoded_present"], S.inputs["capped_body"] = decoded_present, capped_body
    wire = sbytes("wire")
    S.inputs["wire"] = wire
    context = {}
    ds = SObj(None, kind="BufferReader", data=sbytes("decoded"))
    if decoded_present:
        context["decompressed_stream"] = ds
    if capped_body:
        context["capped_request_body"] = wire
    req, ctx = mk_request(S, path="/m", content_length=None, wire=wire, context=context)
    S.handlers[(responses._current_request_batch, "set")] = lambda S, value: S.event("ctxvar", "request_batch", value)
    S.handlers[pa.BufferReader] = lambda S, b: SObj(None, kind="BufferReader", data=b)
    out = S.outcome(responses._get_request_stream, req)
    reads = S.events("read")
    S.oblige("O4.never_raises", out.returned, kind="raises")
    if not out.returned:
        return
    if decoded_present:
        S.oblige("O4.decoded_stream_is_what_the_rpc_layer_reads", out.value is ds and not reads, kind="trace")
        return
    v = out.value
    S.oblige("O4.wire_body_wrapped_for_arrow", isinstance(v, SObj) and v.kind == "BufferReader", kind="trace")
    if isinstance(v, SObj) and v.kind == "BufferReader":
        S.oblige("O4.rpc_layer_reads_exactly_the_wire_body", eq(v.fields["data"], wire))
    if capped_body:
        S.oblige("O4.capped_body_is_not_read_again", not reads, kind="trace")
    else:
        S.oblige("O4.uncapped_body_read_once_in_full", len(reads) == 1 and reads[0][1] is None, kind="trace")
    S.canary("O4.canary.rpc_layer_body_is_empty", blen(v.fields["data"]) == 0 if isinstance(v, SObj) else True)


# ==========================================================================================
# bounded stand-in: the real WSGI app end to end (wiring in make_wsgi_app, lying size headers)
# ==========================================================================================


def _echo_app(cap):
    from typing import Protocol

    from vgi_rpc import RpcServer
    from vgi_rpc.http import make_wsgi_app

    class Svc(Protocol):
        def echo(self, data: bytes) -> bytes: ...

    class Impl:
        def echo(self, data: bytes) -> bytes:
            return data

    return make_wsgi_app(RpcServer(Svc, Impl()), token_key=b"k" * 32, max_request_bytes=cap)


def _request_body(payload: bytes) -> bytes:
    from pyarrow import ipc

    buf = io.BytesIO()
    schema = pa.schema([pa.field("data", pa.binary(), nullable=False)])
    md = pa.KeyValueMetadata({b"vgi_rpc.method": b"echo", b"vgi_rpc.request_version": b"1"})
    with ipc.new_stream(buf, schema) as w:
        w.write_batch(pa.RecordBatch.from_pydict({"data": [payload]}, schema=schema), custom_metadata=md)
    return buf.getvalue()


def _echoed(content: bytes):
    from pyarrow import ipc

    try:
        t = ipc.open_stream(io.BytesIO(content)).read_all()
        return t.column(0)[0].as_py()
    except Exception:
        return None


def _lying_frame(raw: bytes, lie: int):
    f = bytearray(zstandard.ZstdCompressor().compress(raw))
    fhd = f[4]
    code, single = fhd >> 6, (fhd >> 5) & 1
    off = 5 + (0 if single else 1)
    width = {0: 1 if single else 0, 1: 2, 2: 4, 3: 8}[code]
    val = lie - (256 if code == 1 else 0)
    if width == 0 or val < 0 or val >= 256**width:
        return None
    f[off : off + width] = val.to_bytes(width, "little")
    return bytes(f) if zstandard.get_frame_parameters(bytes(f)).content_size == lie else None


@bounded(
    "O5.real_wsgi_app_end_to_end",
    bound="real make_wsgi_app(max_request_bytes=cap) + falcon test client, echo(data: bytes) service; request bodies of 3 payload sizes with cap in {len-1, len, len+1} relative to the decoded body and to the wire body; codings none/identity/zstd (declared)/zstd streaming/gzip, upper-case and padded tokens, unknown tokens, zstd disabled by VGI_HTTP_DISABLE_ZSTD; garbage bodies; zstd frames with lying size headers; 16 MiB zero bombs under tracemalloc",
    tiers=("quick", "thorough"),
)
def standin_end_to_end(tier, seed):
    import random
    import tracemalloc

    import falcon.testing

    rnd = random.Random(seed)
    n = 0
    fails: list[str] = []
    CT = {"Content-Type": "application/vnd.apache.arrow.stream"}

    def bad(msg):
        if len(fails) < 10:
            fails.append(msg)

    def post(app, body, enc):
        h = dict(CT)
        if enc is not None:
            h["Content-Encoding"] = enc
        r = falcon.testing.TestClient(app).simulate_post("/echo", body=body, headers=h)
        return r.status_code, r.content

    def zs(raw):
        co = zstandard.ZstdCompressor().compressobj()
        return co.compress(raw) + co.flush()

    codings = [
        ("none", None, lambda b: b),
        ("identity", "identity", lambda b: b),
        ("zstd", "zstd", lambda b: zstandard.ZstdCompressor().compress(b)),
        ("zstd-streaming", " ZSTD ", zs),
        ("gzip", "gzip", lambda b: codec.compress(ENC.GZIP, b)),
        ("gzip-upper", "GZip", lambda b: codec.compress(ENC.GZIP, b)),
    ]
    for size in (10, 3000, 70000):
        payload = rnd.randbytes(size // 2) + b"\x00" * (size - size // 2)
        raw = _request_body(payload)
        for name, token, enc in codings:
            wire = enc(raw)
            for cap in sorted({len(raw) - 1, len(raw), len(raw) + 1, len(wire) - 1, len(wire), len(wire) + 1}):
                app = _echo_app(cap)
                st, content = post(app, wire, token)
                n += 1
                fits = len(raw) <= cap and len(wire) <= cap
                if fits and (st != 200 or _echoed(content) != payload):
                    bad(f"{name}: body {len(raw)}B (wire {len(wire)}B) within cap {cap} answered {st}, echo {'ok' if _echoed(content) == payload else 'differs'}")
                if not fits and st != 413:
                    bad(f"{name}: body {len(raw)}B (wire {len(wire)}B) over cap {cap} answered {st} instead of 413")
    raw = _request_body(b"x" * 100)
    app = _echo_app(1 << 20)
    for token in ("br", "deflate", "zstd, gzip", "x-gzip", "identity;q=1"):
        st, _ = post(app, raw, token)
        n += 1
        if st != 415:
            bad(f"unknown coding {token!r} answered {st} instead of 415")
    for token, body in (("gzip", b"not gzip at all"), ("zstd", b"\x28\xb5\x2f\xfd garbage"), ("zstd", b"short"), ("gzip", codec.compress(ENC.ZSTD, raw))):
        st, _ = post(app, body, token)
        n += 1
        if st != 400:
            bad(f"undecodable {token} body answered {st} instead of 400")
    old = os.environ.get("VGI_HTTP_DISABLE_ZSTD")
    os.environ["VGI_HTTP_DISABLE_ZSTD"] = "1"
    try:
        st, _ = post(_echo_app(1 << 20), zstandard.ZstdCompressor().compress(raw), "zstd")
        n += 1
        if st != 415:
            bad(f"disabled coding zstd answered {st} instead of 415")
    finally:
        if old is None:
            os.environ.pop("VGI_HTTP_DISABLE_ZSTD", None)
        else:
            os.environ["VGI_HTTP_DISABLE_ZSTD"] = old
    # lying size headers: never a 200 with other bytes, never accepted beyond the cap
    big = _request_body(b"y" * 5000)
    for lie in (len(big) - 1, len(big) + 1, 100, 4000, 10**6):
        f = _lying_frame(big, lie)
        if f is None:
            continue
        for cap in (4096, 1 << 20):
            st, content = post(_echo_app(cap), f, "zstd")
            n += 1
            if st not in (400, 413):
                bad(f"zstd frame declaring {lie}B for a {len(big)}B body under cap {cap} answered {st}")
    # bombs: tiny on the wire, 16 MiB decoded; refused without materialising them
    bomb = _request_body(b"\x00" * (16 << 20))
    cap = 1 << 20
    app = _echo_app(cap)
    for name, token, enc in codings[2:5]:
        wire = enc(bomb)
        tracemalloc.start()
        st, _ = post(app, wire, token)
        _, peak = tracemalloc.get_traced_memory()
        tracemalloc.stop()
        n += 1
        if st != 413:
            bad(f"{name} bomb answered {st} instead of 413")
        if peak > cap + (4 << 20):
            bad(f"{name} bomb: peak traced allocation {peak} bytes for cap {cap}")
    return BoundedResult(n, fails)
