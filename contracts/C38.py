"""C38 HTTP retries are bounded and never duplicate non-idempotent calls (DESIGN §5 C38).

Units:
  O1/O2  ``_request_with_retry``: the retry loop cut at its head with the invariant
         ``#requests == attempt`` (ghost counter fed by the ``make_request`` contract); every request
         has budget left (``#requests < max_retries + 1``), the back edge is taken only after an
         outcome the property allows to be retried, every sleep is a delay computed by
         ``_compute_delay`` (hence inside ``[0, backoff_max]``), every other outcome leaves at once.
  O3     ``_compute_delay`` bit-exactly in IEEE binary64 (z3 FloatingPoint); L1 is the IEEE product lemma
         used for the precondition of ``random.uniform`` (proved once, no multiplier in the other queries).
  O4     ``_parse_retry_after`` raises nothing, returns ``None`` or a float.
  O5     ``HttpRetryConfig.__post_init__`` establishes what O1-O3 assume (except "not NaN").
  O6     ``_post_with_retry`` / ``_options_with_retry`` issue exactly the bare request when retry is
         off, and otherwise delegate to the loop with the caller's configuration and a closure that
         issues exactly one request per call.
  O7     ``HttpStreamSession.exchange`` / ``cancel`` / ``_send_continuation``: the non-idempotent
         posts never go through the retrying helper.
"""

from __future__ import annotations

import contextlib
import random

import httpx2
import z3

import vgi_rpc.http._client as cl
import vgi_rpc.http._retry as rt
from pyvc.api import *  # noqa: F403
from pyvc.api import PyRaise, ReplayResult, unit
from vgi_rpc.rpc import RpcError

MANIFEST = {
    "level_text": "Deductive proof over the real retry loop, delay computation and stream calls: for every max_retries >= 0, every set of retryable status codes (uninterpreted membership), every attempt number and every outcome of a request (any status, connect error, timeout, protocol error with any message text, any other exception; Retry-After absent / unparseable / any double), a request is issued only with budget left (#requests == attempt < max_retries + 1), the loop continues only after a retryable status, connect error/timeout with retry_on_connection_error, or a RemoteProtocolError whose text contains 'without sending a response', every other outcome returns that response or re-raises that exception at once, and every sleep is the delay computed by _compute_delay, which is proved bit-exactly in IEEE binary64 to lie in [0, backoff_max] for every backoff_base, backoff_max >= 0 (incl. +inf) and every Retry-After double including NaN, +-inf and negatives. exchange() posts once plus exactly once more iff the first answer was 413; cancel() posts at most once and swallows every exception; neither reaches _post_with_retry. Tests script a handful of fault sequences; the proof covers all of them by induction over the attempt number.",
    "level_note": "Assumes: random.uniform(0, x) in [0, x] for x >= 0 (incl. +inf; CPython can return NaN for x = +inf when random() == 0.0); backoff_base / backoff_max not NaN (__post_init__ accepts NaN); max_retries <= 1024 so that 2**attempt converts to a float (beyond that _compute_delay raises OverflowError, shown by O3); email.utils.parsedate_to_datetime returns a naive/aware datetime or raises ValueError or OverflowError (observed for an absurd zone offset); the httpx client / make_request callable issues one HTTP request per call; response decoding helpers issue no exchange request; termination unverified; engine + z3 FloatingPoint theory trusted.",
    "technique": "contract-based deductive verification: loop invariant over a ghost request counter + ghost trace of req/sleep/post events, bit-exact binary64 VCs for the delay, finite outcome forks via S.choose, VCs by pyvc, z3",
    "design_ref": "DESIGN.md §5 C38",
}
EXPLANATION = MANIFEST["level_text"]
TRUSTED = [
    "pyvc VC generator; its encoding of Python float operations as z3 FloatingPoint (RNE), min()/max() in CPython's comparison order, int -> float conversion (finite, sign, monotone; OverflowError beyond binary64)",
    "z3 5.1.0 (FloatingPoint, strings) / cvc5 1.4.0",
    "httpx2 exception hierarchy as imported (ConnectError, TimeoutException, RemoteProtocolError are unrelated siblings under TransportError)",
]
ASSUMPTIONS = [
    "random.uniform(0, x) returns a number r >= 0 whenever x is a number >= 0 (the lower half of the stdlib contract 0 <= r <= x; the upper half is not needed because the clamp bounds the delay). For x = +inf (backoff_base * 2**attempt overflows) CPython computes inf * random(), which is NaN when random() == 0.0 - excluded by this contract. That x is a number >= 0 is proved at the call (O3.pre_uniform_*, via lemma C38.L1)",
    "backoff_base and backoff_max are not NaN: HttpRetryConfig.__post_init__ rejects negatives only (NaN < 0 is false), shown by canary O5.canary.validation_rejects_nan",
    "max_retries <= 1024: _compute_delay(attempt) raises OverflowError for attempt >= 1024 (2**attempt does not convert to float), proved as O3.raises_only_beyond_float_range",
    "one call of make_request / client.post / client.options is one HTTP request (httpx is outside the contract)",
    "email.utils.parsedate_to_datetime(str): returns an aware or naive datetime, or raises ValueError, or OverflowError (CPython 3.13: timedelta(seconds=<huge zone offset>)); datetime subtraction gives a finite timedelta or TypeError for naive/aware mixes",
    "float(str) returns some double (any, incl. NaN/inf) or raises ValueError",
    "exchange()/cancel(): request building (pyarrow IPC, metadata), body externalisation (_maybe_externalize_request / _externalize_request_body talk to the upload-URL endpoint, not to /exchange) and response decoding (_open_response_stream, _read_batch_with_log_check, _drain_stream) are by contract 'returns or raises, issues no /exchange request'",
    "loop termination is not verified (range() over a finite bound)",
]

MARKER = "without sending a response"
RETRYABLE = z3.Function("retryable_status", z3.IntSort(), z3.BoolSort())  # membership in config.retryable_status_codes: any set


# ------------------------------------------------------------------------------------------
# float helpers (contract side)
# ------------------------------------------------------------------------------------------


def fle(a, b):
    return SBool(z3.fpLEQ(floatterm(a), floatterm(b)))


def flt(a, b):
    return SBool(z3.fpLT(floatterm(a), floatterm(b)))


def is_nan(a):
    return SBool(z3.fpIsNaN(floatterm(a)))


def sb(x):
    return x if isinstance(x, SBool) else SBool(z3.BoolVal(bool(x)))


def mk_config(S, **over):
    f = dict(
        max_retries=S.int("max_retries"),
        backoff_base=S.float("backoff_base"),
        backoff_max=S.float("backoff_max"),
        retryable_status_codes=SObj(None, kind="StatusSet"),
        retry_on_connection_error=True,
        respect_retry_after=True,
    )
    f.update(over)
    S.handlers["StatusSet.__contains__"] = lambda S, c, item: SBool(RETRYABLE(item.t if isinstance(item, SInt) else z3.IntVal(int(item))))
    return SObj(rt.HttpRetryConfig, **f)


# ------------------------------------------------------------------------------------------
# O3  _compute_delay in IEEE binary64
# ------------------------------------------------------------------------------------------


class _patched_uniform(contextlib.AbstractContextManager):
    """Native replay: random.uniform answers with the model's jitter (checked against its contract)."""

    def __init__(self, jitter):
        self.jitter, self.calls = jitter, []

    def __enter__(self):
        self.orig = random.uniform

        def fake(a, b):
            self.calls.append((a, b))
            return self.jitter if self.jitter is not None else self.orig(a, b)

        random.uniform = fake
        return self

    def __exit__(self, *a):
        random.uniform = self.orig
        return False


def replay_delay(inputs, ob):
    base, bmax, attempt = inputs["backoff_base"], inputs["backoff_max"], inputs["attempt"]
    ra = inputs.get("retry_after") if inputs.get("has_retry_after") else None
    jitter = inputs.get("jitter")
    if not (isinstance(base, float) and isinstance(bmax, float) and base >= 0 and bmax >= 0 and isinstance(attempt, int) and attempt >= 0):
        return ReplayResult(False, "model outside the precondition")
    cfg = rt.HttpRetryConfig(max_retries=3, backoff_base=base, backoff_max=bmax, respect_retry_after=bool(inputs.get("respect", True)))
    with _patched_uniform(jitter if isinstance(jitter, float) else None) as pu:
        try:
            d = rt._compute_delay(attempt, cfg, ra)
        except OverflowError as e:
            return ReplayResult(attempt < 1024, f"_compute_delay({attempt}, base={base!r}, max={bmax!r}, retry_after={ra!r}) raised OverflowError: {e}")
        except Exception as e:
            return ReplayResult(True, f"_compute_delay({attempt}, base={base!r}, max={bmax!r}, retry_after={ra!r}) raised {type(e).__name__}: {e}")
    bad = not (isinstance(d, float) and 0 <= d <= bmax)
    note = ""
    if pu.calls and isinstance(jitter, float) and not (0 <= jitter <= pu.calls[0][1]):
        note = f" (model jitter above uniform's upper bound {pu.calls[0][1]!r}; only 0 <= jitter is assumed)"
    return ReplayResult(bad, f"_compute_delay({attempt}, base={base!r}, max={bmax!r}, retry_after={ra!r}, jitter={jitter!r}) -> {d!r}; required 0 <= d <= {bmax!r}{note}")


BIG = 2.0**1023


def _l1_hyp(u, v):
    """Hypothesis of lemma L1 on the factors of a product: u >= 0 (+inf allowed, not NaN), 1 <= v <= 2**1023."""
    return And(SBool(z3.fpLEQ(z3.FPVal(0.0, FP64), u)), SBool(z3.fpLEQ(z3.FPVal(1.0, FP64), v)), SBool(z3.fpLEQ(v, z3.FPVal(BIG, FP64))))


@unit("C38.L1 IEEE lemma: (u >= 0) * (1 <= v <= 2**1023) is a number >= 0", targets=["vgi_rpc/http/_retry.py::_compute_delay"], min_obligations=2)
def lemma_product(S):
    """Proved once, universally; instantiated (not re-proved) wherever _compute_delay forms base * 2**attempt."""
    u, v = S.float("u"), S.float("v")
    S.assume(_l1_hyp(u.t, v.t))
    p = z3.fpMul(RNE, u.t, v.t)
    S.oblige("L1.product_not_nan", Not(SBool(z3.fpIsNaN(p))), kind="lemma")
    S.oblige("L1.product_not_negative", Or(SBool(z3.fpIsNaN(p)), SBool(z3.fpIsZero(p)), SBool(z3.fpIsPositive(p))), kind="lemma")
    S.canary("L1.canary.first_factor_finite", Not(SBool(z3.fpIsInf(u.t))))


def install_uniform(S):
    def uniform(S, a, b):
        S.oblige("O3.pre_uniform_lower_is_zero", isinstance(a, int) and a == 0, kind="pre")
        # precondition of the assumed contract: x = backoff_base * 2**attempt is a number >= 0 (else
        # uniform(0, x) is NaN or negative).  When x is syntactically a binary64 product, the factors are
        # checked against lemma L1 (no multiplier in the query) and L1 is instantiated; otherwise direct.
        t = floatterm(b)
        if z3.is_app(t) and t.decl().kind() == z3.Z3_OP_FPA_MUL and t.num_args() == 3:
            u, v = t.arg(1), t.arg(2)
            hyp = Or(_l1_hyp(u, v), _l1_hyp(v, u))
            # with L1 this gives 0 <= x; nothing below needs x itself, so the instance is not added to the path condition
            S.oblige("O3.pre_uniform_upper_is_nonneg_times_bounded_power", hyp, kind="pre")
        else:
            S.oblige("O3.pre_uniform_upper_nonneg_not_nan", fle(0.0, b), kind="pre")
        r = S.float("jitter")
        # assumed contract of random.uniform(0, x), x >= 0: 0 <= r <= x.  Only the lower half is used (the
        # upper bound of the delay comes from the clamp), which keeps the product out of the other queries.
        S.assume(fle(0.0, r))
        S.event("uniform", b, r)
        return r

    S.handlers[random.uniform] = uniform
    S.assume_external("random.uniform", "0 <= uniform(0, x) (<= x) for x >= 0")


@unit("C38.O3 _compute_delay in binary64: 0 <= delay <= backoff_max", targets=["vgi_rpc/http/_retry.py::_compute_delay"], replay=replay_delay, min_obligations=12)
def compute_delay(S):
    attempt = S.int("attempt")
    S.assume(attempt >= 0)  # zero-based attempt number (the loop index at both call sites, O1.pre_compute_delay_attempt)
    has_ra = S.choose(2) == 1
    respect = S.choose(2) == 0
    S.inputs.update({"has_retry_after": has_ra, "respect": respect})
    cfg = mk_config(S, respect_retry_after=respect)
    base, bmax = cfg.fields["backoff_base"], cfg.fields["backoff_max"]
    S.assume(And(fle(0.0, base), fle(0.0, bmax)))  # O5 + "not NaN" (ASSUMPTIONS); +inf allowed
    ra = S.float("retry_after") if has_ra else None  # any double: NaN, +-inf, negative, subnormal ...
    install_uniform(S)
    out = S.outcome(rt._compute_delay, attempt, cfg, ra)
    if out.raised:
        S.oblige("O3.raises_only_OverflowError", exc_is(out.exc, OverflowError), kind="raises")
        S.oblige("O3.raises_only_beyond_float_range", attempt >= 1024, kind="raises")
        return
    d = out.value
    S.oblige("O3.returns_float", isinstance(d, (SFloat, float)), kind="post")
    if not isinstance(d, (SFloat, float)):
        return
    S.oblige("O3.delay_nonnegative", fle(0.0, d))
    S.oblige("O3.delay_at_most_backoff_max", fle(d, bmax))
    S.oblige("O3.no_overflow_below_1024", attempt < 1024, kind="raises")
    S.oblige("O3.exactly_one_jitter_draw", len(S.events("uniform")) == 1, kind="trace")
    if has_ra and respect:
        S.canary("O3.canary.retry_after_always_wins", fle(ra, d))
    S.canary("O3.canary.delay_always_zero", SBool(z3.fpIsZero(floatterm(d))))


# ------------------------------------------------------------------------------------------
# O5  HttpRetryConfig.__post_init__
# ------------------------------------------------------------------------------------------


def replay_post_init(inputs, ob):
    mr, base, bmax = inputs["max_retries"], inputs["backoff_base"], inputs["backoff_max"]
    neg = mr < 0 or base < 0 or bmax < 0
    try:
        rt.HttpRetryConfig(max_retries=mr, backoff_base=base, backoff_max=bmax)
    except ValueError as e:
        return ReplayResult(not neg, f"HttpRetryConfig({mr}, {base!r}, {bmax!r}) raised ValueError({e}) without a negative field")
    except Exception as e:
        return ReplayResult(True, f"HttpRetryConfig({mr}, {base!r}, {bmax!r}) raised {type(e).__name__}: {e}")
    return ReplayResult(neg, f"HttpRetryConfig({mr}, {base!r}, {bmax!r}) accepted" + (" a negative field" if neg else ""))


@unit("C38.O5 HttpRetryConfig.__post_init__ rejects negative fields", targets=["vgi_rpc/http/_retry.py::HttpRetryConfig.__post_init__"], replay=replay_post_init, min_obligations=6)
def post_init(S):
    cfg = mk_config(S)
    mr, base, bmax = cfg.fields["max_retries"], cfg.fields["backoff_base"], cfg.fields["backoff_max"]
    negative = Or(mr < 0, flt(base, 0.0), flt(bmax, 0.0))
    out = S.outcome(rt.HttpRetryConfig.__post_init__, cfg)
    if out.raised:
        S.oblige("O5.raises_only_ValueError", exc_is(out.exc, ValueError), kind="raises")
        S.oblige("O5.raises_only_for_a_negative_field", negative, kind="raises")
        return
    S.oblige("O5.accepted_max_retries_nonnegative", mr >= 0)
    S.oblige("O5.accepted_backoff_base_not_negative", Not(flt(base, 0.0)))
    S.oblige("O5.accepted_backoff_max_not_negative", Not(flt(bmax, 0.0)))
    S.oblige("O5.accepted_non_nan_fields_are_ge_zero", Implies(And(Not(is_nan(base)), Not(is_nan(bmax))), And(fle(0.0, base), fle(0.0, bmax))))
    S.canary("O5.canary.validation_rejects_nan", And(Not(is_nan(base)), Not(is_nan(bmax))))
    S.canary("O5.canary.accepts_only_zero_retries", mr == 0)


# ------------------------------------------------------------------------------------------
# O4  _parse_retry_after
# ------------------------------------------------------------------------------------------

DATE_WITNESSES = {
    "float": ["120", " 12 ", "-5", "nan", "-inf", "1e999", "1_0"],
    "float_rejected+date_aware": ["Wed, 21 Oct 2099 07:28:00 GMT", "Wed, 21 Oct 2015 07:28:00 GMT", "Fri, 31 Dec 9999 23:59:59 +0000", "Mon, 01 Jan 0001 00:00:00 +2359"],
    "float_rejected+date_naive": ["Wed, 21 Oct 2015 07:28:00 -0000"],
    "float_rejected+date_ValueError": ["soon", "", "Wed, 32 Oct 2015 07:28:00 GMT", "Mon, 01 Jan 2024 00:00:00 +2500", "Mon, 01 Jan 99999 00:00:00 GMT"],
    "float_rejected+date_OverflowError": ["Mon, 01 Jan 2024 00:00:00 +99999999999999999999"],
}


def replay_parse(inputs, ob):
    case = inputs.get("case", "")
    out = []
    bad = False
    for s in DATE_WITNESSES.get(case, []):
        try:
            r = rt._parse_retry_after(s)
            ok = r is None or isinstance(r, float)
            out.append(f"{s!r} -> {r!r}")
        except Exception as e:
            ok = False
            out.append(f"{s!r} RAISED {type(e).__name__}: {e}")
        bad = bad or not ok
    return ReplayResult(bad, f"_parse_retry_after on the {case} witnesses: " + "; ".join(out))


@unit("C38.O4 _parse_retry_after raises nothing, returns None or a float", targets=["vgi_rpc/http/_retry.py::_parse_retry_after"], replay=replay_parse, min_obligations=6)
def parse_retry_after(S):
    import datetime as dtm
    from email.utils import parsedate_to_datetime

    header = S.str("header")
    case = {"v": "float"}

    def parsedate(S, value):
        S.oblige("O4.pre_parsedate_gets_the_header", value is header, kind="pre")
        k = ["date_aware", "date_naive", "date_ValueError", "date_OverflowError"][S.choose(4)]
        case["v"] = "float_rejected+" + k
        if k == "date_ValueError":
            raise PyRaise(SExc(ValueError, ("Invalid date value or format",)))
        if k == "date_OverflowError":
            raise PyRaise(SExc(OverflowError, ("Python int too large to convert to C int",)))
        return SObj(None, kind="DateTime", aware=(k == "date_aware"))

    def now(S, tz=None):
        return SObj(None, kind="DateTime", aware=tz is not None)

    def dt_sub(S, a, b):
        if not (isinstance(b, SObj) and b.kind == "DateTime"):
            raise Unsupported("datetime - non-datetime")
        if a.fields["aware"] != b.fields["aware"]:
            raise PyRaise(SExc(TypeError, ("can't subtract offset-naive and offset-aware datetimes",)))
        return SObj(None, kind="TimeDelta")

    def total_seconds(S, td):
        x = S.float("delta_seconds")
        S.assume(And(Not(is_nan(x)), Not(SBool(z3.fpIsInf(x.t)))))  # a timedelta is a finite number of microseconds
        return x

    S.handlers[parsedate_to_datetime] = parsedate
    S.handlers[dtm.datetime.now] = now
    S.handlers["DateTime.__sub__"] = dt_sub
    S.handlers["TimeDelta.total_seconds"] = total_seconds
    out = S.outcome(rt._parse_retry_after, header)
    S.inputs["case"] = case["v"]
    S.oblige("O4.raises_nothing", out.returned, kind="raises", witness=case["v"] if out.raised else "")
    if not out.returned:
        return
    r = out.value
    S.oblige("O4.returns_None_or_float", r is None or isinstance(r, (SFloat, float)), kind="post")
    S.canary("O4.canary.always_None", SBool(z3.BoolVal(r is None)))
    if isinstance(r, SFloat):
        S.canary("O4.canary.never_nan", Not(is_nan(r)))


# ------------------------------------------------------------------------------------------
# O1/O2  the retry loop of _request_with_retry
# ------------------------------------------------------------------------------------------

OUTCOMES = ["response", "ConnectError", "ReadTimeout", "RemoteProtocolError", "ReadError"]
EXC = {
    "ConnectError": httpx2.ConnectError,
    "ReadTimeout": httpx2.ReadTimeout,  # a TimeoutException subclass
    "RemoteProtocolError": httpx2.RemoteProtocolError,
    "ReadError": httpx2.ReadError,  # a transport error that is none of the retryable kinds
}
HEADER_CASES = ["absent", "unparseable", "seconds"]


class _PerPath(Shape):
    """Havoc shape for loop-carried locals that are 'None or an object': decided per path."""

    def __init__(self, make):
        self.make = make

    def fresh(self, name):
        return self.make(ctx(), name)


def _resp_or_none(S, name):
    if S.choose(2) == 0:
        return None
    return SObj(None, kind="Response", status_code=S.int(name + "_status"), content=b"earlier body", headers=SObj(None, kind="Headers"))


def _float_or_none(S, name):
    # None or any double: only ever stored into the HttpTransientError, so one opaque value covers both
    return S.opaque(name, "OptionalFloat")


def replay_loop(inputs, ob):
    """Native run of the real loop on a fault sequence built from the model: `prior` retryable failures,
    then the model's outcome, then (if the code keeps going) successes.  Judges the property itself."""
    mr = inputs.get("max_retries")
    prior = inputs.get("prior_requests", 0)
    kind = inputs.get("outcome") or "response"  # obligations stated before the outcome is drawn: any outcome will do
    if not isinstance(mr, int) or mr < 0 or not isinstance(prior, int) or prior < 0:
        return ReplayResult(False, "model outside the precondition (max_retries >= 0)")
    if mr > 16:  # same distance from the bound, shorter history (the loop treats all earlier attempts alike)
        mr, prior = 16, max(0, prior - (mr - 16))
    prior = min(prior, mr + 3)
    flag = bool(inputs.get("retry_on_connection_error", True))
    bmax = inputs.get("backoff_max", 30.0)
    bmax = bmax if isinstance(bmax, float) and bmax >= 0 else 30.0
    status = inputs.get("status", 200)
    status_retryable = bool(inputs.get("status_retryable", False))
    msg = inputs.get("message", "")
    filler = 503 if status != 503 else 502
    codes = {filler} | ({status} if status_retryable and kind == "response" else set())
    header = {"absent": None, "unparseable": "soon", "seconds": repr(inputs.get("parsed_retry_after", 1.0)), "no_get": None}.get(inputs.get("header_case", "absent"))
    cfg = rt.HttpRetryConfig(max_retries=mr, backoff_base=min(0.5, bmax), backoff_max=bmax, retryable_status_codes=frozenset(codes), retry_on_connection_error=flag)

    class R:
        def __init__(self, st, h):
            self.status_code, self.content = st, b"body"
            self.headers = {} if h is None else {"Retry-After": h}

    log = []  # ("req", what, allowed_to_retry) / ("sleep", d)
    script = [("response", filler)] * prior + [(kind, status)]

    def make_request():
        i = sum(1 for e in log if e[0] == "req")
        k, st = script[i] if i < len(script) else ("response", 200)
        if k == "response":
            r = R(st, header if i == prior else None)
            log.append(("req", r, st in codes))
            return r
        exc = EXC[k](msg if k == "RemoteProtocolError" else k)
        allowed = (k in ("ConnectError", "ReadTimeout") and flag) or (k == "RemoteProtocolError" and MARKER in msg)
        log.append(("req", exc, allowed))
        raise exc

    out = None
    try:
        out = ("return", rt._request_with_retry(make_request, config=cfg, method_label="POST", url="u", _sleep=lambda d: log.append(("sleep", d))))
    except BaseException as e:  # noqa: BLE001
        out = ("raise", e)
    reqs = [e for e in log if e[0] == "req"]
    problems = []
    if len(reqs) > mr + 1:
        problems.append(f"{len(reqs)} requests with max_retries={mr}")
    for i, e in enumerate(log):
        if e[0] == "sleep" and not (isinstance(e[1], float) and 0 <= e[1] <= bmax):
            problems.append(f"sleep({e[1]!r}) outside [0, {bmax!r}]")
        if e[0] == "req" and not e[2]:
            if i != len(log) - 1:
                problems.append(f"activity after the non-retryable outcome {e[1]!r}: {log[i + 1 :]}")
            if out[1] is not e[1]:
                problems.append(f"non-retryable outcome {e[1]!r} was not returned/re-raised as is (got {out!r})")
    return ReplayResult(bool(problems), f"max_retries={mr} prior={prior} outcome={kind} status={status} retryable_codes={sorted(codes)} flag={flag} msg={msg!r}: {len(reqs)} requests, result={out!r}; " + "; ".join(problems))


def search_loop(ob, seed=0):
    """Bounded native search used only when the proof of an obligation is lost: every script of up to 2*mr+3 outcomes
    over {stale disconnect, connect error, read timeout, 503, 429+Retry-After, 200, 400} for max_retries 0..2 on the real loop;
    judged by the property (requests <= max_retries+1, nothing after a non-retryable outcome, sleeps in [0, backoff_max])."""
    import itertools

    alphabet = [("RemoteProtocolError", MARKER), ("ConnectError", ""), ("ReadTimeout", ""), ("response", 503), ("response", 429), ("response", 200), ("response", 400)]

    class R:
        def __init__(self, st):
            self.status_code, self.content = st, b"body"
            self.headers = {"Retry-After": "0.25"} if st == 429 else {}

    for mr in (0, 1, 2):
        for flag in (True, False):
            cfg = rt.HttpRetryConfig(max_retries=mr, backoff_base=0.01, backoff_max=0.5, retryable_status_codes=frozenset({503, 429}), retry_on_connection_error=flag)
            for n in range(1, 2 * mr + 4):
                for script in itertools.product(alphabet, repeat=n):
                    log = []

                    def make_request(script=script, log=log, flag=flag):
                        i = sum(1 for e in log if e[0] == "req")
                        k, a = script[i] if i < len(script) else ("response", 200)
                        if k == "response":
                            r = R(a)
                            log.append(("req", r, a in (503, 429)))
                            return r
                        exc = EXC[k](a or k)
                        log.append(("req", exc, (k in ("ConnectError", "ReadTimeout") and flag) or k == "RemoteProtocolError"))
                        raise exc

                    try:
                        out = rt._request_with_retry(make_request, config=cfg, method_label="POST", url="u", _sleep=lambda d, log=log: log.append(("sleep", d)))
                    except BaseException as e:  # noqa: BLE001
                        out = e
                    reqs = [e for e in log if e[0] == "req"]
                    problems = []
                    if len(reqs) > mr + 1:
                        problems.append(f"{len(reqs)} requests with max_retries={mr}")
                    for i, e in enumerate(log):
                        if e[0] == "sleep" and not (isinstance(e[1], float) and 0 <= e[1] <= 0.5):
                            problems.append(f"sleep({e[1]!r}) outside [0, 0.5]")
                        if e[0] == "req" and not e[2] and (i != len(log) - 1 or out is not e[1]):
                            problems.append(f"non-retryable outcome {e[1]!r} was not final / not handed back as is")
                    if problems:
                        shown = [a if k == "response" else k for k, a in script]
                        return {"max_retries": mr, "retry_on_connection_error": flag, "script": shown}, ReplayResult(True, f"max_retries={mr} outcomes {shown}: " + "; ".join(problems))
    return None


@unit(
    "C38.O1/O2 _request_with_retry: bounded requests, retry only after retryable outcomes, bounded sleeps",
    targets=["vgi_rpc/http/_retry.py::_request_with_retry", "vgi_rpc/http/_retry.py::_get_retry_after"],
    replay=replay_loop,
    search=search_loop,
    min_obligations=60,
)
def retry_loop(S):
    flag = S.bool("retry_on_connection_error")
    cfg = mk_config(S, retry_on_connection_error=flag)
    mr, bmax = cfg.fields["max_retries"], cfg.fields["backoff_max"]
    S.assume(And(mr >= 0, mr <= 1024))  # O5; <= 1024 keeps attempt inside _compute_delay's float range (ASSUMPTIONS)
    S.assume(fle(0.0, bmax))
    S.ghost["nreq"] = SInt(z3.IntVal(0))  # number of requests issued so far
    S.ghost["last_retryable"] = SBool(z3.BoolVal(True))  # the property allows a retry after the latest outcome
    cur = {}  # this iteration's request (the loop is cut at its head: one arbitrary iteration per path)
    S.inline.add("_get_retry_after")
    S.inline.add("_body_preview")

    def make_request(S, f):
        n = S.ghost["nreq"]
        S.inputs["prior_requests"] = n
        S.oblige("O1.request_only_with_budget_left", n < mr + 1, kind="trace")
        S.ghost["nreq"] = n + 1
        kind = OUTCOMES[S.choose(len(OUTCOMES))]
        S.inputs["outcome"] = kind
        if kind == "response":
            status = S.int("status")
            headers = SObj(None, kind="Headers", case=None)  # Retry-After header: decided when first looked at
            resp = SObj(None, kind="Response", status_code=status, headers=headers, content=b"body")
            allowed = SBool(RETRYABLE(status.t))
            S.inputs["status_retryable"] = allowed
            cur.update(kind=kind, obj=resp, allowed=allowed)
            S.ghost["last_retryable"] = allowed
            S.event("req", kind, resp)
            return resp
        if kind == "RemoteProtocolError":
            msg = S.str("message")
            allowed = SBool(z3.Contains(msg.t, z3.StringVal(MARKER)))
            exc = SExc(EXC[kind], (msg,))
        else:
            allowed = flag if kind in ("ConnectError", "ReadTimeout") else sb(False)
            exc = SExc(EXC[kind], (kind,))
        cur.update(kind=kind, obj=exc, allowed=allowed)
        S.ghost["last_retryable"] = allowed
        S.event("req", kind, exc)
        raise PyRaise(exc)

    def headers_get(S, h, key):
        S.oblige("O2.retry_after_header_name", isinstance(key, str) and key.lower() == "retry-after", kind="pre")
        if h.fields["case"] is None:
            h.fields["case"] = HEADER_CASES[S.choose(len(HEADER_CASES))]
            S.inputs["header_case"] = h.fields["case"]
        if h.fields["case"] == "absent" or key != "Retry-After":
            return None
        return S.str("retry_after_header")

    def parse_retry_after(S, raw):
        # by contract C38.O4: raises nothing; None or some double (any, incl. NaN / +-inf / negative)
        if cur["obj"].fields["headers"].fields["case"] == "unparseable":
            return None
        return S.float("parsed_retry_after")

    def compute_delay(S, attempt, config, retry_after):
        # by contract C38.O3
        S.oblige("O1.pre_compute_delay_attempt_in_float_range", And(attempt >= 0, attempt < 1024), kind="pre")
        S.oblige("O1.pre_compute_delay_gets_the_callers_config", config is cfg, kind="pre")
        S.oblige("O1.pre_compute_delay_retry_after_None_or_float", retry_after is None or isinstance(retry_after, (SFloat, float)), kind="pre")
        d = S.float("delay")
        S.assume(And(fle(0.0, d), fle(d, bmax)))
        S.event("delay", d)
        return d

    def sleep(S, f, d):
        S.event("sleep", d)
        S.oblige("O3.sleep_is_a_float", isinstance(d, (SFloat, float)), kind="trace")
        if isinstance(d, (SFloat, float)):
            S.oblige("O3.sleep_between_zero_and_backoff_max", And(fle(0.0, d), fle(d, bmax)), kind="trace")
        S.oblige("O2.sleep_only_after_a_retryable_outcome", cur.get("allowed", False), kind="trace")
        S.canary("O3.canary.sleep_unreachable", False)

    S.handlers["MakeRequest.__call__"] = make_request
    S.handlers["Headers.get"] = headers_get
    S.handlers["_parse_retry_after"] = parse_retry_after
    S.handlers["_compute_delay"] = compute_delay
    S.handlers["Sleep.__call__"] = sleep

    def inv(L):
        return [
            ("requests_equal_attempts", S.ghost["nreq"] == L.idx),
            ("retried_only_after_a_retryable_outcome", Implies(L.idx > 0, S.ghost["last_retryable"])),
        ]

    key = ("_request_with_retry", 0)
    S.invariants[key] = inv
    S.loop_ghost[key] = ["nreq", "last_retryable"]
    S.loop_havoc[key] = {"last_resp": _PerPath(_resp_or_none), "last_retry_after": _PerPath(_float_or_none)}
    out = S.outcome(rt._request_with_retry, SObj(None, kind="MakeRequest"), config=cfg, method_label="POST", url="http://h/x", _sleep=SObj(None, kind="Sleep"))
    # ---- exits of the function (back-edge paths were cut by the invariant check and never get here) ----
    n = S.ghost["nreq"]
    S.oblige("O1.at_most_max_retries_plus_one_requests", n <= mr + 1, kind="trace")
    reqs, sleeps = S.events("req"), S.events("sleep")
    S.oblige("O1.one_request_per_iteration", len(reqs) <= 1, kind="trace")
    if reqs:
        obj, allowed = cur["obj"], cur["allowed"]
        immediate = (not sleeps) and ((out.returned and out.value is obj) or (out.raised and out.exc is obj))
        S.oblige("O2.non_retryable_outcome_returns_or_reraises_at_once", Implies(Not(allowed), immediate), kind="trace")
        if out.returned:
            S.oblige("O2.returns_only_the_response_of_the_last_request", out.value is obj, kind="trace")
            S.canary("O2.canary.never_returns_a_response", False)
        if cur["kind"] == "response":
            S.canary("O2.canary.every_status_is_retryable", allowed)
    else:
        S.oblige("O1.no_request_means_no_sleep", not sleeps, kind="trace")
    S.canary("O1.canary.at_most_one_request_ever", n <= 1)


# ------------------------------------------------------------------------------------------
# O6  _post_with_retry / _options_with_retry: thin wrappers around the loop
# ------------------------------------------------------------------------------------------


def _client(S, outcomes_of):
    """Abstract httpx client: every post/options call is one ghost event; the outcome is chosen by the caller's script."""
    c = SObj(None, kind="Client")

    def verb(name):
        def h(S, c_, url, **kw):
            S.event(name, url, kw.get("content"), kw.get("headers"))
            return outcomes_of(S, name, len(S.events("post")) + len(S.events("options")))

        return h

    S.handlers["Client.post"] = verb("post")
    S.handlers["Client.options"] = verb("options")
    return c


def replay_wrappers(inputs, ob):
    calls = []

    class C:
        def post(self, url, **kw):
            calls.append(("post", url))
            return "resp"

        def options(self, url, **kw):
            calls.append(("options", url))
            return "resp"

    seen = {}
    orig = rt._request_with_retry

    def fake(make_request, **kw):
        seen.update(kw)
        before = len(calls)
        make_request()
        make_request()
        seen["per_call"] = (len(calls) - before) / 2
        return "looped"

    rt._request_with_retry = fake
    try:
        cfg = rt.HttpRetryConfig() if inputs.get("with_config") else None
        if inputs.get("verb") == "post":
            r = rt._post_with_retry(C(), "u", content=b"c", headers={}, config=cfg)
        else:
            r = rt._options_with_retry(C(), "u", config=cfg)
    finally:
        rt._request_with_retry = orig
    if cfg is None:
        bad = r != "resp" or calls != [(inputs.get("verb"), "u")]
        return ReplayResult(bad, f"retry off: result={r!r} calls={calls}")
    bad = r != "looped" or seen.get("config") is not cfg or seen.get("per_call") != 1 or any(c != (inputs.get("verb"), "u") for c in calls)
    return ReplayResult(bad, f"retry on: result={r!r} loop kwargs={ {k: v for k, v in seen.items() if k != 'config'} } calls={calls}")


@unit(
    "C38.O6 _post_with_retry/_options_with_retry: one bare request without a config, else the loop with a one-request closure",
    targets=["vgi_rpc/http/_retry.py::_post_with_retry", "vgi_rpc/http/_retry.py::_options_with_retry"],
    replay=replay_wrappers,
    min_obligations=8,
)
def wrappers(S):
    verb = ["post", "options"][S.choose(2)]
    with_config = S.choose(2) == 0
    S.inputs.update({"verb": verb, "with_config": with_config})
    resp = SObj(None, kind="Response")
    client = _client(S, lambda S, name, n: resp)
    cfg = mk_config(S) if with_config else None
    sleep = SObj(None, kind="Sleep")
    loop = {}

    def loop_contract(S, make_request, **kw):
        # by contract C38.O1/O2 (the loop calls make_request once per attempt): probe the closure twice
        loop.update(kw)
        for _ in range(2):
            before = len(S.trace)
            r = S.interp.call_value(make_request, [], {})
            loop.setdefault("per_call", []).append((len(S.trace) - before, r))
        S.event("loop")
        return "loop result"

    S.handlers["_request_with_retry"] = loop_contract
    if verb == "post":
        out = S.outcome(rt._post_with_retry, client, "http://h/m", content=b"body", headers={"h": "v"}, config=cfg, _sleep=sleep)
    else:
        out = S.outcome(rt._options_with_retry, client, "http://h/m", config=cfg, _sleep=sleep)
    S.oblige("O6.raises_nothing_of_its_own", out.returned, kind="raises")
    reqs = [e for e in S.trace if e[0] in ("post", "options")]
    S.oblige("O6.only_the_requested_verb_and_url", all(e[0] == verb and e[1] == "http://h/m" for e in reqs), kind="trace")
    if verb == "post":
        S.oblige("O6.post_carries_the_callers_body_and_headers", all(e[2] == b"body" and e[3] == {"h": "v"} for e in reqs), kind="trace")
    if not with_config:
        S.oblige("O6.without_config_exactly_one_request_no_loop", len(reqs) == 1 and not S.events("loop") and out.value is resp, kind="trace")
        S.canary("O6.canary.no_request_without_config", SBool(z3.BoolVal(len(reqs) == 0)))
        return
    S.oblige("O6.with_config_delegates_to_the_loop_once", len(S.events("loop")) == 1 and out.value == "loop result", kind="trace")
    S.oblige("O6.loop_gets_the_callers_config_and_sleep", loop.get("config") is cfg and loop.get("_sleep") is sleep, kind="trace")
    S.oblige("O6.closure_issues_exactly_one_request_per_call", [n for n, _ in loop.get("per_call", [])] == [1, 1] and all(r is resp for _, r in loop.get("per_call", [])), kind="trace")


# ------------------------------------------------------------------------------------------
# O7  HttpStreamSession.exchange / cancel / _send_continuation
# ------------------------------------------------------------------------------------------

POST_OUTCOMES = ["response", "ConnectError", "RemoteProtocolError(stale)", "ReadTimeout"]
TOO_LARGE = 413


def _install_session(S, script):
    """Session view + by-contract helpers.  `script(S, i)` gives the outcome of the i-th client call."""
    from vgi_rpc.rpc import AnnotatedBatch

    client = _client(S, script)
    me = SObj(
        cl.HttpStreamSession,
        _client=client,
        _url_prefix="http://h/vgi",
        _method="m",
        _state_bytes=b"cursor",
        _call_state_bytes=None,
        _output_schema=S.opaque("schema", "Schema"),
        _on_log=None,
        _external_config=None,
        _ipc_validation=S.opaque("ipcv", "IpcValidation"),
        _pending_batches=[],
        _finished=False,
        _header=None,
        _retry_config=SObj(rt.HttpRetryConfig),
        _compression_level=None,
        _capabilities=None,
    )
    H = S.handlers
    H["HttpStreamSession._token_metadata"] = lambda S, me_, token, cancel=False: SObj(None, kind="KVMeta", token=token, cancel=cancel)
    H["merge_metadata"] = lambda S, a, b: b
    H["new_ipc_stream"] = lambda S, sink, schema: SObj(None, kind="Writer")
    H["Writer.__enter__"] = lambda S, w: w
    H["Writer.__exit__"] = lambda S, w, *a: False
    H["Writer.write_batch"] = lambda S, w, b, custom_metadata=None: None
    H["empty_batch"] = lambda S, schema: SObj(None, kind="Batch")
    H["HttpStreamSession._prepare_body"] = lambda S, me_, content: content
    H["HttpStreamSession._build_headers"] = lambda S, me_: {"Content-Type": "arrow"}
    H["fmt_batch"] = lambda S, b: "batch"

    def may_fail(name, value):
        def h(S, *a, **kw):
            S.event(name)
            if S.choose(2) == 1:
                raise PyRaise(SExc(RpcError, ("E", name + " failed", "")))
            return value(*a) if callable(value) else value

        return h

    H["HttpStreamSession._maybe_externalize_request"] = lambda S, me_, body: body
    H["HttpStreamSession._externalize_request_body"] = may_fail("externalize", b"pointer body")
    H["_open_response_stream"] = may_fail("open_response", SObj(None, kind="Reader"))
    H["_read_batch_with_log_check"] = may_fail("read_batch", SObj(None, kind="AB", batch=SObj(None, kind="Batch"), custom_metadata=None))
    H["_drain_stream"] = lambda S, r, *a: None
    H["strip_keys"] = lambda S, cm, *keys: cm
    H[AnnotatedBatch] = lambda S, batch=None, custom_metadata=None: SObj(None, kind="AnnotatedBatchOut", batch=batch, custom_metadata=custom_metadata)
    for nm in ("_post_with_retry", "_options_with_retry", "_request_with_retry"):
        H[nm] = (lambda nm: lambda S, *a, **kw: (S.event("retrying_helper", nm, a, kw), SObj(None, kind="Response", status_code=200, content=b""))[1])(nm)
    return me, client


class _FakeResp:
    def __init__(self, status):
        self.status_code, self.content, self.headers = status, b"", {}


def _native_session(script, calls):
    import pyarrow as pa

    class C:
        def post(self, url, **kw):
            i = len(calls)
            calls.append(url)
            o = script[i] if i < len(script) else ("response", 200)
            if o[0] == "response":
                return _FakeResp(o[1])
            raise {"ConnectError": httpx2.ConnectError, "ReadTimeout": httpx2.ReadTimeout}.get(o[0], httpx2.RemoteProtocolError)("Server disconnected " + MARKER)

        def options(self, url, **kw):
            calls.append("OPTIONS " + url)
            return _FakeResp(200)

    return cl.HttpStreamSession(C(), "http://h/vgi", "m", b"cursor", pa.schema([]), retry_config=rt.HttpRetryConfig(max_retries=3, backoff_base=0.0, backoff_max=0.0))


def _script_from(inputs):
    out = []
    for i in (0, 1):
        k = inputs.get(f"post{i}_outcome")
        if k is None:
            break
        out.append((k, inputs.get(f"post{i}_status", 200)))
    return out


def replay_exchange(inputs, ob):
    import pyarrow as pa
    from vgi_rpc.rpc import AnnotatedBatch

    script = _script_from(inputs)
    calls = []
    s = _native_session(script, calls)
    if inputs.get("has_state") is False:
        s._state_bytes = None
    ext = {"n": 0}

    def externalize(body):
        ext["n"] += 1
        if inputs.get("externalize_fails"):
            raise RpcError("E", "externalize failed", "")
        return body

    # __slots__: the instance cannot be patched, so the class attribute is swapped for the call
    orig = cl.HttpStreamSession._externalize_request_body
    cl.HttpStreamSession._externalize_request_body = lambda self, body: externalize(body)
    try:
        try:
            s.exchange(AnnotatedBatch(batch=pa.record_batch([], schema=pa.schema([])), custom_metadata=None))
            res = "returned"
        except BaseException as e:  # noqa: BLE001
            res = f"raised {type(e).__name__}"
    finally:
        cl.HttpStreamSession._externalize_request_body = orig
    ex = [c for c in calls if c.endswith("/exchange")]
    first_413 = bool(script) and script[0] == ("response", TOO_LARGE)
    problems = []
    if len(ex) > (2 if first_413 else 1):
        problems.append(f"{len(ex)} exchange posts")
    if any(not c.endswith("/m/exchange") for c in calls):
        problems.append(f"unexpected request {calls}")
    return ReplayResult(bool(problems), f"exchange with post outcomes {script}: {res}; requests={calls}; " + "; ".join(problems))


@unit("C38.O7a HttpStreamSession.exchange: one post, one resend only after 413, never via the retrying helper", targets=["vgi_rpc/http/_client.py::HttpStreamSession.exchange"], replay=replay_exchange, min_obligations=40)
def exchange(S):
    has_state = S.choose(2) == 0
    S.inputs["has_state"] = has_state
    first = {}

    def script(S, name, i):
        k = POST_OUTCOMES[S.choose(len(POST_OUTCOMES))]
        S.inputs[f"post{i - 1}_outcome"] = k
        if k == "response":
            st = S.int(f"post{i - 1}_status")
            is413 = S.fork(st == TOO_LARGE)
            if i == 1:
                first["returned_413"] = is413
            return SObj(None, kind="Response", status_code=st, content=b"", headers=SObj(None, kind="Headers"))
        cls = {"ConnectError": httpx2.ConnectError, "ReadTimeout": httpx2.ReadTimeout}.get(k, httpx2.RemoteProtocolError)
        raise PyRaise(SExc(cls, ("Server disconnected " + MARKER,)))

    me, client = _install_session(S, script)
    if not has_state:
        me.fields["_state_bytes"] = None
    batch_in = SObj(None, kind="AnnotatedBatchIn", batch=SObj(None, kind="Batch", schema=S.opaque("in_schema", "Schema")), custom_metadata=None)
    out = S.outcome(cl.HttpStreamSession.exchange, me, batch_in)
    posts = S.events("post")
    S.inputs["externalize_fails"] = bool(S.events("externalize")) and len(posts) == 1 and first.get("returned_413", False)
    S.oblige("O7a.no_request_through_the_retrying_helper", not S.events("retrying_helper"), kind="trace")
    S.oblige("O7a.only_posts_to_this_streams_exchange_url", all(e[1] == "http://h/vgi/m/exchange" for e in posts) and not S.events("options"), kind="trace")
    S.oblige("O7a.at_most_one_post_unless_the_first_returned_413", len(posts) <= (2 if first.get("returned_413", False) else 1), kind="trace")
    S.oblige("O7a.never_more_than_one_resend", len(posts) <= 2, kind="trace")
    if not has_state:
        S.oblige("O7a.finished_stream_sends_nothing", len(posts) == 0 and out.raised and exc_is(out.exc, RpcError), kind="trace")
    if out.raised and not exc_is(out.exc, RpcError):
        S.oblige("O7a.transport_failure_is_not_retried", len(posts) >= 1 and out.exc is not None and len(posts) <= 2, kind="trace")
    if out.returned:
        S.oblige("O7a.success_means_a_post_was_made", len(posts) >= 1, kind="trace")
    S.canary("O7a.canary.never_resends", SBool(z3.BoolVal(len(posts) <= 1)))
    S.canary("O7a.canary.never_posts", SBool(z3.BoolVal(len(posts) == 0)))


def replay_cancel(inputs, ob):
    script = _script_from(inputs)
    calls = []
    s = _native_session(script, calls)
    if inputs.get("has_state") is False:
        s._state_bytes = None
    s._finished = bool(inputs.get("finished"))
    orig = cl._open_response_stream
    if inputs.get("decode_fails"):

        def boom(*a, **k):
            raise RuntimeError("decode failed")

        cl._open_response_stream = boom
    try:
        try:
            s.cancel()
            res = "returned"
        except Exception as e:  # noqa: BLE001
            res = f"raised {type(e).__name__}: {e}"
    finally:
        cl._open_response_stream = orig
    problems = []
    if len(calls) > 1:
        problems.append(f"{len(calls)} requests")
    if res != "returned":
        problems.append("exception not swallowed")
    if (inputs.get("finished") or inputs.get("has_state") is False) and calls:
        problems.append("request on a finished stream")
    return ReplayResult(bool(problems), f"cancel(finished={inputs.get('finished')}, has_state={inputs.get('has_state')}) with post outcome {script}: {res}; requests={calls}; " + "; ".join(problems))


@unit("C38.O7b HttpStreamSession.cancel: at most one post, failures swallowed, never via the retrying helper", targets=["vgi_rpc/http/_client.py::HttpStreamSession.cancel"], replay=replay_cancel, min_obligations=20)
def cancel(S):
    has_state = S.choose(2) == 0
    finished = S.choose(2) == 1
    S.inputs.update({"has_state": has_state, "finished": finished})

    def script(S, name, i):
        k = POST_OUTCOMES[S.choose(len(POST_OUTCOMES))]
        S.inputs[f"post{i - 1}_outcome"] = k
        if k == "response":
            return SObj(None, kind="Response", status_code=S.int(f"post{i - 1}_status"), content=b"", headers=SObj(None, kind="Headers"))
        cls = {"ConnectError": httpx2.ConnectError, "ReadTimeout": httpx2.ReadTimeout}.get(k, httpx2.RemoteProtocolError)
        raise PyRaise(SExc(cls, ("Server disconnected " + MARKER,)))

    me, client = _install_session(S, script)
    me.fields["_finished"] = finished
    if not has_state:
        me.fields["_state_bytes"] = None
    out = S.outcome(cl.HttpStreamSession.cancel, me)
    posts = S.events("post")
    S.inputs["decode_fails"] = bool(S.events("open_response")) and not S.events("read_batch")
    S.oblige("O7b.no_request_through_the_retrying_helper", not S.events("retrying_helper"), kind="trace")
    S.oblige("O7b.at_most_one_post", len(posts) <= 1 and not S.events("options"), kind="trace")
    S.oblige("O7b.only_posts_to_this_streams_exchange_url", all(e[1] == "http://h/vgi/m/exchange" for e in posts), kind="trace")
    S.oblige("O7b.failures_are_swallowed", out.returned, kind="raises")
    if finished or not has_state:
        S.oblige("O7b.finished_stream_sends_nothing", len(posts) == 0, kind="trace")
    S.canary("O7b.canary.never_posts", SBool(z3.BoolVal(len(posts) == 0)))


def replay_continuation(inputs, ob):
    calls = []
    s = _native_session([], calls)
    seen = {}
    orig = cl._post_with_retry

    def fake(client, url, **kw):
        seen.update(kw, url=url, n=seen.get("n", 0) + 1)
        return _FakeResp(200)

    cl._post_with_retry = fake
    orig_open = cl._open_response_stream
    cl._open_response_stream = lambda *a, **k: "reader"
    try:
        s._send_continuation(b"tok")
    finally:
        cl._post_with_retry, cl._open_response_stream = orig, orig_open
    bad = calls != [] or seen.get("n") != 1 or seen.get("config") is not s._retry_config or not str(seen.get("url", "")).endswith("/m/exchange")
    return ReplayResult(bad, f"_send_continuation: direct requests={calls}, _post_with_retry calls={seen.get('n')}, url={seen.get('url')!r}, config passed={seen.get('config') is s._retry_config}")


@unit("C38.O7c _send_continuation goes through the retrying helper with the session's retry config", targets=["vgi_rpc/http/_client.py::HttpStreamSession._send_continuation"], replay=replay_continuation, min_obligations=3)
def send_continuation(S):
    me, client = _install_session(S, lambda S, name, i: SObj(None, kind="Response", status_code=200, content=b""))
    out = S.outcome(cl.HttpStreamSession._send_continuation, me, b"tok")
    helper = S.events("retrying_helper")
    S.oblige("O7c.no_unbounded_direct_request", not S.events("post") and not S.events("options"), kind="trace")
    S.oblige("O7c.exactly_one_call_of_post_with_retry", len(helper) == 1 and helper[0][1] == "_post_with_retry", kind="trace")
    if len(helper) == 1:
        _, _, a, kw = helper[0]
        S.oblige("O7c.bounded_by_the_sessions_retry_config", kw.get("config") is me.fields["_retry_config"] and a[0] is client and a[1] == "http://h/vgi/m/exchange", kind="trace")
    S.canary("O7c.canary.helper_not_used", SBool(z3.BoolVal(len(helper) == 0)))
