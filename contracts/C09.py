"""C09 Protocol-version gate admits exactly matching major.minor (DESIGN §5 C09)."""

from __future__ import annotations

import z3

import vgi_rpc.metadata as md
import vgi_rpc.rpc._server as srv
from pyvc import models
from pyvc.api import *  # noqa: F403
from pyvc.api import PyRaise, ReplayResult, unit
from vgi_rpc.rpc._common import ProtocolVersionError

MANIFEST = {
    "level_text": "Deductive proof over all strings / byte strings: parse_version accepts exactly the canonical ASCII grammar num.num.num (language equality against the live regex, translated with CPython's own parser including `$`/`\\d` semantics) and returns the three numeric values; _check_protocol_version returns normally iff the client value is present, UTF-8, canonical and equal in major.minor, and otherwise raises the protocol_version_mismatch error naming both versions. Tests try a corpus of malformed strings; the proof quantifies over every string.",
    "level_note": "Assumes: z3 strings cover code points <= U+2FFFF; bytes.decode('utf-8') abstracted (ASCII identity + uninterpreted UTF-8 with validity predicate); int() on [0-9]+ = str.to_int; the dispatch sites that call the gate (serve_one, _run_unary_sync, _run_stream_init_sync) are not yet under contract here; engine + z3/cvc5 trusted.",
    "technique": "contract-based deductive verification: regex-language equality + path-wise postconditions on the real parse/check functions, VCs by pyvc, z3 then cvc5",
    "design_ref": "DESIGN.md §5 C09",
}
EXPLANATION = MANIFEST["level_text"]
TRUSTED = ["pyvc VC generator and regex translation (re._parser -> SMT regex)", "z3 5.1.0 / cvc5 1.4.0"]
ASSUMPTIONS = [
    "strings range over code points 0..0x2FFFF (z3 character range)",
    "UTF-8 decode: identity on ASCII, otherwise an uninterpreted total function guarded by a validity predicate; a non-ASCII string is never canonical so only the ASCII case matters for acceptance",
    "gate call sites (which requests reach _check_protocol_version) are outside this contract file",
]

DIG = z3.Range(z3.StringVal("0"), z3.StringVal("9"))
NZ = z3.Range(z3.StringVal("1"), z3.StringVal("9"))
NUM = z3.Union(z3.Re(z3.StringVal("0")), z3.Concat(NZ, z3.Star(DIG)))
DOT = z3.Re(z3.StringVal("."))
CANON = z3.Concat(NUM, DOT, NUM, DOT, NUM)  # the property's canonical MAJOR.MINOR.PATCH


def is_canon(s):
    return SBool(z3.InRe(strterm(s), CANON))


def render(a, b, c):
    return SStr(z3.Concat(z3.IntToStr(a.t), z3.StringVal("."), z3.IntToStr(b.t), z3.StringVal("."), z3.IntToStr(c.t)))


def py_canon(s: str) -> bool:
    import re

    return re.fullmatch(r"(0|[1-9][0-9]*)\.(0|[1-9][0-9]*)\.(0|[1-9][0-9]*)", s, re.ASCII) is not None and "\n" not in s


def replay_parse(inputs, ob):
    s = inputs["value"]
    try:
        r = md.parse_version(s)
    except ValueError:
        return ReplayResult(py_canon(s), f"parse_version({s!r}) raised ValueError on a canonical version" if py_canon(s) else "rejected")
    if not py_canon(s):
        return ReplayResult(True, f"parse_version({s!r}) accepted a non-canonical string and returned {r}")
    want = tuple(int(x) for x in s.split("."))
    return ReplayResult(r != want, f"parse_version({s!r}) -> {r}, expected {want}")


@unit("C09.O1 parse_version = canonical grammar", targets=["vgi_rpc/metadata.py::parse_version"], replay=replay_parse, min_obligations=4)
def parse_version(S):
    s = S.str("value")
    out = S.outcome(md.parse_version, s)
    if out.raised:
        S.oblige("O1.raises_only_ValueError", exc_is(out.exc, ValueError), kind="raises")
        S.oblige("O1.rejects_only_noncanonical", Not(is_canon(s)))
        S.canary("O1.canary.rejects_everything_with_a_dot", Not(SBool(z3.Contains(s.t, z3.StringVal(".")))))
        return
    S.oblige("O1.accepts_only_canonical", is_canon(s))
    r = out.value
    S.oblige("O2.returns_triple", isinstance(r, tuple) and len(r) == 3, kind="post")
    if isinstance(r, tuple) and len(r) == 3 and all(isinstance(x, (SInt, int)) for x in r):
        a, b, c = [x if isinstance(x, SInt) else SInt(z3.IntVal(x)) for x in r]
        S.oblige("O2.components_nonnegative", And(a >= 0, b >= 0, c >= 0))
        S.oblige("O2.value_is_the_decimal_reading", eq(s, render(a, b, c)))
        S.canary("O2.canary.major_is_zero", a == 0)


def replay_check(inputs, ob):
    import threading

    sv = inputs["server_version"]
    if not py_canon(sv):
        return ReplayResult(False, "model server version not canonical")
    s = _real_server(sv)  # built by the real constructor, so every attribute the method may use exists
    cb = inputs.get("client")
    if inputs.get("client_present") is False:
        cb = None
    try:
        s._check_protocol_version(cb)
        accepted, exc = True, None
    except ProtocolVersionError as e:
        accepted, exc = False, e
    except Exception as e:
        return ReplayResult(True, f"_check_protocol_version({cb!r}) raised {type(e).__name__}: {e}")
    ok = False
    if cb is not None:
        try:
            cs = cb.decode()
            ok = py_canon(cs) and cs.split(".")[:2] == sv.split(".")[:2]
        except UnicodeDecodeError:
            ok = False
    problems = []
    if accepted != ok:
        problems.append(f"accepted={accepted} but expected {ok}")
    if exc is not None and sv not in str(exc):
        problems.append("message does not name the server version")
    return ReplayResult(bool(problems), f"server={sv!r} client={cb!r}: " + "; ".join(problems))


def _real_server(sv):
    """A real RpcServer whose Protocol declares protocol_version = sv (constructor run for real)."""
    from typing import ClassVar, Protocol

    from vgi_rpc.rpc import RpcServer

    P = type("P", (Protocol,), {"__annotations__": {"protocol_version": ClassVar[str]}, "protocol_version": sv, "ping": lambda self: 1})
    P.ping.__annotations__ = {"return": int}

    class Impl:
        def ping(self) -> int:
            return 1

    return RpcServer(P, Impl())


def search_check(ob, seed):
    """Native hunt on a real, constructor-built server: a corpus of canonical / malformed client values and
    random strings, each presented TWICE in a row (a refused client that retries) and interleaved with good ones."""
    import random

    rnd = random.Random(seed)
    for sv in ("1.2.3", "0.0.0", "10.2.0"):
        try:
            server = _real_server(sv)
        except Exception as e:  # constructor itself broken
            return {"server_version": sv}, ReplayResult(True, f"RpcServer(protocol_version={sv!r}) raised {type(e).__name__}: {e}")
        maj, mnr, _ = sv.split(".")
        corpus = [None, b"", sv.encode(), f"{maj}.{mnr}.99".encode(), f"{maj}.{mnr}.03".encode(), f"{maj}.{mnr}.00".encode(), f"{maj}.{mnr}.٣".encode(),
                  f"{maj}.{mnr}.３".encode(), f"{maj}.{mnr}.³".encode(), f"{maj}.{mnr}.1\n".encode(), f" {sv}".encode(), f"{sv}-rc1".encode(), f"{sv}+b".encode(),
                  f"0{maj}.{mnr}.0".encode(), f"{maj}.0{mnr}.0".encode(), f"{int(maj)+1}.{mnr}.0".encode(), f"{maj}.{int(mnr)+1}.0".encode(), b"banana", b"\xff\xfe", b"1.2", b"1.2.3.4"]
        for _ in range(60):
            corpus.append(bytes(rnd.choice(b"0123456789.. -+a\n") for _ in range(rnd.randint(0, 7))))
        seq = []
        for v in corpus:
            seq += [v, v, sv.encode()]
        for v in seq:
            want_ok = False
            if v is not None:
                try:
                    cs = v.decode()
                    want_ok = py_canon(cs) and cs.split(".")[:2] == [maj, mnr]
                except UnicodeDecodeError:
                    want_ok = False
            try:
                server._check_protocol_version(v)
                got_ok, exc = True, None
            except ProtocolVersionError as e:
                got_ok, exc = False, e
            except Exception as e:
                return {"server_version": sv, "client": v}, ReplayResult(True, f"_check_protocol_version({v!r}) raised {type(e).__name__}: {e}")
            if got_ok != want_ok:
                return {"server_version": sv, "client": v}, ReplayResult(True, f"server {sv}: client value {v!r} {'accepted' if got_ok else 'refused'} (expected {'accept' if want_ok else 'refuse'}) in the sequence of repeated presentations")
            if exc is not None and (sv not in str(exc) or (v is not None and want_ok is False and py_canon(_try_decode(v)) and _try_decode(v) not in str(exc))):
                return {"server_version": sv, "client": v}, ReplayResult(True, f"server {sv}: refusal of {v!r} does not name both versions: {str(exc)[:200]!r}")
    return None


def _try_decode(b):
    try:
        return b.decode()
    except Exception:
        return ""


MAJ = z3.Function("version_major", z3.StringSort(), z3.IntSort())
MIN = z3.Function("version_minor", z3.StringSort(), z3.IntSort())
PAT = z3.Function("version_patch", z3.StringSort(), z3.IntSort())


def components(value):
    """The components of a canonical version string: the unique (a, b, c) >= 0 whose decimal rendering
    a.b.c is the string (uniqueness of decimal notation is the mathematical fact behind this spec function)."""
    t = strterm(value)
    return SInt(MAJ(t)), SInt(MIN(t)), SInt(PAT(t))


def install_parse_contract(S):
    """parse_version by contract (proved in O1/O2): canonical -> its components; else ValueError."""

    def parse(S, value):
        if S.fork(is_canon(value)):
            a, b, c = components(value)
            S.assume(And(a >= 0, b >= 0, c >= 0, eq(value, render(a, b, c))))
            return (a, b, c)
        raise PyRaise(SExc(ValueError, ("Invalid protocol version",)))

    S.handlers["parse_version"] = parse


def matches(client_t, sv):
    """Spec from the property statement: canonical ASCII version with the server's major and minor."""
    sa, sb, _ = components(sv)
    return And(SBool(z3.InRe(client_t, CANON)), SInt(MAJ(client_t)) == sa, SInt(MIN(client_t)) == sb)


@unit("C09.O3 _check_protocol_version accepts exactly matching major.minor", targets=["vgi_rpc/rpc/_server.py::RpcServer._check_protocol_version"], replay=replay_check, search=search_check, min_obligations=8)
def check_version(S):
    install_parse_contract(S)
    sv = S.str("server_version")
    sa, sb, sc = components(sv)
    S.assume(And(is_canon(sv), sa >= 0, sb >= 0, sc >= 0, eq(sv, render(sa, sb, sc))))  # RpcServer.__init__ parsed it with parse_version
    me = SObj(srv.RpcServer, _protocol_version=sv, _protocol_version_parts=(sa, sb, sc))
    present = S.choose(2) == 0
    S.inputs["client_present"] = present
    client = S.bytes("client") if present else None
    out = S.outcome(srv.RpcServer._check_protocol_version, me, client)
    if out.returned:
        S.oblige("O3.accept_requires_declared_version", present, kind="post")
        if present:
            S.oblige("O3.accepts_only_canonical_with_server_major_minor", matches(client.t, sv))
        S.canary("O3.canary.accepts_only_identical_version", eq(client, SBytes(sv.t)) if present else False)
        return
    S.oblige("O3.raises_only_ProtocolVersionError", exc_is(out.exc, ProtocolVersionError), kind="raises")
    if not exc_is(out.exc, ProtocolVersionError):
        return
    msg = models.to_str(S.interp, out.exc)
    msg = msg if isinstance(msg, SStr) else SStr(z3.StringVal(msg))
    S.oblige("O3.error_names_server_version", SBool(z3.Contains(msg.t, sv.t)))
    S.oblige("O3.error_kind_is_protocol_version_mismatch", getattr(out.exc.cls, "error_kind", None) == "protocol_version_mismatch", kind="post")
    if present:
        # stepping stone for the solvers (a plain regular-language inclusion): canonical versions are ASCII, so the
        # bytes and their decoding coincide
        ascii_star = z3.Star(z3.Range(z3.StringVal("\x00"), z3.StringVal("\x7f")))
        S.lemma("O3.L.canonical_client_bytes_are_ascii", Implies(SBool(z3.InRe(client.t, CANON)), SBool(z3.InRe(client.t, ascii_star))))
        S.oblige("O3.refuses_only_nonmatching", Not(matches(client.t, sv)))
        # when the client value is a canonical ASCII version, the message names it too
        S.oblige("O3.error_names_client_version_when_canonical", Implies(SBool(z3.InRe(client.t, CANON)), SBool(z3.Contains(msg.t, client.t))))
