"""C11 HTTP producer output is independent of chunking and resumption (DESIGN §5 C11) - the reduced part.

Units:
  O1  `_decode_resume_token(_encode_resume_token(s, c)) == (s, c or None)` for every cursor token s with
      len(s) < 2**32 and every call token c (None, empty, any bytes).
  O2  `_decode_resume_token` on ARBITRARY bytes: raises only ValueError; what it returns re-assembles the blob.
  O3  producer turn, wire side: loop invariant "after the first iteration tell() < max_response_bytes at the
      head" => the body minus what the last iteration wrote is below the cap (shared world with C16.O5).
  O4  a continuation sentinel (zero-row batch carrying STATE_KEY) is written iff the turn succeeded and the
      stream is not finished; at most one, and it is the last batch of the body.
  O5  the call token rides only on the init turn's sentinel; `_run_stream_exchange_sync` (continuation)
      never passes a call token / call state to the producer turn.
Not reduced (assumed): equality of the iterated batch sequence across caps, codecs, workers and resume points
(pyarrow + HTTP + AEAD round trip).
"""

from __future__ import annotations

import z3

import vgi_rpc.http._client as cl
import vgi_rpc.http.server._app_stream as st
import vgi_rpc.http.server._responses as rs
from lib_httpcaps import *  # noqa: F403
from lib_httpcaps import NativeHttp, ProducerRun, get_ctxvar, judge_producer_turn, method_info, mk_app, raise_
from pyvc.api import *  # noqa: F403
from pyvc.api import PyRaise, ReplayResult, unit
from vgi_rpc.metadata import CALL_STATE_KEY, CANCEL_KEY, STATE_KEY

MANIFEST = {
    "level_text": "Deductive proof over the real client functions _encode_resume_token / _decode_resume_token and the real server functions _run_http_producer_turn / _run_stream_exchange_sync. (O1) For every cursor token s shorter than 2**32 bytes and every call token c (None, empty or any bytes) decode(encode(s, c)) == (s, c or None) - struct '<I' modelled as a bijection between [0, 2**32) and 4-byte strings, bytes slicing and concatenation in the theory of sequences. (O2) On ARBITRARY bytes decode raises nothing but ValueError (no struct.error / IndexError on short or overrunning input), and whatever it returns re-assembles to exactly the input blob. (O3) For every cap, every framed size of every IPC message and any number of batches per turn, at the head of every producer-loop iteration after the first tell() of the body sink is below max_response_bytes (loop invariant, cut at the loop head), hence the body exceeds the cap by at most what the last iteration wrote: one collector flush + one sentinel batch + EOS. (O4) For every outcome of state.process (emits, logs, finishes, emits-and-finishes, emits nothing, raises) and of token minting, the body ends with exactly one continuation sentinel iff the turn succeeded and the stream is not finished; a finished or failed turn carries none. (O5) The sentinel carries CALL_STATE_KEY iff the turn is the init turn, with exactly the call token it was given, and the continuation entry point never passes a call token, call state bytes or an init log sink to the producer turn.",
    "level_note": "NOT reduced to contracts: that the sequence of batches a client iterates is the same for every max_response_bytes, response codec, number of continuation turns, worker and resume point (needs pyarrow IPC + HTTP + AEAD token round trips; assumed), and the client-side loop of HttpStreamSession. Sizes are ghost integers (tell() advanced only by writes, each by an arbitrary amount >= 0); with a negotiated response codec tell() of the underlying buffer lags behind the bytes handed to the codec, so for compressed turns the overshoot bound is on the flushed byte count. Externalisation is switched off in O3-O5 (C16.O5 runs the same loop with it on).",
    "technique": "contract-based deductive verification: functional postconditions in the SMT theory of sequences with the struct bijection axioms, exceptional postconditions (raises-clauses) on arbitrary input, loop invariant over a ghost byte counter, ghost trace of written batches; VCs by pyvc, z3 / cvc5",
    "design_ref": "DESIGN.md §5 C11",
}
EXPLANATION = MANIFEST["level_text"]
TRUSTED = [
    "pyvc VC generator; its struct model (little-endian fixed-width fields as a bijection range <-> n bytes, DESIGN §3.1) and bytes slicing model",
    "z3 5.1.0 sequence solver / cvc5 1.4.0 --strings-exp",
    "pyarrow IPC writer contract (lib_httpcaps.py): writes append bytes to the sink, tell() is the number appended",
]
ASSUMPTIONS = [
    "NOT REDUCED: equality of the iterated batch sequence across caps / codecs / workers / resume points; the client loop in HttpStreamSession.__iter__ / next_with_token",
    "len(state_bytes) < 2**32 in O1 (struct.pack('<I', ...) raises struct.error beyond; tokens are a few hundred bytes)",
    "user code, `_mint_cursor_token`, access log / telemetry and `_unpack_and_recover_state` are used by contract (return or raise, write nothing to the body)",
    "`app._state_types` has an entry for the method (both callers refuse the request otherwise)",
    "with a response codec, tell() counts the bytes the codec has flushed to the underlying buffer",
    "termination of the producer loop is not verified",
]


# ------------------------------------------------------------------------------------------
# O1 / O2  resume token codec
# ------------------------------------------------------------------------------------------

CALL_CASES = ["none", "empty", "bytes"]


def _roundtrip_once(s, c):
    try:
        blob = cl._encode_resume_token(s, c)
        got = cl._decode_resume_token(blob)
    except Exception as e:  # noqa: BLE001
        return f"encode/decode of (state={_short(s)}, call={_short(c)}) raised {type(e).__name__}: {e}"
    want = (s, c or None)
    if got != want:
        return f"decode(encode(state={_short(s)}, call={_short(c)})) = ({_short(got[0])}, {_short(got[1])}), expected ({_short(want[0])}, {_short(want[1])})"
    return None


def _short(b):
    return repr(b) if b is None or len(b) <= 24 else f"<{len(b)} bytes {b[:8]!r}...>"


def replay_roundtrip(inputs, ob):
    """The model's tokens first; the struct model leaves the byte content of a length prefix uninterpreted across
    widths, so a handful of canonical lengths around the 1- and 2-byte prefix boundaries are tried as well."""
    s = inputs.get("state_bytes", b"")
    c = {"none": None, "empty": b""}.get(inputs.get("call_case"), inputs.get("call_bytes", b""))
    cands = [(s, c)] if isinstance(s, bytes) and (c is None or isinstance(c, bytes)) else []
    cands += [(b"s" * n, cc) for n in (0, 1, 255, 256, 65535, 65536, 65537) for cc in (None, b"", b"call-token")]
    for s_, c_ in cands:
        bad = _roundtrip_once(s_, c_)
        if bad:
            return ReplayResult(True, bad)
    return ReplayResult(False, f"{len(cands)} round trips (model input + canonical lengths) all returned (s, c or None)")


@unit(
    "C11.O1 decode(encode(s, c)) == (s, c or None)",
    targets=["vgi_rpc/http/_client.py::_encode_resume_token", "vgi_rpc/http/_client.py::_decode_resume_token"],
    replay=replay_roundtrip,
    min_obligations=6,
)
def roundtrip(S):
    s = S.bytes("state_bytes")
    S.assume(s.length() < 2**32)
    case = CALL_CASES[S.choose(3)]
    S.inputs["call_case"] = case
    c = None if case == "none" else (b"" if case == "empty" else S.bytes("call_bytes"))
    enc = S.outcome(cl._encode_resume_token, s, c)
    S.oblige("O1.encode_raises_nothing_below_4GiB", enc.returned, kind="raises", witness=(exc_class(enc.exc).__name__ if enc.raised else ""))
    if not enc.returned:
        return
    blob = enc.value
    S.oblige("O1.blob_is_prefix_plus_both_tokens", blob.length() == 4 + s.length() + (c.length() if isinstance(c, SBytes) else 0), kind="post")
    # stepping stone (proved, then used): the first four bytes of the blob are the packed cursor length, so the
    # decoder's unpack reads back len(s) (struct bijection) - keeps the slicing obligations below small
    from pyvc import models as _models

    S.lemma("O1.L.blob_starts_with_the_packed_cursor_length", SBool(z3.SubString(bytesterm(blob), 0, 4) == _models._LE[4](z3.Length(s.t))))
    S.lemma("O1.L.unpacking_the_prefix_gives_the_cursor_length", SBool(_models._UNLE[4](z3.SubString(bytesterm(blob), 0, 4)) == z3.Length(s.t)))
    bt, ls = bytesterm(blob), z3.Length(s.t)
    S.lemma("O1.L.cursor_token_sits_after_the_prefix", SBool(z3.SubString(bt, 4, ls) == s.t))
    S.lemma("O1.L.call_token_is_the_rest", SBool(z3.SubString(bt, 4 + ls, z3.Length(bt) - 4 - ls) == (bytesterm(c) if c is not None else z3.StringVal(""))))
    dec = S.outcome(cl._decode_resume_token, blob)
    S.oblige("O1.decode_accepts_every_encoded_blob", dec.returned, kind="raises", witness=(exc_class(dec.exc).__name__ if dec.raised else ""))
    if not dec.returned:
        return
    got_s, got_c = dec.value
    S.oblige("O1.cursor_token_survives", eq(got_s, s), kind="post")
    if c is None or case == "empty":
        S.oblige("O1.absent_or_empty_call_token_comes_back_as_None", got_c is None, kind="post")
    else:
        # c or None
        S.oblige("O1.call_token_survives", (got_c is None and True and eq(c.length(), 0)) if got_c is None else eq(got_c, c), kind="post")
    S.canary("O1.canary.cursor_token_is_empty", eq(got_s, b""))


def _decode_once(t):
    try:
        s, c = cl._decode_resume_token(t)
    except ValueError:
        return None
    except Exception as e:  # noqa: BLE001
        return f"_decode_resume_token({_short(t)}) raised {type(e).__name__}: {e} (only ValueError is allowed)"
    try:
        back = cl._encode_resume_token(s, c)
    except Exception as e:  # noqa: BLE001
        return f"_decode_resume_token({_short(t)}) = ({_short(s)}, {_short(c)}), which _encode_resume_token refuses: {type(e).__name__}: {e}"
    if not (isinstance(s, bytes) and (c is None or (isinstance(c, bytes) and c)) and back == t):
        return f"_decode_resume_token({_short(t)}) = ({_short(s)}, {_short(c)}) but _encode_resume_token of that is {_short(back)}: a malformed blob was accepted"
    return None


def replay_decode(inputs, ob):
    """The model's blob first, then canonical malformed blobs (short, prefix overrunning by 1.., exact, with tail)."""
    import struct

    t = inputs.get("token", b"")
    cands = [t] if isinstance(t, bytes) else []
    cands += [b"", b"\x00", b"\x00\x00\x00", b"\xff\xff\xff\xff"]
    for n in (0, 1, 3):
        for claimed in (n - 1, n, n + 1, n + 2):
            if claimed >= 0:
                cands += [struct.pack("<I", claimed) + b"x" * n, struct.pack("<I", claimed) + b"x" * n + b"tail"]
    for t_ in cands:
        bad = _decode_once(t_)
        if bad:
            return ReplayResult(True, bad)
    return ReplayResult(False, f"{len(cands)} blobs (model input + canonical malformed blobs): ValueError or a result that re-encodes to the blob")


@unit(
    "C11.O2 _decode_resume_token on arbitrary bytes: only ValueError, result re-assembles the blob",
    targets=["vgi_rpc/http/_client.py::_decode_resume_token"],
    replay=replay_decode,
    min_obligations=4,
)
def decode_total(S):
    t = S.bytes("token")
    out = S.outcome(cl._decode_resume_token, t)
    if out.raised:
        S.oblige("O2.raises_only_ValueError", exc_is(out.exc, ValueError), kind="raises", witness=exc_class(out.exc).__name__)
        S.canary("O2.canary.only_short_blobs_are_refused", t.length() < 4)
        return
    s, c = out.value
    S.oblige("O2.returns_bytes_and_optional_bytes", isinstance(s, (SBytes, bytes)) and (c is None or isinstance(c, (SBytes, bytes))), kind="post")
    if not (isinstance(s, (SBytes, bytes)) and (c is None or isinstance(c, (SBytes, bytes)))):
        return
    tail = c if c is not None else b""
    tt = bytesterm(t)
    S.oblige("O2.result_reassembles_the_blob", SBool(z3.Concat(z3.SubString(tt, 0, 4), bytesterm(s), bytesterm(tail)) == tt) if c is not None else SBool(z3.Concat(z3.SubString(tt, 0, 4), bytesterm(s)) == tt), kind="post")
    # decode is the inverse of encode in the other direction too: what it accepts is exactly what encode produces
    from pyvc import models as _models

    S.lemma("O2.L.cursor_length_is_the_value_of_the_prefix", SBool(z3.Length(bytesterm(s)) == _models._UNLE[4](z3.SubString(tt, 0, 4))))
    back = S.outcome(cl._encode_resume_token, s, c)
    S.oblige("O2.encode_of_the_result_is_the_blob", back.returned and eq(back.value, t), kind="post")
    if c is not None:
        S.oblige("O2.a_returned_call_token_is_not_empty", I(len(c)) > 0 if isinstance(c, bytes) else c.length() > 0, kind="post")
    S.canary("O2.canary.every_blob_has_a_call_token", SBool(z3.BoolVal(c is not None)))


# ------------------------------------------------------------------------------------------
# O3 / O4 / O5  producer turn (wire side)
# ------------------------------------------------------------------------------------------


def replay_turn(inputs, ob):
    """Native producer streams through the real HTTP stack: overshoot bound, sentinel iff not finished,
    call token only on the init turn."""
    has_wire = inputs.get("wire_cap") is not None
    logs = 1 if "log" in str(inputs.get("process_outcome", "")) else 0
    problems, runs = [], 0
    n = 100
    probe = NativeHttp(1_000_000, None, False).producer(n, 5, logs)
    msgs = probe[0]["messages"]
    ends = [msgs[i + 1]["start"] for i, m in enumerate(msgs[:-1]) if m["kind"] == "data"]
    for wc in ([ends[1], ends[1] + 1, ends[1] - 1, 1] if has_wire else [None]):
        h = NativeHttp(wc, None, False)
        for count, fin in ((1, True), (1, False), (3, False), (5, True), (0, False)):
            turns = h.producer(n, count, logs, fin)
            for i, t in enumerate(turns):
                runs += 1
                where = f"producer(n={n}, count={count}, logs={logs}, finish_with_last={fin}) max_response_bytes={wc} turn {i}"
                for b in judge_producer_turn(t, wc, None, NativeHttp.logical(n)):
                    problems.append(f"{where}: {b}")
                kinds = [m["kind"] for m in t["messages"]]
                sent = [m for m in t["messages"] if m["kind"] == "sentinel"]
                last = i == len(turns) - 1
                if len(sent) > 1 or (sent and kinds[-1] != "sentinel"):
                    problems.append(f"{where}: sentinel not the single last batch: {kinds}")
                if last and sent and not t["marker"]:
                    problems.append(f"{where}: stream ended but the last turn carries a continuation sentinel")
                for m in sent:
                    if (CALL_STATE_KEY in m["md"]) != (i == 0):
                        problems.append(f"{where}: call token {'missing on the init turn' if i == 0 else 'handed out again by a continuation turn'}")
            data = sum(1 for t in turns for m in t["messages"] if m["kind"] == "data")
            if data != count:
                problems.append(f"producer(count={count}, finish_with_last={fin}) max_response_bytes={wc}: client saw {data} data batches (a sentinel after finish / a missing sentinel changes the stream)")
            if len(problems) >= 3:
                break
    return ReplayResult(bool(problems), f"{runs} native producer turns; " + (" | ".join(problems[:3]) if problems else "no clause violated"))


def _sentinels(W, body):
    out = []
    for e in W.written(body):
        if e[0] == "batch" and e[2] is not None and STATE_KEY in e[2].fields["d"]:
            out.append(e)
    return out


@unit(
    "C11.O3/O4/O5 _run_http_producer_turn: overshoot by at most the last batch, sentinel iff not finished, call token only on the init turn",
    targets=["vgi_rpc/http/server/_app_stream.py::_run_http_producer_turn", "vgi_rpc/rpc/_wire.py::_flush_collector"],
    replay=replay_turn,
    min_obligations=30,
    max_paths=20000,
)
def producer_turn(S):
    R = ProducerRun(S, external=False)
    out = R.run()
    W = R.W
    S.oblige("O3.turn_raises_nothing", out.returned, kind="raises", witness=(exc_class(out.exc).__name__ if out.raised else ""))
    if not out.returned or R.cur["head_iters"] is None:
        return
    body = R.body
    S.oblige(
        "O3.body_minus_the_last_iteration_is_below_the_wire_cap",
        Implies(R.cur["head_iters"] > 0, False if R.wire_cap is None else R.cur["head_wire"] < R.wire_cap),
        kind="post",
    )
    S.oblige("O3.returned_reader_wraps_the_whole_body", isinstance(out.value, SObj) and out.value.kind == "Reader" and out.value.fields["blob"].fields["src"] is body, kind="post")
    ok = R.outcome.fields["status"] == "ok"
    finished = bool(R.cur["out"].fields["_finished"]) if R.cur["out"] is not None else False
    sent = _sentinels(W, body)
    batches = [e for e in W.written(body) if e[0] in ("batch", "error")]
    S.oblige("O4.sentinel_iff_the_turn_succeeded_and_the_stream_is_not_finished", (len(sent) == 1) == (ok and not finished) and len(sent) <= 1, kind="trace")
    if sent:
        S.oblige("O4.sentinel_is_the_last_batch_and_has_no_rows", batches[-1] is sent[0] and sent[0][1].fields["num_rows"] == 0, kind="trace")
        md = sent[0][2].fields["d"]
        S.oblige("O5.call_token_rides_the_sentinel_iff_init_turn", (CALL_STATE_KEY in md) == R.init_turn and (not R.init_turn or md[CALL_STATE_KEY] is R.call_token), kind="trace")
    others = [e for e in W.written(body) if e[0] == "batch" and e not in sent and e[2] is not None]
    S.oblige("O5.no_other_batch_carries_a_token", all(CALL_STATE_KEY not in e[2].fields["d"] and STATE_KEY not in e[2].fields["d"] for e in others), kind="trace")
    if R.wire_cap is not None and not R.init_turn and S.inputs.get("codec") is None:
        S.canary("O4.canary.no_turn_ends_with_a_sentinel", SBool(z3.BoolVal(not sent)))
        S.canary("O3.canary.body_always_below_the_cap", W.size(body) < R.wire_cap)


# ------------------------------------------------------------------------------------------
# O5  the continuation entry point passes no call token
# ------------------------------------------------------------------------------------------


def replay_continuation(inputs, ob):
    return replay_turn({"wire_cap": 1}, ob)


@unit(
    "C11.O5 _run_stream_exchange_sync (producer continuation) hands no call token to the producer turn",
    targets=["vgi_rpc/http/server/_app_stream.py::_run_stream_exchange_sync", "vgi_rpc/http/server/_app_stream.py::_dispatch_telemetry"],
    replay=replay_continuation,
    min_obligations=3,
)
def continuation(S):
    from pyarrow import ipc

    from vgi_rpc.rpc import _EMPTY_SCHEMA
    from vgi_rpc.utils import ValidatedReader

    W = HttpWorld(S)
    app = mk_app(S, W, None, None, None, methods={"m": method_info("m", MethodType.STREAM)})
    client_call_token = S.opaque("client_call_token", "Token")
    req_md = SObj(None, kind="KV", d={STATE_KEY: S.opaque("client_cursor", "Token"), CALL_STATE_KEY: client_call_token})
    H = S.handlers
    H["KV.get"] = lambda S, kv, key, default=None: kv.fields["d"].get(key, default)
    H[ipc.open_stream] = lambda S, stream: SObj(None, kind="RawReader")
    H[ValidatedReader] = lambda S, raw, validation=None: SObj(None, kind="VReader")
    H["VReader.read_next_batch_with_custom_metadata"] = lambda S, r: (W.batch("tick", 0, 0), req_md)
    resolved = SObj(None, kind="ResolvedCall", output_schema=SObj(None, kind="Schema", tag="output"), input_schema=_EMPTY_SCHEMA, stream_id="stream-1", call_state=None)
    H["_unpack_and_recover_state"] = lambda S, app_, token, call_token, state_info, auth, *a, **k: (SObj(None, kind="State"), resolved, b"call-id", b"cursor-plaintext")
    got = {}

    def turn(S, app_, **kw):
        got.update(kw)
        S.event("producer_turn")
        return SObj(None, kind="Reader", blob=None)

    H["_run_http_producer_turn"] = turn
    S.inline.add("_DispatchOutcome")
    out = S.outcome(st._run_stream_exchange_sync, app, "m", SObj(None, kind="RequestStream"))
    S.oblige("O5.continuation_reaches_the_producer_turn_once", out.returned and len(S.events("producer_turn")) == 1, kind="trace")
    S.oblige("O5.continuation_passes_no_call_token", got.get("call_token") is None and got.get("call_state_bytes") is None, kind="trace")
    S.oblige("O5.continuation_passes_no_init_sink_or_init_metadata", got.get("sink") is None and got.get("init_request_metadata") is None, kind="trace")
    S.oblige("O5.continuation_owns_its_response_body", got.get("owns_response_body") is True, kind="trace")
    S.canary("O5.canary.no_stream_id_is_passed", SBool(z3.BoolVal(got.get("stream_id") is None)))


# ------------------------------------------------------------------------------------------
# O6  frame condition behind "independent of resumption": apart from the documented call-state cache (C14) a
# continuation is served from its tokens alone.  No function of the HTTP server modules that take part in a stream turn
# rebinds or mutates module-level state, so presenting the same token again - to this worker or any other - rebuilds
# the same state and yields the same batches.
# ------------------------------------------------------------------------------------------

STATELESS_MODULES = [
    "vgi_rpc.http.server._app_stream",
    "vgi_rpc.http.server._app_unary",
    "vgi_rpc.http.server._resources",
    "vgi_rpc.http.server._responses",
    "vgi_rpc.http.server._middleware",
    "vgi_rpc.http.server._state_token",
    "vgi_rpc.http.server._app",
]
# module-level names that *are* written, and why that cannot carry stream state from one request to the next
ALLOWED_MODULE_STATE = {
    ("vgi_rpc.http.server._state_token", "_codecs"): "per-thread memo of zstd (de)compressor objects, value-independent",
    ("vgi_rpc.http.server._app", "_DISPATCHERS"): "memo of the sync-dispatch function table, built once from module functions",
}


def search_resumption(ob, seed=0):
    import lib_c11_resume as R

    probs = R.resumption_problems()
    return ({"scenario": "tokens presented again on the issuing worker / a second worker / capped session iterated twice"}, ReplayResult(True, "; ".join(probs))) if probs else None


def replay_resumption(inputs, ob):
    found = search_resumption(ob)
    return found[1] if found else ReplayResult(False, "every token presented again (same worker twice, second worker cold and warm, capped session twice) yields exactly the remaining batches")


@unit("C11.O6 frame: a stream turn leaves no module-level state behind (statelessness across requests and workers)", targets=[m.replace(".", "/") + ".py (module state)" for m in STATELESS_MODULES], replay=replay_resumption, search=search_resumption, min_obligations=4)
def stateless_frame(S):
    import importlib

    from pyvc import locks

    n = 0
    for name in STATELESS_MODULES:
        mod = importlib.import_module(name)
        for r in locks.module_writes(mod):
            n += 1
            S.cur_site = f"{name}:{r.line}: {r.text}"
            S.oblige(f"O6.no_module_level_state_written.{name.rsplit('.', 1)[1]}.{r.field}", (name, r.field) in ALLOWED_MODULE_STATE, kind="lock", why=r.why, witness=f"{r.method}:{r.text}")
        S.oblige(f"O6.module_scanned.{name.rsplit('.', 1)[1]}", hasattr(mod, "__file__"), kind="lemma")
    S.canary("O6.canary.nothing_is_ever_written", SBool(__import__("z3").BoolVal(n == 0)))
