"""Driver that executes the real RpcServer._serve_stream for the stream-lifecycle (C10) and the
shared-memory release (C29) contracts.  Same abstract world as lib_server/lib_dispatch (IPC
writers/readers and user code are handlers over ghost state); differences to
lib_dispatch.run_serve_stream:

* ``real_collector=True`` runs the REAL ``OutputCollector`` and the REAL ``_flush_collector``: the user's
  ``process`` is an arbitrary script of ``out.emit`` / ``out.finish`` calls (or raises), so the batches
  that reach the IPC writer are the objects the user emitted.
* ``with_shm=True`` passes a segment, lets ``resolve_shm_batch`` (by contract) return a release
  function per resolved region and runs the REAL ``AnnotatedBatch`` / ``AnnotatedBatch.release``;
  every release is a ghost event, so its order relative to ``stream_close`` is observable.
* every event the obligations talk about is in ``S.trace`` *and* counted in ``S.ghost`` (the counters
  carry the facts across the loop cut).
"""

from __future__ import annotations

from typing import Any

import pyarrow as pa
import pyarrow.ipc as ipc
import z3

import vgi_rpc.rpc._server as srv
import vgi_rpc.rpc._wire as wire
from lib_server import UserError, World, method_info, raise_
from pyvc.api import *  # noqa: F403
from pyvc.values import Shape
from vgi_rpc.rpc._common import MethodType
from vgi_rpc.rpc._types import AnnotatedBatch, CallContext, OutputCollector

COUNTERS = ("n_read", "n_process", "n_flush", "n_data_written", "n_emitted", "n_cancel", "n_cancel_hook", "n_error_batch", "n_resolved", "n_released")
LOOP = ("RpcServer._serve_stream", 0)


class PrevInputShape(Shape):
    """Havoc shape of ``prev_input``: None, an input that owns no region, or an input whose region is still live."""

    def __init__(self, with_shm: bool) -> None:
        self.with_shm = with_shm

    def fresh(self, name: str) -> Any:
        S = ctx()
        k = S.choose(3 if self.with_shm else 2)
        if k == 0:
            return None
        rf = SObj(None, kind="ReleaseFn", released=False, rid="havocked") if k == 2 else None
        return SObj(AnnotatedBatch, batch=SObj(None, kind="Batch", tag="earlier-input"), custom_metadata=None, _release_fn=rf)

    def __repr__(self) -> str:
        return "PrevInput"


def zero() -> Any:
    return SInt(z3.IntVal(0))


def run_stream(S: Any, *, real_collector: bool, with_shm: bool, header_choice: bool = True, reader_may_fail: bool = True, steps_may_fail: bool = True) -> dict[str, Any]:
    W = World(S)
    H = S.handlers
    G = S.ghost
    for g in COUNTERS:
        G[g] = zero()

    def bump(g: str) -> None:
        G[g] = G[g] + 1

    header_declared = header_choice and S.choose(2) == 1
    info = method_info("m", MethodType.STREAM, header=header_declared)
    producer = S.choose(2) == 1  # producer stream (input schema is the empty schema) or exchange stream
    S.inputs["producer"] = producer
    out_schema = SObj(None, kind="Schema", tag="out")
    in_schema = SObj(None, kind="Schema", tag="empty" if producer else "in")
    state = SObj(None, kind="State")
    impl = SObj(None, kind="Impl", m=SObj(None, kind="UserMethod"))
    impl.closed = True
    header_obj = SObj(None, kind="Header")

    H["_ClientLogSink"] = lambda S, server_id=None: SObj(None, kind="Sink")
    H[wire._ClientLogSink] = lambda S, server_id=None: SObj(None, kind="Sink")
    H["Sink.flush_contents"] = lambda S, sink, writer, schema: S.event("sink_flush", writer)

    def call_context(S, **kw):
        o = SObj(None, kind="CallCtx")
        o.fields.update(kw)
        return o

    H[CallContext] = call_context

    def user_method(S, m, **kwargs):
        S.event("impl_invoked")
        return SObj(None, kind="StreamResult", output_schema=out_schema, input_schema=in_schema, state=state, header=header_obj)

    H["UserMethod.__call__"] = user_method

    def schema_eq(S, a, b):
        # arrow schema equality on the abstract schemas of this world: identity, and `== _EMPTY_SCHEMA` by tag
        if isinstance(b, SObj):
            return a is b
        if isinstance(b, pa.Schema):
            return a.fields.get("tag") == "empty" and len(b) == 0
        return False

    H["Schema.__eq__"] = schema_eq

    def write_stream_header(S, dest, header, external_config=None, sink=None, method_name=""):
        # by contract (C10.O6 unit on the real function): one complete IPC stream carrying the header batch
        S.event("header_stream", dest, header)

    H["_write_stream_header"] = write_stream_header

    # ---- the client's input stream: an arbitrary script --------------------------------
    def open_stream(S, src):
        if reader_may_fail and S.choose(2) == 1:
            S.event("reader_failed", "open")
            raise_(pa.ArrowInvalid, "input is not an IPC stream")
        return SObj(None, kind="RawIpcReader")

    H[ipc.open_stream] = open_stream
    from vgi_rpc.utils import ValidatedReader

    H[ValidatedReader] = lambda S, raw, validation=None: SObj(None, kind="Reader")

    def read_next(S, r):
        k = S.choose(4 if reader_may_fail else 3)
        if k == 0:
            S.event("input_eos")
            raise_(StopIteration)
        if k == 1:
            S.event("input_cancel")
            bump("n_cancel")
            return (SObj(None, kind="Batch", tag="cancel"), {b"vgi_rpc.cancel": b"1"})
        if k == 3:
            S.event("reader_failed", "read")
            raise_(pa.ArrowInvalid, "corrupt batch")
        bump("n_read")
        b = SObj(None, kind="Batch", tag="input")
        S.event("input_read", b)
        return (b, None)

    H["Reader.read_next_batch_with_custom_metadata"] = read_next

    def drain(S, reader, shm=None):
        S.event("drained", shm)
        if reader_may_fail and S.choose(2) == 1:
            raise_(pa.ArrowInvalid, "garbage after the stream")

    H["_drain_stream"] = drain

    def may_raise(tag, cls=UserError):
        if steps_may_fail and S.choose(2) == 1:
            S.event("step_failed", tag)
            raise_(cls, tag)

    def resolve_external(S, batch, cm, config, ipc_validation=None):
        may_raise("resolve_external", RuntimeError)
        return (batch, cm)

    H["resolve_external_location"] = resolve_external
    shm_seg = SObj(None, kind="Segment") if with_shm else None

    def resolve_shm(S, batch, cm, shm):
        # by contract (C29.O4 on the real function): shm None / not a pointer -> unchanged, release_fn None;
        # a pointer -> the batch read from the region and a release function for exactly that region;
        # a pointer whose region cannot be read raises before any release function exists
        if shm is None:
            return (batch, cm, None)
        k = S.choose(3 if steps_may_fail else 2)
        if k == 0:
            return (batch, cm, None)
        if k == 2:
            S.event("step_failed", "resolve_shm")
            raise_(ValueError, "unreadable region")
        bump("n_resolved")
        rf = SObj(None, kind="ReleaseFn", released=False, rid=len(S.events("resolved")))
        S.event("resolved", rf)
        return (SObj(None, kind="Batch", tag="from-shm"), cm, rf)

    H["resolve_shm_batch"] = resolve_shm

    def release_call(S, rf):
        S.oblige("release.no_region_is_released_twice", rf.fields["released"] is False, kind="pre")
        rf.fields["released"] = True
        bump("n_released")
        S.event("released", rf)

    H["ReleaseFn.__call__"] = release_call

    def coerce(S, batch, schema):
        # by contract (C10.O3 on the real function): a batch with the declared schema, or TypeError
        may_raise("coerce", TypeError)
        return SObj(None, kind="Batch", tag="coerced", schema=schema, source=batch)

    H["_coerce_input_batch"] = coerce
    S.inline.update({"dataclass:AnnotatedBatch", "AnnotatedBatch.release", "RpcServer._prepare_method_call"})

    # ---- the collector and the user's process() ----------------------------------------
    script: dict[str, Any] = {}
    if real_collector:
        S.inline.update({"OutputCollector", "OutputCollector.emit", "OutputCollector.finish", "OutputCollector.validate", "OutputCollector.finished", "OutputCollector.batches", "OutputCollector.total_data_bytes", "_flush_collector"})
        H["Batch.get_total_buffer_size"] = lambda S, b: S.int("buffer_size")
        H["_record_output"] = lambda S, *a, **k: None

        def process(S, st, ab, out, pctx):
            bump("n_process")
            S.event("process", ab, out)
            S.oblige("lifecycle.no_process_after_cancel", not S.events("input_cancel"), kind="trace")
            S.oblige("lifecycle.state_sees_the_coerced_input", isinstance(ab.fields["batch"], SObj) and ab.fields["batch"].fields.get("tag") == "coerced" and ab.fields["batch"].fields.get("schema") is in_schema, kind="trace")
            S.oblige("lifecycle.collector_mode_matches_stream_kind", out.fields["_producer_mode"] is producer, kind="trace")
            # arbitrary user behaviour: raise | (emit?) (finish?) in either order, finish attempted in any mode
            k = S.choose(7)
            script["k"] = ["raise", "nothing", "emit", "finish", "emit+finish", "finish+emit", "emit+emit"][k]
            if k == 0:
                S.event("step_failed", "process")
                raise_(UserError, "process failed")
            ops = {1: [], 2: ["emit"], 3: ["finish"], 4: ["emit", "finish"], 5: ["finish", "emit"], 6: ["emit", "emit"]}[k]
            for op in ops:
                if op == "emit":
                    b = SObj(None, kind="Batch", tag="data", schema=out_schema)
                    try:
                        S.interp.call_value(S.interp.getattr_value(out, "emit"), [b], {})
                    except PyRaise:
                        S.event("emit_refused")
                        S.event("step_failed", "emit")
                        raise
                    bump("n_emitted")
                    S.event("emitted", b)
                else:
                    try:
                        S.interp.call_value(S.interp.getattr_value(out, "finish"), [], {})
                    except PyRaise:
                        S.event("finish_refused")
                        S.event("step_failed", "finish")
                        raise
                    S.event("finished")

        H["State.process"] = process

        def write_batch(S, w, batch, custom_metadata=None):
            if isinstance(batch, SObj) and batch.fields.get("tag") == "data":
                bump("n_data_written")
            S.event("write_batch", w, batch, custom_metadata)

        H["IpcWriter.write_batch"] = write_batch
    else:

        def collector(S, schema, prior_data_bytes=0, server_id=None, producer_mode=False):
            return SObj(None, kind="Out", finished=S.bool("out_finished"), total_data_bytes=S.int("out_bytes"), emit_client_log_message=SObj(None, kind="EmitFn"))

        H[OutputCollector] = collector
        H["Out.validate"] = lambda S, o: may_raise("validate", RuntimeError)

        def process(S, st, ab, out, pctx):
            bump("n_process")
            S.event("process", ab, out)
            may_raise("process")

        H["State.process"] = process

        def flush(S, writer, out, config=None, shm=None):
            may_raise("flush", pa.ArrowInvalid)
            bump("n_flush")
            S.event("flush", out)
            return 0

        H["_flush_collector"] = flush

    def on_cancel(S, st, cctx):
        bump("n_cancel_hook")
        S.event("on_cancel")
        may_raise("on_cancel")

    H["State.on_cancel"] = on_cancel

    def write_error_batch(S, writer, schema, exc, server_id=None):
        bump("n_error_batch")
        S.event("error_batch", writer, exc)

    H["_write_error_batch"] = write_error_batch

    S.loop_havoc[LOOP] = {"prev_input": PrevInputShape(with_shm), "cumulative_bytes": IntShape}
    S.loop_ghost[LOOP] = ["n_read", "n_process", "n_flush", "n_data_written", "n_emitted", "n_resolved", "n_released"]
    me = SObj(
        srv.RpcServer,
        _ipc_validation="full",
        _external_config=None,
        _transport_kind=None,
        _server_id="srv",
        _server_version="1",
        _protocol_hash="h",
        _dispatch_hook=None,
        _impl=impl,
        _ctx_methods=frozenset(),
        _describe_batch=None,
        _describe_metadata={},
    )
    transport = SObj(None, kind="Transport", reader=SObj(None, kind="RawReader"), writer=SObj(None, kind="RawWriter"))

    def go() -> Any:
        return S.outcome(srv.RpcServer._serve_stream, me, transport, info, {}, stats=SObj(None, kind="Stats"), shm=shm_seg)

    return {"W": W, "G": G, "go": go, "info": info, "header_declared": header_declared, "header": header_obj, "producer": producer, "out_schema": out_schema, "in_schema": in_schema, "script": script, "transport": transport, "shm": shm_seg}
