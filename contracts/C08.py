"""C08 Client log messages are delivered once, in order, robustly (DESIGN §5 C08).

Units
  O1  _ClientLogSink.__call__ / flush_contents / reset     written ++ buffer == emitted (ghost sequence)
  O2  OutputCollector.emit_client_log_message / emit, _flush_collector (inline arm): emission order kept
  O3  _read_batch_with_log_check: on_log events in stream order, all before the data batch is returned
  O4  one message through add_to_metadata -> identity wire -> _dispatch_log_or_error: delivered == emitted
  O5  robustness of _dispatch_log_or_error for ANY metadata a peer can put on a zero-row batch
  O6  unary dispatch sites (socket + HTTP): sink flushed before the method runs, result written after it
"""

from __future__ import annotations

import json

import pyarrow as pa
import z3

import vgi_rpc.log as logmod
import vgi_rpc.rpc._types as rtypes
import vgi_rpc.rpc._wire as wire
from pyvc import models
from pyvc.api import *  # noqa: F403
from pyvc.api import PyRaise, ReplayResult, unit
from vgi_rpc.log import Level, Message
from vgi_rpc.metadata import ERROR_KIND_KEY, LOG_EXTRA_KEY, LOG_LEVEL_KEY, LOG_MESSAGE_KEY, REQUEST_ID_KEY, SERVER_ID_KEY
from vgi_rpc.rpc._common import RpcError, _current_request_id

MANIFEST = {
    "level_text": "Deductive proof over the real code, for every sequence of emissions and every metadata map: (O1) the client-log sink keeps written ++ buffer equal to the emitted sequence through __call__/flush_contents/reset, for any buffer length; (O2) OutputCollector and the inline flush keep log batches and the data batch in emission order; (O3) _read_batch_with_log_check hands the log batches of any stream to on_log in stream order, each once, before it returns the data batch, and reads nothing past it; (O4) a message (any non-exception level, any text, any string extra map of any size and any keys) travels add_to_metadata -> wire -> _dispatch_log_or_error and arrives with level, text and extras equal; (O5) for ANY bytes a peer puts under the log keys of a zero-row batch - non-UTF-8, unknown level, extra that is not JSON / not an object / an object with any keys (unbounded) - the client raises only RpcError (EXCEPTION level) or what on_log raised, consumes the batch, and calls on_log at most once; (O6) _serve_unary and _run_unary_sync flush the sink into the response writer before the method runs and write the result after it returned, so whatever the method logs precedes its result.",
    "level_note": "Assumes: json.loads returns some JSON value or raises ValueError (JSONDecodeError, int-digit limit) / RecursionError, and inverts json.dumps on string-valued objects; str() of a decoded JSON value does not raise; UTF-8 encode/decode abstracted (inverse pair + validity predicate); pyarrow KeyValueMetadata is a bytes->bytes map and IPC writers/readers keep batch order (identity wire); the shm / external arms of _flush_collector and resolve_external_location / resolve_shm_batch are used by contract (pass-through), their own order-preservation is not reduced; loop termination not verified; engine + z3/cvc5 trusted.",
    "technique": "contract-based deductive verification: ghost emitted/written sequences with loop invariants, exceptional postconditions over all raise sites, composition lemma through an identity wire; VCs from the real AST (pyvc), z3/cvc5",
    "design_ref": "DESIGN.md §5 C08",
}
EXPLANATION = MANIFEST["level_text"]
TRUSTED = [
    "pyvc VC generator (exception forks at every raise site; symbolic maps for free-form JSON objects and **kwargs binding)",
    "z3 5.1.0 / cvc5 1.4.0",
    "CPython json: loads returns a JSON value (null/bool/int/float/str/list/object with str keys) or raises ValueError (incl. JSONDecodeError, UnicodeDecodeError) / RecursionError; loads(dumps(d)) == d for dicts str->str",
    "pyarrow: KeyValueMetadata(dict).get(key) is the dict lookup; an IPC stream delivers batches and their custom metadata in the order written",
]
ASSUMPTIONS = [
    "identity wire: what writer.write_batch(batch, custom_metadata=cm) is given is what read_next_batch_with_custom_metadata returns, in order (pyarrow IPC)",
    "json.loads is over-approximated: its result does not depend on the text (any text may decode to any JSON value), except that it inverts the one json.dumps of the round trip",
    "str() of a decoded JSON value is total (replayed natively down to the deepest nesting json.loads accepts)",
    "'extra fields preserved' is read as: every emitted key other than the framework's own annotations server_id / request_id arrives with its value, and no other key appears",
    "'ignores the message' is read as: the batch is consumed (not returned as data) without an on_log call",
    "O3 uses _dispatch_log_or_error by contract (O4/O5): a log batch is delivered once or ignored, decided by the batch alone",
    "_flush_collector: only the inline arm (no shm, no external storage) is under contract",
    "not under contract: the other loops that hand batches to _dispatch_log_or_error (_read_header_batch, the HTTP client's response readers in http/_client.py, external.py) and the stream dispatch sites' use of the sink (_write_stream_header flush/reset protocol)",
    "termination of the loops is not verified",
]

JSON = OpaqueShape("Json")
V_opaque_sort = opaque_sort
MSG = OpaqueShape("Msg")
KEYTAG = {LOG_LEVEL_KEY: "level", LOG_MESSAGE_KEY: "message", LOG_EXTRA_KEY: "extra", REQUEST_ID_KEY: "request_id", SERVER_ID_KEY: "server_id", ERROR_KIND_KEY: "error_kind"}
RESERVED = ("server_id", "request_id")  # annotations the framework itself adds to a delivered message


class UserError(Exception):
    """Stands for whatever the user's on_log callback raises."""


def raise_(cls, *args):
    e = SExc(cls, tuple(args))
    e.site = ctx().cur_site
    raise PyRaise(e)


# ------------------------------------------------------------------------------------------
# shared abstract world: metadata map, batch, on_log callback, JSON
# ------------------------------------------------------------------------------------------


def symbolic_metadata(S):
    """A KeyValueMetadata whose value under every framework key is absent or ANY byte string (decided lazily)."""
    vals = {}
    md = SObj(None, kind="KVMeta")

    def get(S, m, key, default=None):
        if key not in KEYTAG:
            raise Unsupported(f"metadata key {key!r} not in the contract's view")
        if key not in vals:
            present = S.choose(2) == 1
            S.inputs["has_" + KEYTAG[key]] = present
            vals[key] = S.bytes("md_" + KEYTAG[key]) if present else None
            if present:
                # for the native replay: does this path treat the value as decodable UTF-8 (the engine's validity predicate)?
                t = vals[key].t
                S.inputs["utf8_" + KEYTAG[key]] = SBool(z3.Or(z3.InRe(t, models.ASCII_RE), models.UTF8_OK(t)))
            if present and key == LOG_LEVEL_KEY and S.fork(eq(vals[key], b"EXCEPTION")):
                vals[key] = b"EXCEPTION"  # case split: the error level as a concrete value, every other value symbolic
        return vals[key] if vals[key] is not None else default

    S.handlers["KVMeta.get"] = get
    return md, vals


def concrete_metadata_model(S):
    """pa.KeyValueMetadata(dict) as the dict itself (bytes keys are concrete, values symbolic)."""

    def mk(S, d):
        return SObj(None, kind="KVDict", d=dict(d))

    def get(S, m, key, default=None):
        return m.fields["d"].get(key, default)

    S.handlers[pa.KeyValueMetadata] = mk
    S.handlers["KVDict.get"] = get


def install_on_log(S, may_raise=True):
    """on_log is user code (or None): it is handed the message and returns or raises.  The callback is an opaque
    nullable reference, so `on_log is not None` forks only where the code asks."""
    raised = {}
    cb = S.opaque("on_log", "OnLog?")
    S.inputs["with_on_log"] = Not(models.identical(cb, None))

    def call(S, f, msg):
        if S.fork(models.identical(f, None)):
            raise_(TypeError, "'NoneType' object is not callable")
        lvl, text, extra = msg.fields.get("level"), msg.fields.get("message"), msg.fields.get("extra")
        S.event("on_log", lvl, text, extra.snapshot() if isinstance(extra, SMap) else (dict(extra) if isinstance(extra, dict) else extra))
        if may_raise and S.choose(2) == 1:
            S.inputs["on_log_raises"] = True
            raised["exc"] = SExc(UserError, ("on_log failed",))
            raise PyRaise(raised["exc"])

    S.handlers["OnLog?.__call__"] = call
    return cb, raised


def install_level_lookup(S):
    """Enum lookup by contract (CPython Enum): Level(v) is the member whose value is v, else ValueError.  A member
    is identified by its value, so the looked-up member is the abstract record LevelMember(value=v)."""
    values = [m.value for m in Level]

    def lookup(S, v):
        if isinstance(v, Level):
            return v
        if not isinstance(v, (SStr, str)):
            raise_(ValueError, "not a valid Level")
        if S.fork(Or(*[eq(v, x) for x in values])):
            return SObj(None, kind="LevelMember", value=v)
        raise_(ValueError, "not a valid Level")

    S.handlers[Level] = lookup


def level_value(lv):
    return lv.value if isinstance(lv, Level) else lv.fields["value"]


def fresh_json_object(S, name, val_shape):
    """A JSON object: any set of str keys (unbounded), values of ``val_shape``; size==0 iff no key."""
    m = S.map(name, StrShape, val_shape)
    S.assume(ForAllStr(lambda k: Implies(m.has(k), SInt(m.size) > 0)))
    w = S.str(name + "_some_key")
    S.assume(Implies(SInt(m.size) > 0, m.has(w)))
    return m


JSON_KINDS = ["JSONDecodeError", "ValueError", "RecursionError", "null", "bool", "int", "float", "str", "list", "object"]


def install_any_json(S):
    """json.loads of peer-controlled text: any JSON value, or the exceptions CPython's decoder can raise."""
    st = {}

    def loads(S, s, *a, **k):
        kind = JSON_KINDS[S.choose(len(JSON_KINDS))]
        S.inputs["extra_kind"] = kind
        st["kind"] = kind
        if kind == "JSONDecodeError":
            raise_(json.JSONDecodeError, "Expecting value", "", 0)
        if kind == "ValueError":
            raise_(ValueError, "Exceeds the limit (4300 digits) for integer string conversion")
        if kind == "RecursionError":
            raise_(RecursionError, "maximum recursion depth exceeded while decoding a JSON array")
        if kind == "null":
            return None
        if kind == "bool":
            return S.bool("json_bool")
        if kind == "int":
            return S.int("json_int")
        if kind == "float":
            return S.float("json_float")
        if kind == "str":
            return S.str("json_str")
        if kind == "list":
            return S.list("json_list", JSON)
        m = fresh_json_object(S, "json_obj", JSON)
        st["obj"] = m.snapshot()
        for probe in ("self", "level", "message", "exception_type", "traceback", "error_kind") + RESERVED:
            S.inputs["obj_has_" + probe] = m.has(probe)
        return m

    S.handlers[json.loads] = loads

    # a value nested in the object is any JSON value: its run-time class is one of the JSON classes,
    # which one is an uninterpreted function of the value
    JSON_CLASSES = (type(None), bool, int, float, str, list, dict)
    tag = z3.Function("json_class_of", V_opaque_sort("Json"), z3.IntSort())

    def isinstance_json(S, v, cls):
        S.assume(And(SInt(tag(v.t)) >= 0, SInt(tag(v.t)) < len(JSON_CLASSES)))
        hits = [i for i, c in enumerate(JSON_CLASSES) if issubclass(c, cls)]
        return Or(*[SInt(tag(v.t)) == i for i in hits]) if hits else False

    S.handlers["Json.__isinstance__"] = isinstance_json
    return st


def extra_view(x, q):
    """(has(q), value(q)) of a delivered / emitted ``extra`` (None, concrete dict or symbolic map) at key term q."""
    if x is None:
        return SBool(z3.BoolVal(False)), SStr(z3.StringVal(""))
    if isinstance(x, SMap):
        return x.has(q), x.val(q)
    if isinstance(x, dict):
        has = Or(*[eq(q, k) for k in x]) if x else SBool(z3.BoolVal(False))
        val = SStr(z3.StringVal(""))
        for k, v in x.items():
            val = ite(eq(q, k), v if isinstance(v, (SStr, str)) else SStr(z3.StringVal("<non-str>")), val)
        return has, val
    raise Unsupported(f"extra of unexpected kind {x!r}")


def common_inline(S):
    S.inline.update({"Message", "Message.add_to_metadata", "encode_metadata", "RpcError"})
    S.handlers["_record_output"] = lambda S, *a, **k: None
    S.handlers["empty_batch"] = lambda S, schema: SObj(None, kind="Batch", num_rows=0, schema=schema)


# ------------------------------------------------------------------------------------------
# native helpers for replay
# ------------------------------------------------------------------------------------------


def _zero_row_batch():
    from vgi_rpc.utils import empty_batch

    return empty_batch(pa.schema([]))


def native_extra_text(inputs):
    kind = inputs.get("extra_kind")
    if kind == "JSONDecodeError":
        return b"not json"
    if kind == "ValueError":
        return b'{"a":' + b"9" * 5000 + b"}"
    if kind == "RecursionError":
        return b"[" * 100000
    if kind in (None, "object"):
        obj = {k[len("obj_has_") :]: "v" for k, v in inputs.items() if k.startswith("obj_has_") and v is True}
        obj["k"] = {"nested": [1, None]}
        return json.dumps(obj).encode()
    return {"null": b"null", "bool": b"true", "int": b"7", "float": b"1.5", "str": b'"text"', "list": b"[1, 2]"}[kind]


VALID_STANDIN = {"level": b"lvl\xc3\xa9", "message": b"msg\xc3\xa9", "request_id": b"rid\xc3\xa9", "server_id": b"sid\xc3\xa9", "error_kind": b"kind\xc3\xa9"}


def native_md(inputs):
    """The model's metadata as real bytes.  UTF-8 validity is an uninterpreted predicate in the proof, so the model's
    bytes are replaced by a stand-in of the validity the refuted path assumed (valid: a non-ASCII UTF-8 string /
    the JSON text of the decoded kind; invalid: 0xff)."""
    md = {}
    for key, tag in KEYTAG.items():
        if inputs.get("has_" + tag):
            v = inputs.get("md_" + tag, b"")
            valid = inputs.get("utf8_" + tag)
            if tag == "extra":
                if valid is False:
                    v = b"\xff"
                elif inputs.get("extra_kind") is not None or not _is_utf8(v):
                    v = native_extra_text(inputs)
            elif valid is True and not _is_utf8(v):
                v = VALID_STANDIN[tag]
            elif valid is False and _is_utf8(v):
                v = b"\xff"
            md[key] = v
    return md


def _is_utf8(b):
    try:
        b.decode()
        return True
    except UnicodeDecodeError:
        return False


def replay_dispatch(inputs, ob):
    """Call the real _dispatch_log_or_error with a real zero-row batch and the model's metadata."""
    rows = inputs.get("rows", 0)
    if rows:
        return ReplayResult(False, "non-zero-row batch: not a log batch")
    md = native_md(inputs)
    got = []
    boom = UserError("on_log failed")

    def on_log(m):
        got.append(m)
        if inputs.get("on_log_raises"):
            raise boom

    use_cb = inputs.get("with_on_log", True)
    try:
        r = wire._dispatch_log_or_error(_zero_row_batch(), pa.KeyValueMetadata(md), on_log if use_cb else None)
    except RpcError as e:
        ok = md.get(LOG_LEVEL_KEY) == b"EXCEPTION"
        return ReplayResult(not ok, f"metadata {md!r}: RpcError({e.error_type!r}) " + ("as required for EXCEPTION" if ok else "for a non-EXCEPTION batch"))
    except UserError as e:
        return ReplayResult(e is not boom, "on_log's own exception propagated")
    except BaseException as e:
        return ReplayResult(True, f"_dispatch_log_or_error(zero-row batch, {_short(md)!r}) raised {type(e).__name__}: {str(e)[:120]}")
    is_log = LOG_LEVEL_KEY in md and LOG_MESSAGE_KEY in md
    problems = []
    if is_log and md[LOG_LEVEL_KEY] == b"EXCEPTION":
        problems.append("EXCEPTION-level batch did not raise RpcError")
    if is_log and r is not True:
        problems.append(f"log batch returned {r!r} (handed back as data)")
    if not is_log and (r is not False or got):
        problems.append("batch without log keys treated as a log message")
    if len(got) > 1:
        problems.append(f"on_log called {len(got)} times")
    return ReplayResult(bool(problems), f"metadata {_short(md)!r} -> {r!r}, delivered {got!r}; " + "; ".join(problems))


def _short(md):
    return {k: (v if len(v) <= 60 else v[:40] + b"...<%d bytes>" % len(v)) for k, v in md.items()}


def search_dispatch(ob, seed):
    """Native hunt over the witness classes of DESIGN §6 plus the ones found while building this contract."""
    base = {"has_level": True, "md_level": b"INFO", "has_message": True, "md_message": b"m", "with_on_log": True}
    cands = []
    for key in ("self", "level", "message"):
        cands.append({**base, "has_extra": True, "md_extra": b"{}", "extra_kind": "object", "obj_has_" + key: True})
    for kind in JSON_KINDS:
        cands.append({**base, "has_extra": True, "md_extra": b"{}", "extra_kind": kind})
        cands.append({**base, "md_level": b"EXCEPTION", "has_extra": True, "md_extra": b"{}", "extra_kind": kind})
    for tag in ("level", "message", "extra", "request_id", "server_id", "error_kind"):
        cands.append({**base, "has_" + tag: True, "md_" + tag: b"\xff"})
        cands.append({**base, "md_level": b"EXCEPTION", "has_" + tag: True, "md_" + tag: b"\xff"} if tag != "level" else {**base, "md_level": b"\xff"})
    cands.append({**base, "md_level": b"NOTALEVEL"})
    cands.append({**base, "md_level": b"EXCEPTION"})
    cands.append({**base, "md_level": b"EXCEPTION", "with_on_log": False})
    cands.append(dict(base))
    for c in cands:
        rr = replay_dispatch(c, ob)
        if rr.confirmed:
            return c, rr
    return None


# ------------------------------------------------------------------------------------------
# C08.O5  robustness: any metadata on a zero-row batch
# ------------------------------------------------------------------------------------------


@unit(
    "C08.O5 _dispatch_log_or_error tolerates any peer metadata",
    targets=["vgi_rpc/rpc/_wire.py::_dispatch_log_or_error", "vgi_rpc/log.py::Message.__init__"],
    replay=replay_dispatch,
    search=search_dispatch,
    min_obligations=200,
    max_paths=60000,
)
def dispatch_robust(S):
    S.prune_lia = True  # feasibility pruning on the arithmetic/boolean skeleton only (string atoms opaque): weaker, never drops a path
    common_inline(S)
    md, vals = symbolic_metadata(S)
    js = install_any_json(S)
    install_level_lookup(S)
    on_log, raised = install_on_log(S)
    rows = S.int("rows")
    S.assume(rows >= 0)
    batch = SObj(None, kind="Batch", num_rows=rows)
    out = S.outcome(wire._dispatch_log_or_error, batch, md, on_log)
    calls = S.events("on_log")
    level, message = vals.get(LOG_LEVEL_KEY), vals.get(LOG_MESSAGE_KEY)
    is_log = level is not None and message is not None  # both keys present (and the batch has zero rows on this path)
    zero = rows == 0
    is_exc_level = eq(level, b"EXCEPTION") if level is not None else SBool(z3.BoolVal(False))
    S.oblige("O5.on_log_called_at_most_once", len(calls) <= 1, kind="trace")
    if out.raised:
        cls = exc_class(out.exc)
        wit = f"{cls.__name__} at {getattr(out.exc, 'site', '')[:110]}"
        own = raised.get("exc") is not None and out.exc is raised["exc"]
        S.oblige("O5.peer_metadata_never_fails_the_call", own or issubclass(cls, RpcError), kind="raises", witness=wit)
        if issubclass(cls, RpcError):
            S.oblige("O5.RpcError_only_for_EXCEPTION_level", And(zero, is_exc_level) if is_log else False, kind="raises", witness=wit)
            S.oblige("O5.error_batch_is_not_also_logged", len(calls) == 0, kind="trace")
        return
    r = out.value
    S.oblige("O5.returns_bool", isinstance(r, bool), kind="post")
    if is_log:
        S.oblige("O5.EXCEPTION_level_always_raises_RpcError", Not(And(zero, is_exc_level)), kind="raises", witness="EXCEPTION batch swallowed")
        S.oblige("O5.zero_row_log_batch_is_consumed", Implies(zero, r is True), witness="log batch handed back as data")
        S.oblige("O5.batch_with_rows_is_data", Implies(Not(zero), r is False and not calls))
    else:
        S.oblige("O5.batch_without_log_keys_is_data", r is False and not calls, kind="trace")
    if not is_log and vals.get(LOG_LEVEL_KEY) is None:
        # stated where the path condition holds no string constraint (the solver must find a model under load)
        S.canary("O5.canary.every_zero_row_batch_is_a_log_batch", Implies(zero, r is True))


# ------------------------------------------------------------------------------------------
# C08.O4  round trip of one message: add_to_metadata -> identity wire -> _dispatch_log_or_error
# ------------------------------------------------------------------------------------------

LOG_LEVELS = [m for m in Level if m is not Level.EXCEPTION]


def install_json_pair(S):
    """json.dumps / json.loads as an inverse pair on the one string-valued object of the round trip;
    any other text decodes to any JSON value (install_any_json)."""
    fallback = S.handlers[json.loads]
    st = {}

    def dumps(S, obj, *a, **k):
        if not isinstance(obj, SMap) or "text" in st:
            raise Unsupported("json.dumps: the contract models one dump of a symbolic string map")
        st["text"] = S.str("dumped_extra")
        st["obj"] = obj.snapshot()
        return st["text"]

    def loads(S, s, *a, **k):
        if "text" in st:
            # prove-then-use: the text handed to the decoder is the text the encoder produced
            S.lemma("O4.extra_text_received_is_the_text_sent", eq(s, st["text"]))
            return st["obj"].snapshot()  # a new dict with the same items
        return fallback(S, s, *a, **k)

    S.handlers[json.dumps] = dumps
    S.handlers[json.loads] = loads
    return st


def install_writer(S):
    w = SObj(None, kind="IpcWriter")

    def write_batch(S, w_, batch, custom_metadata=None):
        S.event("write_batch", w_, batch, custom_metadata)

    S.handlers["IpcWriter.write_batch"] = write_batch
    return w


def set_request_id(S, rid):
    S.interp.models.call_concrete_method(S.interp, _current_request_id, "set", None, [rid], {})


def replay_round_trip(inputs, ob):
    """Real Message -> real _write_message_batch -> real Arrow IPC stream -> real _dispatch_log_or_error."""
    import io

    lv = Level(inputs["level"])
    extra = {}
    if inputs.get("has_extra"):
        for k in ("self", "level", "message"):
            if inputs.get("extra_has_" + k):
                extra[k] = "collides"
        if inputs.get("probe_present"):
            extra[inputs["probe_key"]] = inputs.get("probe_value", "")
        if not extra:
            extra["k"] = "v"
    m = Message(lv, inputs["text"])
    m.extra = dict(extra) or None
    schema = pa.schema([pa.field("x", pa.int64())])
    buf = io.BytesIO()
    tok = _current_request_id.set(inputs.get("request_id", "") if inputs.get("has_request_id") else "")
    try:
        with pa.ipc.new_stream(buf, schema) as w:
            wire._write_message_batch(w, schema, m, server_id=inputs.get("server_id") if inputs.get("has_server_id") else None)
    except Exception as e:
        return ReplayResult(False, f"emission itself failed natively ({type(e).__name__}: {e}) - not a delivery defect")
    finally:
        _current_request_id.reset(tok)
    r = pa.ipc.open_stream(buf.getvalue())
    batch, cm = r.read_next_batch_with_custom_metadata()
    got = []
    try:
        res = wire._dispatch_log_or_error(batch, cm, got.append)
    except BaseException as e:
        return ReplayResult(True, f"emitted {m!r}: the client raised {type(e).__name__}: {e}")
    problems = []
    if res is not True or len(got) != 1:
        problems.append(f"returned {res!r} with {len(got)} on_log calls")
    else:
        d = got[0]
        if d.level != m.level or d.message != m.message:
            problems.append(f"level/text changed: {d.level!r} {d.message!r}")
        de = {k: v for k, v in (d.extra or {}).items() if k not in RESERVED}
        ee = {k: v for k, v in (m.extra or {}).items() if k not in RESERVED}
        if de != ee:
            problems.append(f"extras changed: emitted {ee!r} delivered {de!r}")
    return ReplayResult(bool(problems), f"emitted {m!r} -> delivered {got!r}; " + "; ".join(problems))


def search_round_trip(ob, seed):
    for colliding in ("level", "message", "self", None):
        for lv in LOG_LEVELS:
            c = {"level": lv.value, "text": "héllo\nworld", "has_extra": True, "probe_present": True, "probe_key": "k", "probe_value": "v", "has_server_id": True, "server_id": "srv", "has_request_id": True, "request_id": "r1"}
            if colliding:
                c["extra_has_" + colliding] = True
            rr = replay_round_trip(c, ob)
            if rr.confirmed:
                return c, rr
    # extras named like the framework's own metadata fields (a hoisted or renamed field must still arrive as an extra)
    for key in ("error_kind", "traceback", "exception_type", "exception_message", "pid", "extra", "log_extra", ERROR_KIND_KEY, LOG_EXTRA_KEY, LOG_LEVEL_KEY):
        for lv in LOG_LEVELS:
            for val in ("v", ""):
                c = {"level": lv.value, "text": "t", "has_extra": True, "probe_present": True, "probe_key": key, "probe_value": val}
                rr = replay_round_trip(c, ob)
                if rr.confirmed:
                    return c, rr
    for c in ({"level": "INFO", "text": ""}, {"level": "TRACE", "text": "x" * 100000, "has_extra": True}):
        rr = replay_round_trip(c, ob)
        if rr.confirmed:
            return c, rr
    return None


@unit(
    "C08.O4 one emitted message arrives unchanged (add_to_metadata -> wire -> _dispatch_log_or_error)",
    targets=["vgi_rpc/log.py::Message.add_to_metadata", "vgi_rpc/rpc/_wire.py::_write_message_batch", "vgi_rpc/rpc/_wire.py::_dispatch_log_or_error", "vgi_rpc/metadata.py::encode_metadata"],
    replay=replay_round_trip,
    search=search_round_trip,
    min_obligations=60,
    max_paths=20000,
)
def round_trip(S):
    S.prune_lia = True
    common_inline(S)
    concrete_metadata_model(S)
    install_level_lookup(S)
    install_any_json(S)
    install_json_pair(S)
    # a callback that returns; "no callback" and "callback raises" are explored in O5 (at most one call, its exception propagates)
    on_log, raised = install_on_log(S, may_raise=False)
    S.assume(Not(models.identical(on_log, None)))
    writer = install_writer(S)
    schema = SObj(None, kind="Schema")
    # the emitted level: any member but EXCEPTION (an error, C07), identified by its value
    lv_value = S.str("level")
    S.assume(Or(*[eq(lv_value, m.value) for m in LOG_LEVELS]))
    lv = SObj(None, kind="LevelMember", value=lv_value)
    text = S.str("text")
    has_extra = S.choose(2) == 1
    S.inputs["has_extra"] = has_extra
    extra = None
    if has_extra:
        extra = fresh_json_object(S, "extra", StrShape)
        S.assume(SInt(extra.size) > 0)  # Message keeps `kwargs or None`: an extra map is never empty
        for k in ("self", "level", "message"):
            S.inputs["extra_has_" + k] = extra.has(k)
    emitted = SObj(Message, level=lv, message=text, extra=extra)
    E = extra.snapshot() if extra is not None else None
    has_sid = S.choose(2) == 1
    S.inputs["has_server_id"] = has_sid
    sid = S.str("server_id") if has_sid else None
    rid = S.str("request_id")  # the call's request id: any string, "" when the transport set none
    S.inputs["has_request_id"] = True
    set_request_id(S, rid)
    q = S.str("probe_key")  # an arbitrary key: what is proved for q holds for every key
    e_has, e_val = extra_view(E, q)
    S.inputs["probe_present"], S.inputs["probe_value"] = e_has, e_val

    if not has_extra and not has_sid:
        # stated before the wire's string axioms enter the path condition (the solver must find a model under load)
        S.canary("O4.canary.every_level_is_INFO", eq(lv_value, "INFO"))
        S.canary("O4.canary.request_id_always_set", rid.length() > 0)
    out1 = S.outcome(wire._write_message_batch, writer, schema, emitted, server_id=sid)
    S.oblige("O4.emission_raises_nothing", out1.returned, kind="raises", witness=(exc_class(out1.exc).__name__ if out1.raised else ""))
    writes = S.events("write_batch")
    S.oblige("O4.one_message_is_one_batch_on_the_sinks_writer", len(writes) == 1 and writes[0][1] is writer, kind="trace")
    if not out1.returned or len(writes) != 1:
        return
    _, _, batch, cm = writes[0]
    S.oblige("O4.log_batch_has_zero_rows_and_metadata", isinstance(batch, SObj) and batch.fields.get("num_rows") == 0 and cm is not None, kind="post")
    # identity wire: the reader hands the client the same (batch, metadata)
    out2 = S.outcome(wire._dispatch_log_or_error, batch, cm, on_log)
    calls = S.events("on_log")
    if out2.raised:
        own = raised.get("exc") is not None and out2.exc is raised["exc"]
        S.oblige("O4.delivery_never_fails_the_call", own, kind="raises", witness=f"{exc_class(out2.exc).__name__} at {getattr(out2.exc, 'site', '')[:110]}")
        if not own:
            return
    else:
        S.oblige("O4.log_batch_is_consumed", out2.value is True, kind="post")
    cb_given = Not(models.identical(on_log, None))
    S.oblige("O4.delivered_exactly_once", Implies(cb_given, len(calls) == 1) if len(calls) <= 1 else False, kind="trace")
    for _, d_level, d_text, d_extra in calls:
        S.oblige("O4.level_preserved", eq(level_value(d_level), lv_value))
        S.oblige("O4.text_preserved", eq(d_text, text))
        d_has, d_val = extra_view(d_extra, q)
        not_reserved = And(*[Not(eq(q, r)) for r in RESERVED])
        S.oblige("O4.extra_keys_preserved", Implies(not_reserved, Iff(d_has, e_has)))
        S.oblige("O4.extra_values_preserved", Implies(And(not_reserved, e_has), eq(d_val, e_val)))


# ------------------------------------------------------------------------------------------
# C08.O1  _ClientLogSink: written ++ buffer == emitted, through __call__ / flush_contents / reset
# ------------------------------------------------------------------------------------------
#
# State of a sink: its buffer B (list of messages) and the ghost sequence W of messages handed to
# _write_message_batch so far (in order).  The emitted sequence is E = W ++ B by definition; every
# operation is shown to change W ++ B exactly as the property says (a call appends the message, flush and
# reset change nothing), so W ++ B == E is an invariant of every sequence of operations.  Class invariant
# I2 (needed for order in direct mode): writer and schema are set together, and then the buffer is empty.


def cat_len(W, B):
    return SInt(W.length) + SInt(B.length)


def cat_get(W, B, j):
    return ite(j < SInt(W.length), W.get(j), B.get(j - SInt(W.length)))


def same_seq(A1, A0):
    n = SInt(A0.length)
    return And(SInt(A1.length) == n, ForAllInt(lambda j: Implies(And(j >= 0, j < n), eq(A1.get(j), A0.get(j)))))


def cat_same(W1, B1, W0, B0):
    n = cat_len(W0, B0)
    return And(cat_len(W1, B1) == n, ForAllInt(lambda j: Implies(And(j >= 0, j < n), eq(cat_get(W1, B1, j), cat_get(W0, B0, j)))))


def cat_appended(W1, B1, W0, B0, msg):
    n = cat_len(W0, B0)
    return And(
        cat_len(W1, B1) == n + 1,
        ForAllInt(lambda j: Implies(And(j >= 0, j < n), eq(cat_get(W1, B1, j), cat_get(W0, B0, j)))),
        eq(cat_get(W1, B1, n), msg),
    )


def mk_sink(S, direct):
    """A sink in buffer mode (no writer) or direct mode (writer+schema set, buffer empty: I2), with any history."""
    B = S.list("buffer", MSG)
    W = S.list("written", MSG)
    S.ghost["written"] = W
    sid = S.opaque("sink_server_id", "ServerId?")
    writer = SObj(None, kind="IpcWriter", tag="w0") if direct else None
    schema = SObj(None, kind="Schema", tag="s0") if direct else None
    if direct:
        S.assume(SInt(B.length) == 0)
    # a pyarrow Schema is a sized object: its truth value is "has at least one field", and a response schema may have
    # none (a method returning None, a stream with an empty output schema)
    n_fields = S.int("schema_field_count")
    S.assume(n_fields >= 0)
    S.handlers["Schema.__len__"] = lambda S, sch: n_fields
    me = SObj(wire._ClientLogSink, _buffer=B, _writer=writer, _schema=schema, _server_id=sid)

    def write_message_batch(S, w, sch, msg, server_id=None):
        # by contract (its metadata is O4's subject): one log batch for msg on writer w
        S.oblige("O1.writes_go_to_the_sinks_current_writer", w is me.fields["_writer"] and sch is me.fields["_schema"] and w is not None, kind="pre")
        S.oblige("O1.writes_carry_the_sinks_server_id", server_id is sid, kind="pre")
        S.ghost["written"].append(msg)

    S.handlers["_write_message_batch"] = write_message_batch
    return me, B, W.snapshot(), B.snapshot()


def i2(me):
    w, sch, B = me.fields["_writer"], me.fields["_schema"], me.fields["_buffer"]
    both = (w is None) == (sch is None)
    return And(both, SInt(B.length) == 0) if w is not None else SBool(z3.BoolVal(both))


def _native_sink_run(ops):
    """Run ops on a real _ClientLogSink; _write_message_batch is replaced by a recorder (it is the by-contract
    callee of this unit).  Returns a problem description or ''."""
    from unittest import mock

    written = []
    sink = wire._ClientLogSink(server_id="srv")
    emitted = []
    with mock.patch.object(wire, "_write_message_batch", lambda w, s, m, server_id=None: written.append((w, m))):
        for i, op in enumerate(ops):
            if op == "call":
                m = Message.info(f"m{i}")
                emitted.append(m)
                sink(m)
            elif op in ("flush", "flush_empty_schema"):
                import pyarrow as _pa

                sink.flush_contents(f"writer{i}", _pa.schema([]) if op == "flush_empty_schema" else _pa.schema([("x", _pa.int64())]))
            else:
                sink.reset()
            got = [m for _, m in written] + list(sink._buffer)
            if [id(x) for x in got] != [id(x) for x in emitted]:
                return f"after {ops[: i + 1]}: written ++ buffer = {[x.message for x in got]} but emitted = {[x.message for x in emitted]}"
            if sink._writer is not None and sink._buffer:
                return f"after {ops[: i + 1]}: direct mode with a non-empty buffer"
    return ""


def search_sink(ob, seed):
    import itertools

    for n in range(1, 5):
        for ops in itertools.product(("call", "flush", "flush_empty_schema", "reset"), repeat=n):
            p = _native_sink_run(list(ops))
            if p:
                return {"ops": list(ops)}, ReplayResult(True, p)
    return None


def replay_sink(inputs, ob):
    if "ops" in inputs:
        p = _native_sink_run(inputs["ops"])
        return ReplayResult(bool(p), p or "sequence holds natively")
    found = search_sink(ob, 0)
    return found[1] if found else ReplayResult(False, "no failing operation sequence of length <= 5 natively")


@unit("C08.O1a _ClientLogSink.__call__ appends the message to written ++ buffer", targets=["vgi_rpc/rpc/_wire.py::_ClientLogSink.__call__"], replay=replay_sink, search=search_sink, min_obligations=6)
def sink_call(S):
    direct = S.choose(2) == 1
    me, B, W0, B0 = mk_sink(S, direct)
    msg = S.opaque("msg", "Msg")
    out = S.outcome(wire._ClientLogSink.__call__, me, msg)
    S.oblige("O1a.raises_nothing", out.returned, kind="raises")
    W1, B1 = S.ghost["written"], me.fields["_buffer"]
    S.oblige("O1a.emitted_sequence_grows_by_exactly_this_message", cat_appended(W1, B1, W0, B0, msg))
    S.oblige("O1a.invariant_I2_kept", i2(me))
    S.oblige("O1a.mode_unchanged", (me.fields["_writer"] is not None) == direct, kind="post")
    if direct:
        S.oblige("O1a.direct_mode_writes_now", SInt(W1.length) == SInt(W0.length) + 1)
    S.canary("O1a.canary.nothing_recorded", cat_same(W1, B1, W0, B0))


@unit("C08.O1b _ClientLogSink.flush_contents writes the buffer in order and empties it", targets=["vgi_rpc/rpc/_wire.py::_ClientLogSink.flush_contents"], replay=replay_sink, search=search_sink, min_obligations=8)
def sink_flush(S):
    direct = S.choose(2) == 1
    me, B, W0, B0 = mk_sink(S, direct)
    writer, schema = SObj(None, kind="IpcWriter", tag="w1"), SObj(None, kind="Schema", tag="s1")

    def inv(L):
        W = S.ghost["written"]
        n0 = SInt(W0.length)
        return [
            ("written_is_history_plus_flushed_prefix", And(SInt(W.length) == n0 + L.idx, ForAllInt(lambda j: Implies(And(j >= 0, j < n0), eq(W.get(j), W0.get(j)))), ForAllInt(lambda j: Implies(And(j >= 0, j < L.idx), eq(W.get(n0 + j), B0.get(j)))))),
            ("buffer_untouched", same_seq(L.self.fields["_buffer"], B0)),
            ("switched_to_the_new_writer", L.self.fields["_writer"] is writer and L.self.fields["_schema"] is schema),
        ]

    S.invariants[("_ClientLogSink.flush_contents", 0)] = inv
    S.loop_ghost[("_ClientLogSink.flush_contents", 0)] = ["written"]
    out = S.outcome(wire._ClientLogSink.flush_contents, me, writer, schema)
    S.oblige("O1b.raises_nothing", out.returned, kind="raises")
    W1, B1 = S.ghost["written"], me.fields["_buffer"]
    S.oblige("O1b.emitted_sequence_unchanged", cat_same(W1, B1, W0, B0))
    S.oblige("O1b.buffer_emptied", SInt(B1.length) == 0)
    S.oblige("O1b.everything_buffered_is_now_written", SInt(W1.length) == SInt(W0.length) + SInt(B0.length))
    S.oblige("O1b.direct_mode_on_the_given_writer", me.fields["_writer"] is writer and me.fields["_schema"] is schema, kind="post")
    S.oblige("O1b.invariant_I2_established", i2(me))
    S.canary("O1b.canary.nothing_written", SInt(W1.length) == SInt(W0.length))


@unit("C08.O1c _ClientLogSink.reset returns to buffering and loses nothing", targets=["vgi_rpc/rpc/_wire.py::_ClientLogSink.reset"], replay=replay_sink, search=search_sink, min_obligations=4)
def sink_reset(S):
    direct = S.choose(2) == 1
    me, B, W0, B0 = mk_sink(S, direct)
    out = S.outcome(wire._ClientLogSink.reset, me)
    S.oblige("O1c.raises_nothing", out.returned, kind="raises")
    W1, B1 = S.ghost["written"], me.fields["_buffer"]
    S.oblige("O1c.emitted_sequence_unchanged", cat_same(W1, B1, W0, B0))
    S.oblige("O1c.buffer_mode", me.fields["_writer"] is None and me.fields["_schema"] is None, kind="post")
    S.oblige("O1c.invariant_I2_kept", i2(me))
    S.canary("O1c.canary.buffer_is_empty", SInt(B1.length) == 0)


@unit("C08.O1d a new sink starts empty in buffer mode", targets=["vgi_rpc/rpc/_wire.py::_ClientLogSink.__init__"], min_obligations=2)
def sink_init(S):
    me = SObj(wire._ClientLogSink)
    out = S.outcome(wire._ClientLogSink.__init__, me, server_id=S.opaque("sid", "ServerId?"))
    S.oblige("O1d.raises_nothing", out.returned, kind="raises")
    if out.returned:
        S.oblige("O1d.starts_empty_in_buffer_mode", me.fields["_buffer"] == [] and me.fields["_writer"] is None and me.fields["_schema"] is None, kind="post")
    S.canary("O1d.canary.starts_with_a_writer", SBool(z3.BoolVal(me.fields.get("_writer") is not None)))


# ------------------------------------------------------------------------------------------
# C08.O2  OutputCollector + _flush_collector (inline arm): emission order is wire order
# ------------------------------------------------------------------------------------------
#
# View: a batch is an opaque reference (BatchRef); metadata an opaque nullable value (KV?).  The metadata
# of a log batch is md_of(msg, server_id) (what it contains is O4's subject).  The collector's list
# `_batches` is a symbolic-length list of AnnotatedBatch records.

BATCHREF = OpaqueShape("BatchRef")
KV = OpaqueShape("KV?")
AB = RecShape("AnnotatedBatch", batch=BATCHREF, custom_metadata=KV)
MD_OF = z3.Function("log_metadata_of", opaque_sort("Msg"), opaque_sort("ServerId?"), opaque_sort("KV?"))
ROWS = z3.Function("num_rows_of", opaque_sort("BatchRef"), z3.IntSort())


def is_none(x):
    return models.identical(x, None)


def cm_agree(a, b):
    """Two nullable metadata values denote the same thing: both None, or equal."""
    return Or(And(is_none(a), is_none(b)), And(Not(is_none(a)), Not(is_none(b)), eq(a, b)))


def install_collector_world(S, sid):
    none_kv = S.opaque("no_metadata", "KV?")
    S.assume(is_none(none_kv))

    def annotated(S, batch=None, custom_metadata=None, _release_fn=None):
        ref = batch.fields["ref"] if isinstance(batch, SObj) else batch
        return SObj(None, kind="AnnotatedBatch", batch=ref, custom_metadata=custom_metadata if custom_metadata is not None else none_kv)

    def empty_batch(S, schema):
        b = S.opaque("empty_batch", "BatchRef")
        S.assume(SInt(ROWS(b.t)) == 0)
        return b

    def add_to_metadata(S, msg, metadata=None):
        return {"__msg__": msg}

    def encode_metadata(S, md):
        if "__msg__" not in md:
            raise Unsupported("encode_metadata of something that is not a log message's metadata")
        has_sid = SERVER_ID_KEY.decode() in md
        S.event("log_metadata_built", md["__msg__"], md.get(SERVER_ID_KEY.decode()))
        kv = SOpaque(MD_OF(md["__msg__"].t, sid.t), "KV?")
        S.assume(Not(is_none(kv)))
        S.oblige("O2.log_batches_carry_the_collectors_server_id", Iff(SBool(z3.BoolVal(has_sid)), Not(is_none(sid))), kind="pre")
        return kv

    S.handlers[rtypes.AnnotatedBatch] = annotated
    S.handlers["empty_batch"] = empty_batch
    S.handlers["Msg.add_to_metadata"] = add_to_metadata  # the message is an opaque value here; its metadata is O4's subject
    S.handlers["encode_metadata"] = encode_metadata
    S.handlers["_record_output"] = lambda S, *a, **k: None
    return none_kv


def mk_collector(S, with_data):
    sid = S.opaque("collector_server_id", "ServerId?")
    none_kv = install_collector_world(S, sid)
    L0 = S.list("batches", AB)
    schema = SObj(None, kind="Schema", tag="out", names=["a"])
    idx = None
    if with_data:
        idx = S.int("data_batch_idx")
        S.assume(And(idx >= 0, idx < SInt(L0.length)))
    # _server_id is None or a string; the view keeps only which one (an opaque nullable value)
    me = SObj(rtypes.OutputCollector, _batches=L0, _output_schema=schema, _server_id=sid, _data_batch_idx=idx, _finished=False, _producer_mode=True)
    return me, L0, L0.snapshot(), sid, schema, none_kv


def appended(L1, L0, elem_ok):
    n = SInt(L0.length)
    return And(
        SInt(L1.length) == n + 1,
        ForAllInt(lambda j: Implies(And(j >= 0, j < n), And(eq(L1.get(j).fields["batch"], L0.get(j).fields["batch"]), cm_agree(L1.get(j).fields["custom_metadata"], L0.get(j).fields["custom_metadata"])))),
        elem_ok(L1.get(n)),
    )


def _native_collector_scenarios():
    """Real OutputCollector + real _flush_collector + real Arrow IPC stream: logs and the data batch must be
    read back in emission order."""
    import io
    import itertools

    schema = pa.schema([pa.field("a", pa.int64())])
    for n_before, n_after in itertools.product(range(3), range(3)):
        out = rtypes.OutputCollector(schema, server_id="srv")
        want = []
        for i in range(n_before):
            out.client_log(Level.INFO, f"before{i}", k=str(i))
            want.append(f"before{i}")
        out.emit_pydict({"a": [1, 2]})
        want.append("<data>")
        for i in range(n_after):
            out.emit_client_log_message(Message.warn(f"after{i}"))
            want.append(f"after{i}")
        buf = io.BytesIO()
        with pa.ipc.new_stream(buf, schema) as w:
            wire._flush_collector(w, out)
        r = pa.ipc.open_stream(buf.getvalue())
        got = []
        while True:
            try:
                b, cm = r.read_next_batch_with_custom_metadata()
            except StopIteration:
                break
            got.append("<data>" if b.num_rows else (cm.get(LOG_MESSAGE_KEY) or b"?").decode())
        if got != want:
            return f"emitted {want} but the wire carries {got}"
        if out.data_batch.batch.num_rows != 2:
            return "data_batch no longer designates the data batch"
    return ""


def replay_collector(inputs, ob):
    p = _native_collector_scenarios()
    return ReplayResult(bool(p), p or "emission order kept natively (0-2 logs before / after the data batch)")


def search_collector(ob, seed):
    rr = replay_collector({}, ob)
    return ({}, rr) if rr.confirmed else None


@unit("C08.O2a OutputCollector.emit_client_log_message appends one log batch, nothing else moves", targets=["vgi_rpc/rpc/_types.py::OutputCollector.emit_client_log_message", "vgi_rpc/rpc/_types.py::OutputCollector.client_log"], replay=replay_collector, search=search_collector, min_obligations=8)
def collector_log(S):
    with_data = S.choose(2) == 1
    me, L, L0, sid, schema, none_kv = mk_collector(S, with_data)
    idx0 = me.fields["_data_batch_idx"]
    via_client_log = S.choose(2) == 1
    msg = S.opaque("msg", "Msg")
    S.inline.add("OutputCollector.emit_client_log_message")
    if via_client_log:
        # client_log(level, message, **extra) builds the Message and delegates
        S.handlers[Message] = lambda S, level, message, **extra: msg
        out = S.outcome(rtypes.OutputCollector.client_log, me, Level.INFO, S.str("text"))
    else:
        out = S.outcome(rtypes.OutputCollector.emit_client_log_message, me, msg)
    S.oblige("O2a.raises_nothing", out.returned, kind="raises")
    L1 = me.fields["_batches"]
    S.oblige("O2a.same_list_object", L1 is L, kind="post")
    S.oblige(
        "O2a.log_batch_appended_after_everything_emitted_so_far",
        appended(L1, L0, lambda e: And(SInt(ROWS(e.fields["batch"].t)) == 0, eq(e.fields["custom_metadata"], SOpaque(MD_OF(msg.t, sid.t), "KV?")), Not(is_none(e.fields["custom_metadata"])))),
    )
    S.oblige("O2a.data_batch_designation_untouched", me.fields["_data_batch_idx"] is idx0, kind="post")
    built = S.events("log_metadata_built")
    S.oblige("O2a.metadata_built_from_this_message", len(built) == 1 and built[0][1] is msg, kind="trace")
    S.canary("O2a.canary.list_unchanged", SInt(L1.length) == SInt(L0.length))


@unit("C08.O2b OutputCollector.emit appends the data batch after the logs emitted so far", targets=["vgi_rpc/rpc/_types.py::OutputCollector.emit"], replay=replay_collector, search=search_collector, min_obligations=6)
def collector_emit(S):
    with_data = S.choose(2) == 1
    me, L, L0, sid, schema, none_kv = mk_collector(S, with_data)
    same_schema = S.choose(2) == 1
    ref = S.opaque("data_batch", "BatchRef")
    bschema = schema if same_schema else SObj(None, kind="Schema", tag="other", names=(["a"] if S.choose(2) == 1 else ["a", "b"]))
    S.handlers["Schema.__eq__"] = lambda S, a, b: a is b
    batch = SObj(None, kind="Batch", schema=bschema, ref=ref)
    final = {"ref": ref}

    def select(S, b, names):
        if S.choose(2) == 1:
            raise_(KeyError, "missing column")
        r = S.opaque("selected", "BatchRef")
        final["ref"] = r
        return SObj(None, kind="Batch", schema=(schema if S.choose(2) == 1 else SObj(None, kind="Schema", tag="sel", names=["a"])), ref=r)

    def cast(S, b, target):
        r = S.opaque("cast", "BatchRef")
        final["ref"] = r
        return SObj(None, kind="Batch", schema=target, ref=r)

    S.handlers["Batch.select"] = select
    S.handlers["Batch.cast"] = cast
    out = S.outcome(rtypes.OutputCollector.emit, me, batch)
    L1 = me.fields["_batches"]
    if out.raised:
        S.oblige("O2b.raises_only_on_second_data_batch_or_missing_column", exc_is(out.exc, RuntimeError, ValueError), kind="raises")
        S.oblige("O2b.failed_emit_leaves_the_collector", And(SInt(L1.length) == SInt(L0.length), SBool(z3.BoolVal(me.fields["_data_batch_idx"] is (L0 and me.fields["_data_batch_idx"])))))
        if exc_is(out.exc, RuntimeError):
            S.oblige("O2b.RuntimeError_only_for_a_second_data_batch", with_data, kind="raises")
        return
    S.oblige("O2b.one_data_batch_per_call", not with_data, kind="post")
    S.oblige("O2b.data_batch_appended_after_everything_emitted_so_far", appended(L1, L0, lambda e: And(eq(e.fields["batch"], final["ref"]), is_none(e.fields["custom_metadata"]))))
    S.oblige("O2b.data_batch_designated_by_its_position", me.fields["_data_batch_idx"] == SInt(L0.length))
    S.canary("O2b.canary.inserted_in_front", eq(L1.get(0).fields["batch"], final["ref"]))


@unit("C08.O2c _flush_collector (inline) writes the collector's batches in list order", targets=["vgi_rpc/rpc/_wire.py::_flush_collector", "vgi_rpc/rpc/_types.py::OutputCollector.batches"], replay=replay_collector, search=search_collector, min_obligations=8)
def flush_collector(S):
    me, L, L0, sid, schema, none_kv = mk_collector(S, S.choose(2) == 1)
    S.inline.add("OutputCollector.batches")
    WIRE = TupleShape(BATCHREF, KV)
    W = S.list("wire", WIRE)
    S.ghost["wire"] = W
    W0 = W.snapshot()
    writer = SObj(None, kind="IpcWriter")

    def write_batch(S, w, batch, custom_metadata=None):
        S.ghost["wire"].append((batch, custom_metadata if custom_metadata is not None else none_kv))

    S.handlers["IpcWriter.write_batch"] = write_batch
    n0 = SInt(W0.length)

    def wire_is(Wc, upto):
        return And(
            SInt(Wc.length) == n0 + upto,
            ForAllInt(lambda j: Implies(And(j >= 0, j < n0), And(eq(Wc.get(j)[0], W0.get(j)[0]), cm_agree(Wc.get(j)[1], W0.get(j)[1])))),
            ForAllInt(lambda j: Implies(And(j >= 0, j < upto), And(eq(Wc.get(n0 + j)[0], L0.get(j).fields["batch"]), cm_agree(Wc.get(n0 + j)[1], L0.get(j).fields["custom_metadata"])))),
        )

    def list_untouched(Lc):
        n = SInt(L0.length)
        return And(SInt(Lc.length) == n, ForAllInt(lambda j: Implies(And(j >= 0, j < n), And(eq(Lc.get(j).fields["batch"], L0.get(j).fields["batch"]), cm_agree(Lc.get(j).fields["custom_metadata"], L0.get(j).fields["custom_metadata"])))))

    S.invariants[("_flush_collector", 0)] = lambda Lc: [("nothing_written_while_recording_stats", wire_is(S.ghost["wire"], SInt(z3.IntVal(0)))), ("list_untouched", list_untouched(me.fields["_batches"]))]
    S.invariants[("_flush_collector", 3)] = lambda Lc: [("wire_is_history_plus_flushed_prefix", wire_is(S.ghost["wire"], Lc.idx)), ("list_untouched", list_untouched(me.fields["_batches"]))]
    S.loop_ghost[("_flush_collector", 3)] = ["wire"]
    out = S.outcome(wire._flush_collector, writer, me, None, shm=None)
    S.oblige("O2c.raises_nothing", out.returned, kind="raises")
    S.oblige("O2c.wire_order_is_emission_order", wire_is(S.ghost["wire"], SInt(L0.length)))
    S.oblige("O2c.nothing_uploaded_inline", out.value == 0 if out.returned else False, kind="post")
    S.canary("O2c.canary.nothing_written", SInt(S.ghost["wire"].length) == n0)


# ------------------------------------------------------------------------------------------
# C08.O3  _read_batch_with_log_check: logs reach on_log in stream order, each once, before the data batch
# ------------------------------------------------------------------------------------------
#
# The reader is an abstract script (any length) of (batch, metadata) elements and a read position.
# _dispatch_log_or_error is used BY CONTRACT (proved in O4/O5): what it does depends on the element only -
#   not a log batch      -> returns False, on_log untouched
#   EXCEPTION-level      -> raises RpcError
#   a log batch          -> consumed (True); on_log is called exactly once with the element's message,
#                           unless the element is one the client ignores (malformed foreign batch, O5)
# Ghost: D = the stream positions handed to on_log so far, in call order.

ELEM = TupleShape(BATCHREF, KV)
IS_LOG = z3.Function("is_log_batch", z3.IntSort(), z3.BoolSort())
IS_ERR = z3.Function("is_error_batch", z3.IntSort(), z3.BoolSort())
IGNORED = z3.Function("client_ignores", z3.IntSort(), z3.BoolSort())
RANK = z3.Function("delivered_before", z3.IntSort(), z3.IntSort())


def _native_stream_scenarios():
    """Real IPC stream with logs before the data batch; the real client function must deliver them in order,
    once, before it returns the data batch, and must not read past it."""
    import io
    import itertools

    from vgi_rpc.utils import ValidatedReader, IpcValidation

    schema = pa.schema([pa.field("a", pa.int64())])
    for n_logs, n_after in itertools.product(range(4), range(2)):
        buf = io.BytesIO()
        with pa.ipc.new_stream(buf, schema) as w:
            for i in range(n_logs):
                wire._write_message_batch(w, schema, Message.info(f"log{i}", idx=str(i)))
            w.write_batch(pa.RecordBatch.from_pydict({"a": [7]}, schema=schema))
            for i in range(n_after):
                wire._write_message_batch(w, schema, Message.info(f"late{i}"))
            w.write_batch(pa.RecordBatch.from_pydict({"a": [8]}, schema=schema))
        reader = ValidatedReader(pa.ipc.open_stream(buf.getvalue()), IpcValidation.NONE)
        events = []
        ab = wire._read_batch_with_log_check(reader, lambda m: events.append(m.message))
        events.append("<returned>")
        if events != [f"log{i}" for i in range(n_logs)] + ["<returned>"] or ab.batch.column("a")[0].as_py() != 7:
            return f"{n_logs} logs then data: observed {events}"
        events.clear()
        ab2 = wire._read_batch_with_log_check(reader, lambda m: events.append(m.message))
        if events != [f"late{i}" for i in range(n_after)] or ab2.batch.column("a")[0].as_py() != 8:
            return f"second read: observed {events}, value {ab2.batch.column('a')[0].as_py()}"
    return ""


def replay_stream(inputs, ob):
    p = _native_stream_scenarios()
    return ReplayResult(bool(p), p or "stream order kept natively (0-3 logs before the data batch, 0-1 after)")


def search_stream(ob, seed):
    rr = replay_stream({}, ob)
    return ({}, rr) if rr.confirmed else None


@unit("C08.O3 _read_batch_with_log_check delivers the logs before the data batch, in stream order, once", targets=["vgi_rpc/rpc/_wire.py::_read_batch_with_log_check"], replay=replay_stream, search=search_stream, min_obligations=12)
def read_with_log_check(S):
    script = S.list("script", ELEM)
    n = SInt(script.length)
    pos0 = S.int("pos0")
    S.assume(And(pos0 >= 0, pos0 <= n))
    S.ghost["pos"] = pos0
    D = S.list("delivered", IntShape)
    S.ghost["delivered"] = D
    D0 = D.snapshot()
    d0 = SInt(D0.length)
    # definitional axioms of the ghost counter: RANK(i) = d0 + number of delivered log batches in [pos0, i)
    S.assume(SInt(RANK(pos0.t)) == d0)
    # (the recursive step  RANK(i+1) = RANK(i) + [i is a delivered log batch]  is unfolded at the position being dispatched)
    S.assume(ForAllInt(lambda i: Implies(SBool(IS_ERR(i.t)), SBool(IS_LOG(i.t)))))
    on_log = SObj(None, kind="OnLog")
    on_log_raises = {}
    reader = SObj(None, kind="Reader", ipc_validation="none")
    cur = {}

    def read_next(S, r):
        p = S.ghost["pos"]
        if not S.fork(p < n):
            raise_(StopIteration)
        S.ghost["pos"] = p + 1
        b, cm = script.get(p)
        cur[(b.t.get_id(), cm.t.get_id())] = p
        return (b, cm)

    def dispatch(S, batch, cm, cb=None):
        p = cur.get((batch.t.get_id(), cm.t.get_id()))
        S.oblige("O3.dispatch_gets_the_element_just_read", p is not None, kind="pre")
        S.oblige("O3.dispatch_gets_the_callers_on_log", cb is on_log, kind="pre")
        S.assume(SInt(RANK((p + 1).t)) == SInt(RANK(p.t)) + ite(delivered_at(p), SInt(z3.IntVal(1)), SInt(z3.IntVal(0))))
        if not S.fork(SBool(IS_LOG(p.t))):
            return False
        if S.fork(SBool(IS_ERR(p.t))):
            raise_(RpcError, "RemoteError", "boom", "")
        if not S.fork(SBool(IGNORED(p.t))):
            S.ghost["delivered"].append(p)
            if S.choose(2) == 1:
                on_log_raises["exc"] = SExc(UserError, ("on_log failed",))
                raise PyRaise(on_log_raises["exc"])
        return True

    S.handlers["Reader.read_next_batch_with_custom_metadata"] = read_next
    S.handlers["_dispatch_log_or_error"] = dispatch
    # pointer resolution by contract: not a pointer batch (or nothing configured) -> passed through
    S.handlers["resolve_external_location"] = lambda S, b, cm, cfg, cb, val: (b, cm)
    S.handlers["resolve_shm_batch"] = lambda S, b, cm, shm: (b, cm, None)
    S.handlers[rtypes.AnnotatedBatch] = lambda S, batch=None, custom_metadata=None, _release_fn=None: SObj(None, kind="AnnotatedBatch", batch=batch, custom_metadata=custom_metadata)

    def delivered_at(i):
        return And(SBool(IS_LOG(i.t)), Not(SBool(IS_ERR(i.t))), Not(SBool(IGNORED(i.t))))

    def delivered_ok(Dc, upto):
        """D is its old content followed by exactly the delivered log positions of [pos0, upto), in order."""
        return And(
            SInt(Dc.length) == SInt(RANK(upto.t)),
            ForAllInt(lambda j: Implies(And(j >= 0, j < d0), Dc.get(j) == D0.get(j))),
            ForAllInt(lambda i: Implies(And(i >= pos0, i < upto, delivered_at(i)), And(SInt(RANK(i.t)) >= d0, SInt(RANK(i.t)) < SInt(Dc.length), Dc.get(SInt(RANK(i.t))) == i))),
            # stream order: a later delivered batch sits at a later place of D (pairwise form)
            ForAllInt2(lambda i, j: Implies(And(i >= pos0, i < j, j < upto, delivered_at(i), delivered_at(j)), SInt(RANK(i.t)) < SInt(RANK(j.t)))),
            ForAllInt(lambda i: Implies(And(i >= pos0, i <= upto), SInt(RANK(i.t)) <= SInt(RANK(upto.t)))),
        )

    def inv(L):
        p = S.ghost["pos"]
        return [
            ("position_advances_one_per_iteration", And(p == pos0 + L.idx, p <= n)),
            ("everything_skipped_was_a_consumed_log_batch", ForAllInt(lambda i: Implies(And(i >= pos0, i < p), And(SBool(IS_LOG(i.t)), Not(SBool(IS_ERR(i.t))))))),
            ("delivered_in_stream_order_exactly_once", delivered_ok(S.ghost["delivered"], p)),
        ]

    S.invariants[("_read_batch_with_log_check", 0)] = inv
    S.loop_ghost[("_read_batch_with_log_check", 0)] = ["pos", "delivered"]
    out = S.outcome(wire._read_batch_with_log_check, reader, on_log, None, shm=None)
    p1 = S.ghost["pos"]
    D1 = S.ghost["delivered"]
    if out.raised:
        own = on_log_raises.get("exc") is not None and out.exc is on_log_raises["exc"]
        S.oblige("O3.raises_only_StopIteration_RpcError_or_on_logs_own", own or exc_is(out.exc, StopIteration, RpcError), kind="raises", witness=exc_class(out.exc).__name__)
        if exc_is(out.exc, StopIteration):
            S.oblige("O3.end_of_stream_only_after_reading_everything", p1 == n)
        return
    ab = out.value
    d = p1 - 1  # the element returned
    S.oblige("O3.returns_the_first_non_log_batch", And(d >= pos0, d < n, Not(SBool(IS_LOG(d.t))), ForAllInt(lambda i: Implies(And(i >= pos0, i < d), SBool(IS_LOG(i.t))))))
    S.oblige("O3.returned_batch_is_that_element", isinstance(ab, SObj) and ab.kind == "AnnotatedBatch" and eq(ab.fields["batch"], script.get(d)[0]), kind="post")
    S.oblige("O3.reads_nothing_past_the_data_batch", p1 == d + 1)
    S.oblige("O3.all_logs_before_it_delivered_in_stream_order_exactly_once", delivered_ok(D1, d))
    S.canary("O3.canary.nothing_delivered", SInt(D1.length) == d0)


# ------------------------------------------------------------------------------------------
# C08.O6  dispatch sites: the sink is flushed to the response writer before the method runs, the result is
#          written after it returned - so every message the method emits precedes the result on the wire
# ------------------------------------------------------------------------------------------


def _order_ok(names, first, then, last):
    if then not in names:
        return True
    i = names.index(then)
    before = first in names and names.index(first) < i
    after = all(j > i for j, n in enumerate(names) if n in last)
    return before and after


def replay_unary_order(inputs, ob):
    """Real server over an in-memory pipe: logs emitted by a unary method arrive before its result."""
    import threading
    from typing import Protocol

    from vgi_rpc.rpc import CallContext, RpcServer
    from vgi_rpc.rpc._client import RpcConnection
    from vgi_rpc.rpc._transport import make_pipe_pair

    class P(Protocol):
        def u(self) -> int: ...

    class Impl:
        def u(self, ctx: CallContext) -> int:
            for i in range(3):
                ctx.emit_client_log(Message.info(f"log{i}"))
            return 7

    client_t, server_t = make_pipe_pair()
    th = threading.Thread(target=RpcServer(P, Impl()).serve, args=(server_t,), daemon=True)
    th.start()
    seen = []
    try:
        with RpcConnection(P, client_t, on_log=lambda m: seen.append(m.message)) as c:
            r = c.u()
            seen.append(f"<result {r}>")
    finally:
        client_t.close()
        th.join(timeout=5)
    want = ["log0", "log1", "log2", "<result 7>"]
    return ReplayResult(seen != want, f"observed {seen}")


@unit("C08.O6a _serve_unary flushes the log sink before the method and writes the result after it", targets=["vgi_rpc/rpc/_server.py::RpcServer._serve_unary"], replay=replay_unary_order, min_obligations=10, max_paths=20000)
def unary_order_socket(S):
    from lib_dispatch import run_serve_unary

    c = run_serve_unary(S, writes_may_fail=False)
    names = [e[0] for e in S.trace]
    if "impl_invoked" in names:
        S.oblige("O6a.sink_flushed_before_the_method_runs_and_result_written_after", _order_ok(names, "sink_flush", "impl_invoked", ("result_batch", "error_batch")), kind="trace", witness=",".join(n for n in names if n in ("sink_flush", "impl_invoked", "result_batch", "error_batch")))
        S.canary("O6a.canary.method_never_runs_after_a_flush", SBool(z3.BoolVal("sink_flush" not in names)))


@unit("C08.O6b _run_unary_sync flushes the log sink before the method and writes the result after it", targets=["vgi_rpc/http/server/_app_unary.py::_run_unary_sync"], replay=replay_unary_order, min_obligations=10, max_paths=40000)
def unary_order_http(S):
    import lib_httpdispatch

    lib_httpdispatch.drive_unary(S, judge=False)
    names = [e[0] for e in S.trace]
    if "impl_invoked" in names:
        S.oblige("O6b.sink_flushed_before_the_method_runs_and_result_written_after", _order_ok(names, "sink_flush", "impl_invoked", ("write_result", "error_batch")), kind="trace", witness=",".join(n for n in names if n in ("sink_flush", "impl_invoked", "write_result", "error_batch")))
        S.canary("O6b.canary.method_never_runs_after_a_flush", SBool(z3.BoolVal("sink_flush" not in names)))
