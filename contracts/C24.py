"""C24 Precondition gates compose with AND semantics (DESIGN §5 C24).

Units execute the real ``require_all`` (outer function symbolically, then the closure it returned),
the real ``PreconditionGate.__call__``, the real ``proxy_proof_gate`` + its ``gate`` closure and the
real ``chain_authenticate``; the gate callable, the inner authenticator and the chain members are
abstract callables (user code: return anything / raise anything) that record ghost events.
"""

from __future__ import annotations

import z3

import vgi_rpc.http._bearer as br
import vgi_rpc.http._proof as pf
import vgi_rpc.http._replay as rp
import vgi_rpc.http._unauthorized as ua
from pyvc.api import *  # noqa: F403
from pyvc.api import Outcome, PyRaise, ReplayResult, unit
from vgi_rpc.rpc import AuthContext

MANIFEST = {
    "level_text": "Deductive proof, for every gate outcome (spec §9 claims with verified 'true' or 'false' and any other values, or a generic gate's claims without that key / PermissionError / other exception), every inner-authenticator outcome (absent / any context / ValueError / PermissionError) and every proof-header shape in both modes, of the real require_all closure, PreconditionGate.__call__, the proxy_proof_gate closure composed with require_all, and chain_authenticate: authenticated only if the gate's claims say verified == 'true' (no inner) or the inner accepted; an unproven allow-mode request gets exactly the anonymous identity; with an inner authenticator identity is the inner's and claims are merged; after a gate failure the inner is never called; a gate in an OR chain is refused with TypeError at construction and only ValueError is swallowed by the chain.",
    "level_note": "verify_proof is used by contract (returns verified='true' claims or raises ProofError; proved in C22); the inner authenticator's claims mapping ranges over three key-set shapes (empty / disjoint from the gate's key / containing it) with symbolic values; gate name and claims key are the live module constants; declare_proxy_headers/merge_proxy_headers (401 proxy note) are assumed not to alter the composed callable; engine + z3 trusted.",
    "technique": "contract-based deductive verification: path-wise postconditions + ghost trace of gate/inner/member calls on the real closures, VCs by pyvc, z3",
    "design_ref": "DESIGN.md §5 C24",
}
EXPLANATION = MANIFEST["level_text"]
TRUSTED = ["pyvc VC generator (closures, dataclass construction, dataclasses.replace, exception hierarchy from the live classes)", "z3 5.1.0 / cvc5 1.4.0"]
ASSUMPTIONS = [
    "user code (gate callable, inner authenticator, chain members) either returns a value or raises an exception; nothing else about it is assumed",
    "verify_proof by contract: returns claims with verified='true' or raises ProofError(reason) (C22.O1)",
    "claims contract of a gate callable: the proof gate's claims always carry verified in {'true','false'} (established for the real gate closure by the end-to-end unit: 'true' only from the verifier, 'false' only from the allow-mode branch); a gate whose claims lack the key is a generic PreconditionGate that raises on failure, so returning means it passed",
    "declare_proxy_headers / merge_proxy_headers only annotate the returned callable (C21's proxy note) and do not change what it does",
    "inner claims: three key-set shapes with symbolic values; dict(ctx.claims) and item assignment act key-wise",
    "NonceCache construction by contract (C23.O4); logging calls dropped",
]

ANON = AuthContext.anonymous()
KEY = pf.CLAIMS_KEY
T = z3.BoolVal(True)


def fld(ctx, name):
    """Field of an AuthContext that is either a symbolic record or a real instance."""
    if isinstance(ctx, SObj):
        return ctx.fields[name] if name in ctx.fields else getattr(ctx.cls, name)
    return getattr(ctx, name)


def is_ctx(v):
    return (isinstance(v, SObj) and v.cls is AuthContext) or isinstance(v, AuthContext)


def same_identity(ctx, domain, authenticated, principal):
    return And(eq(fld(ctx, "domain"), domain), eq(fld(ctx, "authenticated"), authenticated), eq(fld(ctx, "principal"), principal))


def install_common(S):
    S.inline.update({"PreconditionGate.__call__", "PreconditionGate", "dataclass:AuthContext", "AuthContext.anonymous", "_combine_reasons"})
    S.handlers["declare_proxy_headers"] = lambda S, fn, *headers: fn
    S.handlers["merge_proxy_headers"] = lambda S, *sources: ()


def mk_exc(S, cls, *args):
    """Instance of a real exception class, built by its real constructor."""
    return S.interp.models.construct(S.interp, cls, list(args), {})


def mk_proof_error(S, reason, origin_id):
    """What verify_proof's contract says about a failure is its class and its reason code, nothing else: whatever
    further payload the real constructor accepts (read off its live signature) is unconstrained, so it is given the
    value that is worst for the gate's obligations - a mapping that names every key of the claims with arbitrary values."""
    import inspect

    extra = {}
    for prm in list(inspect.signature(pf.ProofError.__init__).parameters.values())[3:]:  # beyond (self, reason, detail)
        if prm.kind in (prm.POSITIONAL_OR_KEYWORD, prm.KEYWORD_ONLY) and S.choose(2) == 1:
            extra[prm.name] = {"verified": S.str(f"exc_{prm.name}_verified"), "proxy": S.str(f"exc_{prm.name}_proxy"), "kid": S.str(f"exc_{prm.name}_kid"), "origin_id": origin_id, "reason": "ok"}
            S.inputs[f"exc_{prm.name}"] = "claims-like mapping"
    return S.interp.models.construct(S.interp, pf.ProofError, [reason, "detail"], extra)


def inner_claims(S, shape):
    if shape == 0:
        return {}
    if shape == 1:
        return {"sub": S.str("claim_sub"), "role": S.str("claim_role")}
    return {"sub": S.str("claim_sub"), KEY: S.str("claim_stale")}


def install_inner(S, mode, shape):
    """Abstract inner authenticator: returns any context, or raises."""
    if mode == "absent":
        return None, {}
    inner = SObj(None, kind="Inner")
    inner.closed = True
    st = {}

    def call(S, me, req):
        S.event("inner", req)
        if mode == "returns":
            st["claims"] = inner_claims(S, shape)
            st["claims_before"] = dict(st["claims"])
            st["ctx"] = SObj(AuthContext, domain=S.str("inner_domain"), authenticated=S.bool("inner_authenticated"), principal=S.str("inner_principal"), claims=st["claims"])
            return st["ctx"]
        st["exc"] = mk_exc(S, ua.AuthFailure, ua.AuthReason.INVALID_CREDENTIAL, S.str("inner_detail")) if mode == "raises_value_error" else mk_exc(S, PermissionError, S.str("inner_detail"))
        raise PyRaise(st["exc"])

    S.handlers["Inner.__call__"] = call
    return inner, st


def check_inner_result(S, out, st, mode, gate_claims, tag):
    """Inner present and the gate let the request through: the result is the inner's verdict."""
    if mode != "returns":
        S.oblige(f"{tag}.inner_rejection_propagates", out.raised and out.exc is st.get("exc"), kind="raises")
        return
    S.oblige(f"{tag}.returns_a_context", out.returned and is_ctx(out.value), kind="post")
    if not (out.returned and is_ctx(out.value)):
        return
    ctx, ictx = out.value, st["ctx"]
    S.oblige(f"{tag}.identity_is_the_inners", same_identity(ctx, ictx.fields["domain"], ictx.fields["authenticated"], ictx.fields["principal"]))
    merged = fld(ctx, "claims")
    before = st["claims_before"]
    ok_keys = isinstance(merged, dict) and set(merged.keys()) == set(before.keys()) | {KEY}
    S.oblige(f"{tag}.claims_are_inner_plus_gate_key", ok_keys, kind="post")
    if ok_keys:
        S.oblige(f"{tag}.gate_claims_merged_under_claims_key", merged[KEY] is gate_claims, kind="post")
        S.oblige(f"{tag}.inner_claims_kept", And(*[eq(merged[k], before[k]) for k in before if k != KEY]))
    S.canary(f"{tag}.canary.principal_is_the_proxy_label", eq(fld(ctx, "principal"), gate_claims.get("proxy")) if isinstance(gate_claims, dict) else False)


# ------------------------------------------------------------------------------------------
# O1-O4 require_all(gate, inner) with an arbitrary gate callable
# ------------------------------------------------------------------------------------------

GATE_MODES = ["returns", "raises_proof_error", "raises_other"]
CLAIM_KINDS = ["verified_true", "verified_false", "generic"]
INNER_MODES = ["absent", "returns", "raises_value_error", "raises_permission"]


def mk_req(S):
    """The request as require_all / the gate may see it.  req.context is falcon's per-request scratch namespace: any
    other authenticator, gate or middleware in the same chain may have written anything there, so an attribute read
    finds either nothing or an arbitrary claims-shaped mapping (fixed at first read; writes are remembered)."""
    ctx = SObj(None, kind="ReqContext")

    def ctx_getattr(S, obj, name):
        if S.choose(2) == 0:
            raise PyRaise(SExc(AttributeError, (f"context has no attribute {name!r}",)))
        v = {k: S.str(f"ctx_{name}_{k}") for k in ("verified", "proxy", "kid", "origin_id", "reason")}
        obj.fields[name] = v
        S.inputs["context_preset"] = name  # the native replay presets the same attribute (values from the model)
        return v

    S.handlers["ReqContext.__getattr__"] = ctx_getattr
    return SObj(None, kind="Req", context=ctx)


class _Req:
    remote_addr = "192.0.2.1"

    def __init__(self, header=None, inputs=None):
        import types

        self.header = header
        self.context = types.SimpleNamespace()
        name = (inputs or {}).get("context_preset")
        if name:
            setattr(self.context, name, {k: inputs.get(f"ctx_{name}_{k}", "true" if k == "verified" else "x") for k in ("verified", "proxy", "kid", "origin_id", "reason")})

    def get_header(self, name, default=None):
        return self.header if name == pf.PROOF_HEADER else default


def _native_inner(mode, shape, inputs, log):
    if mode == "absent":
        return None, None
    claims = {0: {}, 1: {"sub": inputs.get("claim_sub", "s"), "role": inputs.get("claim_role", "r")}, 2: {"sub": inputs.get("claim_sub", "s"), KEY: inputs.get("claim_stale", "old")}}[shape]
    ictx = AuthContext(domain=inputs.get("inner_domain", "jwt"), authenticated=bool(inputs.get("inner_authenticated", True)), principal=inputs.get("inner_principal", "alice"), claims=dict(claims))

    def inner(req):
        log.append("inner")
        if mode == "returns":
            return ictx
        if mode == "raises_value_error":
            raise ua.AuthFailure(ua.AuthReason.INVALID_CREDENTIAL, "inner says no")
        raise PermissionError("inner forbids")

    return inner, ictx


def _judge(res, exc, log, gate_ok, verified, gclaims, mode, ictx, inner_claims_before):
    """The property, on a native run (plain-Python transcription of the obligations)."""
    problems = []
    if log.count("gate") != 1:
        problems.append(f"gate consulted {log.count('gate')} times (call log {log})")
    if not gate_ok:
        if exc is None:
            problems.append("gate failed but the request was let through")
        if "inner" in log:
            problems.append("inner consulted after a gate failure")
        return problems
    if mode == "absent":
        if exc is not None:
            problems.append(f"raised {exc!r}")
            return problems
        if res.authenticated and not verified:
            problems.append(f"authenticated=True although the gate's claims say verified={gclaims.get('verified')!r}")
        if not verified and (res.domain, res.authenticated, res.principal) != (ANON.domain, ANON.authenticated, ANON.principal):
            problems.append(f"unproven request got identity {(res.domain, res.authenticated, res.principal)} instead of the anonymous {(ANON.domain, ANON.authenticated, ANON.principal)}")
        return problems
    if log.count("inner") != 1 or (log and log[0] != "gate"):
        problems.append(f"call order {log}")
    if mode != "returns":
        if exc is None:
            problems.append("inner rejected but a context was returned")
        return problems
    if exc is not None:
        problems.append(f"raised {exc!r}")
        return problems
    if (res.domain, res.authenticated, res.principal) != (ictx.domain, ictx.authenticated, ictx.principal):
        problems.append("identity is not the inner's")
    want = dict(inner_claims_before)
    want[KEY] = gclaims
    if dict(res.claims) != want:
        problems.append(f"claims {dict(res.claims)} != {want}")
    return problems


def replay_require_all(inputs, ob):
    gmode, imode, shape = inputs["gate_mode"], inputs["inner_mode"], inputs.get("claims_shape", 0)
    log = []
    ckind = inputs.get("claims_kind", "verified_true")
    if ckind == "generic":
        gclaims = {"note": inputs.get("g_note", "")}
    else:
        gclaims = {k: inputs.get("g_" + k, "") for k in ("proxy", "kid", "origin_id", "reason")}
        gclaims["verified"] = "true" if ckind == "verified_true" else "false"

    def gate_fn(req):
        log.append("gate")
        if gmode == "returns":
            return gclaims
        if gmode == "raises_proof_error":
            raise pf.ProofError("bad_mac", "proxy proof required")
        raise RuntimeError("gate crashed")

    inner, ictx = _native_inner(imode, shape, inputs, log)
    before = dict(ictx.claims) if ictx is not None else {}
    auth = br.require_all(br.PreconditionGate(gate_fn, name=pf.GATE_NAME, claims_key=KEY), inner)
    res = exc = None
    try:
        res = auth(_Req(None, inputs))
    except Exception as e:  # noqa: BLE001
        exc = e
    # a generic gate that returned has passed (it raises on failure); the proof gate passed iff verified == "true"
    problems = _judge(res, exc, log, gmode == "returns", gclaims.get("verified", "true") == "true", gclaims, imode, ictx, before)
    return ReplayResult(bool(problems), f"require_all(gate[{gmode}, claims={gclaims}], inner[{imode}]) -> {res!r} / {exc!r}; calls={log}; " + "; ".join(problems))


@unit(
    "C24.O1-O4 require_all closure + PreconditionGate.__call__ (any gate callable, any inner)",
    targets=["vgi_rpc/http/_bearer.py::require_all", "vgi_rpc/http/_bearer.py::require_all.<locals>.authenticate", "vgi_rpc/http/_bearer.py::PreconditionGate.__call__"],
    replay=replay_require_all,
    min_obligations=30,
)
def require_all_unit(S):
    install_common(S)
    gmode = GATE_MODES[S.choose(len(GATE_MODES))]
    imode = INNER_MODES[S.choose(len(INNER_MODES))]
    shape = S.choose(3) if imode == "returns" else 0
    ckind = CLAIM_KINDS[S.choose(len(CLAIM_KINDS))] if gmode == "returns" else "verified_true"
    S.inputs.update({"gate_mode": gmode, "inner_mode": imode, "claims_shape": shape, "claims_kind": ckind})
    req = mk_req(S)
    gst = {}

    def gate_fn(S, me, r):
        S.event("gate", r)
        if gmode == "returns":
            # contract of the proof gate's callable (proved in the end-to-end unit / C22.O4): spec §9 claims
            # whose "verified" is "true" or "false"; a generic gate (PreconditionGate is public API: return
            # claims on success, raise PermissionError on failure) returns claims without that key
            if ckind == "generic":
                gst["claims"] = {"note": S.str("g_note")}
            else:
                gst["claims"] = {k: S.str("g_" + k) for k in ("proxy", "kid", "origin_id", "reason")}
                gst["claims"]["verified"] = "true" if ckind == "verified_true" else "false"
            return gst["claims"]
        gst["exc"] = mk_exc(S, pf.ProofError, S.str("g_reason"), "proxy proof required") if gmode == "raises_proof_error" else mk_exc(S, RuntimeError, "gate crashed")
        raise PyRaise(gst["exc"])

    S.handlers["GateFn.__call__"] = gate_fn
    gate = SObj(br.PreconditionGate, _fn=SObj(None, kind="GateFn"), name=pf.GATE_NAME, claims_key=KEY, vgi_proxy_headers=())
    inner, ist = install_inner(S, imode, shape)
    made = S.outcome(br.require_all, gate, inner)
    S.oblige("O0.require_all_accepts_a_gate", made.returned, kind="raises")
    if not made.returned:
        return
    out = S.outcome(made.value, req)
    gates, inners = S.events("gate"), S.events("inner")
    S.oblige("O4.gate_consulted_exactly_once_with_the_request", len(gates) == 1 and gates[0][1] is req, kind="trace")
    if gmode != "returns":
        S.oblige("O4.gate_failure_propagates_unchanged", out.raised and out.exc is gst.get("exc"), kind="raises")
        S.oblige("O4.inner_never_called_after_gate_failure", len(inners) == 0, kind="trace")
        return
    if "claims" not in gst:
        return  # the gate was never consulted: already refuted by O4.gate_consulted_exactly_once above
    claims = gst["claims"]
    if imode == "absent":
        S.oblige("O1.returns_a_context", out.returned and is_ctx(out.value), kind="post")
        if not (out.returned and is_ctx(out.value)):
            return
        ctx = out.value
        if ckind != "generic":
            verified = eq(claims["verified"], "true")
            S.oblige("O1.authenticated_only_if_gate_claims_say_verified", Implies(eq(fld(ctx, "authenticated"), True), verified))
            S.oblige("O2.unverified_request_has_the_anonymous_identity", Implies(Not(verified), same_identity(ctx, ANON.domain, ANON.authenticated, ANON.principal)))
        S.canary("O1.canary.never_authenticated", Not(eq(fld(ctx, "authenticated"), True)))
        return
    S.oblige("O4.inner_called_exactly_once_after_the_gate", len(inners) == 1 and inners[0][1] is req and [e[0] for e in S.trace if e[0] in ("gate", "inner")] == ["gate", "inner"], kind="trace")
    check_inner_result(S, out, ist, imode, claims, "O3")


# ------------------------------------------------------------------------------------------
# O1/O2/O4 end to end: require_all(proxy_proof_gate(config), inner), real gate closure
# ------------------------------------------------------------------------------------------

HEADERS = ["absent", "present"]
REASONS = ["malformed", "unknown_kid", "expired", "not_yet_valid", "bad_mac", "replayed"]


def proof_gate_setup(S, mode, header, cache_on):
    """The real gate object built by the real proxy_proof_gate; request, verifier (by contract) and cache abstract."""
    raw = S.str("raw") if header == "present" else None
    req = mk_req(S)
    S.handlers["Req.get_header"] = lambda S, r, name, default=None: raw if name == pf.PROOF_HEADER else default
    S.handlers[rp.NonceCache] = lambda S, **kw: SObj(None, kind="NonceCache")
    vst = {}

    def verify(S, token, *, secrets, origin_id, skew_seconds=30, nonce_cache=None, now=None):
        S.event("verify", token)
        if S.choose(2) == 0:
            S.inputs["verify"] = "accepts"
            vst["claims"] = {"verified": "true", "proxy": S.str("label"), "kid": S.str("kid"), "origin_id": origin_id, "reason": "ok"}
            return vst["claims"]
        S.inputs["verify"] = "rejects"
        reason = REASONS[S.choose(len(REASONS))]
        S.inputs["reason"] = reason
        raise PyRaise(mk_proof_error(S, reason, origin_id))

    S.handlers["verify_proof"] = verify
    cfg = SObj(pf.ProxyProofConfig, mode=mode, origin_id=S.str("origin_id"), secrets=SObj(None, kind="Secrets"), skew_seconds=S.int("skew"), replay_capacity=S.int("capacity"), enable_replay_cache=cache_on)
    g = S.outcome(pf.proxy_proof_gate, cfg)
    S.oblige("O0.gate_built", g.returned and isinstance(g.value, SObj) and g.value.cls is br.PreconditionGate, kind="raises")
    return g, vst, raw, req


def replay_gate_claims(inputs, ob):
    mode = inputs["mode"]
    secret, origin, now = b"k" * 32, "worker-1", 1_700_000_000
    hdr = inputs.get("raw") if inputs.get("header") == "present" else None
    if inputs.get("verify") == "accepts":
        hdr = pf.mint_proof(secret, "kid1", origin, now=now)
    gate = pf.proxy_proof_gate(pf.ProxyProofConfig(mode=mode, origin_id=origin, secrets={"kid1": (secret, "edge-proxy")}), now=lambda: now)
    if inputs.get("verify") == "rejects" and inputs.get("reason") == "replayed":
        hdr = pf.mint_proof(secret, "kid1", origin, now=now)  # a valid proof presented twice: the second is the replay
        try:
            gate(_Req(hdr, inputs))
        except Exception:  # noqa: BLE001
            pass
    try:
        claims, exc = gate(_Req(hdr, inputs)), None
    except Exception as e:  # noqa: BLE001
        claims, exc = None, e
    problems = []
    if claims is not None and claims.get("verified") not in ("true", "false"):
        problems.append("claims without verified in {'true','false'}")
    if claims is not None and claims.get("verified") == "false" and mode == "require":
        problems.append("require mode returned unverified claims")
    if claims is not None and claims.get("verified") == "true" and inputs.get("verify") != "accepts":
        problems.append("verified='true' for a header the verifier did not accept")
    if exc is not None and not isinstance(exc, PermissionError):
        problems.append("failure is not a PermissionError")
    return ReplayResult(bool(problems), f"gate[{mode}]({hdr!r}) -> {claims!r} / {exc!r}; " + "; ".join(problems))


@unit(
    "C24.H1 claims contract of the proof gate (used by O1/O2): verified is 'true' only from the verifier, 'false' only in allow mode",
    targets=["vgi_rpc/http/_proof.py::proxy_proof_gate", "vgi_rpc/http/_proof.py::proxy_proof_gate.<locals>.gate", "vgi_rpc/http/_bearer.py::PreconditionGate.__call__"],
    replay=replay_gate_claims,
    min_obligations=12,
)
def gate_claims_unit(S):
    install_common(S)
    mode = ["allow", "require"][S.choose(2)]
    header = HEADERS[S.choose(2)]
    S.inputs.update({"mode": mode, "header": header})
    g, vst, raw, req = proof_gate_setup(S, mode, header, S.choose(2) == 0)
    if not g.returned:
        return
    try:
        out = Outcome("return", S.interp.call_value(g.value, [req], {}), None)  # gate(req): the real PreconditionGate.__call__
    except PyRaise as e:
        out = Outcome("raise", None, e.exc)
    valid = "claims" in vst
    if out.raised:
        S.oblige("H1.gate_fails_only_in_require_mode_without_valid_proof", mode == "require" and not valid, kind="raises")
        S.oblige("H1.gate_failure_is_a_PermissionError", exc_is(out.exc, PermissionError), kind="raises")
        return
    c = out.value
    S.oblige("H1.claims_carry_verified", isinstance(c, dict) and "verified" in c, kind="post")
    if isinstance(c, dict) and "verified" in c:
        S.oblige("H1.verified_true_iff_the_verifier_accepted", eq(c["verified"], "true") if valid else eq(c["verified"], "false"))
        S.oblige("H1.unverified_claims_only_in_allow_mode", valid or mode == "allow", kind="post")
        S.canary("H1.canary.never_verified", Not(eq(c["verified"], "true")))


def replay_e2e(inputs, ob):
    import hashlib
    import hmac as _hmac

    mode, imode, shape = inputs["mode"], inputs["inner_mode"], inputs.get("claims_shape", 0)
    secret = b"k" * 32
    origin = "worker-1"
    now = 1_700_000_000
    hdr = inputs.get("raw") if inputs.get("header") == "present" else None
    if inputs.get("header") == "present" and inputs.get("verify") == "accepts":
        hdr = pf.mint_proof(secret, "kid1", origin, now=now)
    elif inputs.get("header") == "present" and inputs.get("verify") == "rejects" and hdr and "," not in hdr:
        hdr = pf.mint_proof(b"z" * 32, "kid1", origin, now=now)  # wrong secret: bad_mac
    cfg = pf.ProxyProofConfig(mode=mode, origin_id=origin, secrets={"kid1": (secret, "edge-proxy")}, enable_replay_cache=bool(inputs.get("replay_cache", True)))
    log = []
    inner, ictx = _native_inner(imode, shape, inputs, log)
    before = dict(ictx.claims) if ictx is not None else {}
    auth = br.require_all(pf.proxy_proof_gate(cfg, now=lambda: now), inner)
    res = exc = None
    try:
        res = auth(_Req(hdr, inputs))
    except Exception as e:  # noqa: BLE001
        exc = e
    # oracle for "the proof is valid", independent of the gate: recompute the MAC here
    valid = False
    if hdr and "," not in hdr and hdr.count(".") == 4:
        v, kid, ts, nonce, mac = hdr.split(".")
        want = _hmac.new(secret, pf.canonical_string(kid, ts, nonce, origin), hashlib.sha256).digest()
        valid = v == "v1" and kid == "kid1" and ts == str(now) and pf._b64(want) == mac
    log2 = ["gate"] + log
    gate_ok = valid or mode == "allow"
    gclaims = dict(res.claims).get(KEY, {}) if (res is not None and exc is None) else {}
    problems = _judge(res, exc, log2, gate_ok, valid, gclaims, imode, ictx, before)
    if not gate_ok and exc is not None and not isinstance(exc, PermissionError):
        problems.append("gate failure is not a PermissionError")
    return ReplayResult(bool(problems), f"mode={mode} header={hdr!r} inner[{imode}] -> {res!r} / {exc!r}; inner calls={log}; " + "; ".join(problems))


@unit(
    "C24.O1/O2/O4 require_all(proxy_proof_gate(config), inner) end to end",
    targets=["vgi_rpc/http/_proof.py::proxy_proof_gate", "vgi_rpc/http/_proof.py::proxy_proof_gate.<locals>.gate", "vgi_rpc/http/_bearer.py::require_all.<locals>.authenticate"],
    replay=replay_e2e,
    min_obligations=40,
)
def e2e_unit(S):
    install_common(S)
    mode = ["allow", "require"][S.choose(2)]
    imode = INNER_MODES[S.choose(len(INNER_MODES))]
    shape = S.choose(3) if imode == "returns" else 0
    header = HEADERS[S.choose(2)]
    cache_on = S.choose(2) == 0
    S.inputs.update({"mode": mode, "inner_mode": imode, "claims_shape": shape, "header": header, "replay_cache": cache_on})
    inner, ist = install_inner(S, imode, shape)
    g, vst, raw, req = proof_gate_setup(S, mode, header, cache_on)
    if not g.returned:
        return
    made = S.outcome(br.require_all, g.value, inner)
    S.oblige("O0.require_all_accepts_the_proof_gate", made.returned, kind="raises")
    if not made.returned:
        return
    out = S.outcome(made.value, req)
    inners = S.events("inner")
    valid = "claims" in vst  # the verifier accepted the header value (C22: exactly the proofs the table accepts)
    if valid:
        S.oblige("O1.verifier_saw_the_single_nonempty_header_value", And(SBool(z3.Length(raw.t) > 0), Not(SBool(z3.Contains(raw.t, z3.StringVal(","))))) if raw is not None else False)
    if not valid and mode == "require":
        S.oblige("O4.require_mode_refuses_without_valid_proof", out.raised and exc_is(out.exc, PermissionError), kind="raises")
        S.oblige("O4.inner_never_consulted_after_gate_failure", len(inners) == 0, kind="trace")
        return
    if imode == "absent":
        S.oblige("O1.returns_a_context", out.returned and is_ctx(out.value), kind="post")
        if not (out.returned and is_ctx(out.value)):
            return
        ctx = out.value
        if not valid:
            S.oblige("O1.not_authenticated_without_valid_proof", eq(fld(ctx, "authenticated"), False))
            S.oblige("O2.allow_mode_unproven_request_is_anonymous", same_identity(ctx, ANON.domain, ANON.authenticated, ANON.principal))
        S.canary("O1.canary.valid_proof_is_not_authenticated", Not(eq(fld(ctx, "authenticated"), True)) if valid else False)
        return
    S.oblige("O4.inner_decides_once_the_gate_let_the_request_through", len(inners) == 1 and inners[0][1] is req, kind="trace")
    gate_claims = vst.get("claims")
    if gate_claims is None and out.returned and is_ctx(out.value) and isinstance(fld(out.value, "claims"), dict):
        gate_claims = fld(out.value, "claims").get(KEY)
    check_inner_result(S, out, ist, imode, gate_claims, "O3e")
    if not valid and imode == "returns" and isinstance(gate_claims, dict):
        S.oblige("O2.allow_mode_records_the_failed_proof_as_unverified", eq(gate_claims.get("verified"), "false"))


# ------------------------------------------------------------------------------------------
# O5 chain_authenticate: no gate inside an OR chain; only ValueError is swallowed
# ------------------------------------------------------------------------------------------

MEMBER_OUTCOMES = ["returns", "value_error", "auth_failure", "permission_error", "other_error"]


def _native_member(i, outcome, log):
    def member(req):
        log.append(i)
        if outcome == "returns":
            return AuthContext(domain=f"m{i}", authenticated=True, principal=f"p{i}")
        if outcome == "value_error":
            raise ValueError(f"m{i} no")
        if outcome == "auth_failure":
            raise ua.AuthFailure(ua.AuthReason.MISSING_CREDENTIAL, "")
        if outcome == "permission_error":
            raise pf.ProofError("bad_mac", "proxy proof required")
        raise RuntimeError(f"m{i} crashed")

    return member


def replay_chain_build(inputs, ob):
    kinds = inputs["kinds"]
    members = [br.PreconditionGate(lambda req: {}, name=f"g{i}", claims_key="k") if k == "gate" else _native_member(i, "returns", []) for i, k in enumerate(kinds)]
    try:
        br.chain_authenticate(*members)
        exc = None
    except Exception as e:  # noqa: BLE001
        exc = e
    want = "gate" in kinds
    bad = want != isinstance(exc, TypeError)
    return ReplayResult(bad, f"chain_authenticate({kinds}) -> {exc!r}; TypeError expected: {want}")


@unit("C24.O5a chain_authenticate refuses a gate at construction", targets=["vgi_rpc/http/_bearer.py::chain_authenticate"], replay=replay_chain_build, min_obligations=10)
def chain_build_unit(S):
    install_common(S)
    n = 1 + S.choose(3)
    kinds = [["plain", "gate"][S.choose(2)] for _ in range(n)]
    S.inputs["kinds"] = kinds
    S.handlers["Member.__isinstance__"] = lambda S, o, c: False
    members = []
    for i, k in enumerate(kinds):
        if k == "gate":
            members.append(SObj(br.PreconditionGate, _fn=SObj(None, kind="GateFn"), name=f"gate{i}", claims_key="k", vgi_proxy_headers=()))
        else:
            m = SObj(None, kind="Member", idx=i)
            m.closed = True
            members.append(m)
    out = S.outcome(br.chain_authenticate, *members)
    if "gate" in kinds:
        S.oblige("O5.gate_in_chain_is_a_TypeError_at_construction", out.raised and exc_is(out.exc, TypeError), kind="raises")
    else:
        S.oblige("O5.chain_of_plain_authenticators_is_built", out.returned, kind="raises")
    S.canary("O5.canary.construction_always_succeeds", SBool(z3.BoolVal(out.returned)))


def replay_chain_call(inputs, ob):
    outcomes = inputs["outcomes"]
    log = []
    auth = br.chain_authenticate(*[_native_member(i, o, log) for i, o in enumerate(outcomes)])
    res = exc = None
    try:
        res = auth(_Req(None, inputs))
    except Exception as e:  # noqa: BLE001
        exc = e
    stop = next((i for i, o in enumerate(outcomes) if o not in ("value_error", "auth_failure")), None)
    problems = []
    if log != list(range(len(outcomes) if stop is None else stop + 1)):
        problems.append(f"members called: {log}")
    if stop is None:
        if not isinstance(exc, ValueError):
            problems.append("all members rejected but the chain did not reject with ValueError")
    elif outcomes[stop] == "returns":
        if exc is not None or res.domain != f"m{stop}":
            problems.append("first accepting member's context not returned")
    elif outcomes[stop] == "permission_error":
        if not isinstance(exc, pf.ProofError):
            problems.append(f"PermissionError did not propagate (got {exc!r} / {res!r})")
    elif not isinstance(exc, RuntimeError):
        problems.append(f"non-ValueError exception did not propagate (got {exc!r} / {res!r})")
    return ReplayResult(bool(problems), f"chain{outcomes} -> {res!r} / {exc!r}; " + "; ".join(problems))


@unit("C24.O5b chain_authenticate swallows only ValueError", targets=["vgi_rpc/http/_bearer.py::chain_authenticate.<locals>.authenticate"], replay=replay_chain_call, min_obligations=60)
def chain_call_unit(S):
    install_common(S)
    n = 1 + S.choose(3)
    S.handlers["Member.__isinstance__"] = lambda S, o, c: False
    members = []
    for i in range(n):
        m = SObj(None, kind="Member", idx=i)
        m.closed = True
        members.append(m)
    req = mk_req(S)
    st = {"outcomes": [], "exc": {}, "ctx": {}}
    S.inputs["outcomes"] = st["outcomes"]

    def call(S, me, r):
        i = me.fields["idx"]
        S.event("member", i, r)
        o = MEMBER_OUTCOMES[S.choose(len(MEMBER_OUTCOMES))]
        st["outcomes"].append(o)
        if o == "returns":
            st["ctx"][i] = SObj(AuthContext, domain=S.str(f"domain{i}"), authenticated=S.bool(f"authenticated{i}"), principal=S.str(f"principal{i}"), claims={})
            return st["ctx"][i]
        if o == "value_error":
            e = mk_exc(S, ValueError, S.str(f"msg{i}"))
        elif o == "auth_failure":
            e = mk_exc(S, ua.AuthFailure, [ua.AuthReason.MISSING_CREDENTIAL, ua.AuthReason.INVALID_CREDENTIAL][S.choose(2)], S.str(f"msg{i}"))
        elif o == "permission_error":
            e = mk_exc(S, pf.ProofError, S.str(f"reason{i}"), "proxy proof required")
        else:
            e = mk_exc(S, RuntimeError, S.str(f"msg{i}"))
        st["exc"][i] = e
        raise PyRaise(e)

    S.handlers["Member.__call__"] = call
    made = S.outcome(br.chain_authenticate, *members)
    S.oblige("O5.chain_built", made.returned, kind="raises")
    if not made.returned:
        return
    out = S.outcome(made.value, req)
    outcomes = st["outcomes"]
    called = [e[1] for e in S.events("member")]
    stop = next((i for i, o in enumerate(outcomes) if o not in ("value_error", "auth_failure")), None)
    S.oblige("O5.members_tried_in_order_once_each_with_the_request", called == list(range(len(called))) and all(e[2] is req for e in S.events("member")), kind="trace")
    if stop is None:
        S.oblige("O5.every_member_tried_when_all_reject", called == list(range(n)), kind="trace")
        S.oblige("O5.all_rejected_is_a_ValueError_rejection", out.raised and exc_is(out.exc, ValueError), kind="raises")
        return
    S.oblige("O5.chain_stops_at_the_first_non_ValueError_outcome", called == list(range(stop + 1)), kind="trace")
    if outcomes[stop] == "returns":
        S.oblige("O5.first_accepting_member_wins", out.returned and out.value is st["ctx"][stop], kind="post")
    elif outcomes[stop] == "permission_error":
        S.oblige("O5.PermissionError_propagates_out_of_the_chain", out.raised and out.exc is st["exc"][stop], kind="raises")
    else:
        S.oblige("O5.non_ValueError_exception_propagates", out.raised and out.exc is st["exc"][stop], kind="raises")
    S.canary("O5.canary.chain_never_returns", SBool(z3.BoolVal(not out.returned)))
