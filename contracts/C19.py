"""C19 Response content-encoding negotiation is correct (DESIGN §5 C19).

Under contract: ``parse_encoding_list`` (O1), ``_CompressionMiddleware._pick_response_encoding`` (O2),
``_CompressionMiddleware.process_request`` - recording the choice and publishing the codec name to the
streaming producer (O4) -, ``_CompressionMiddleware.process_response`` - both the middleware compress arm and
the pre-compressed producer arm (O3) -, and the slice of ``_run_http_producer_turn`` in which the producer
takes the published codec (O5).

Abstraction (DESIGN §5 C19): a header value is its comma-split token list (``str.split(",")`` on the header is
answered by an *arbitrary* list of strings: every real split result is such a list); the normalised name of a
token is built from the engine's uninterpreted ``strip``/``lower`` with the ``;q=`` parameter cut off by the
code itself.  falcon's request/response are abstract records; zstandard / zlib compressors are assumed
externals whose frames decode to exactly the bytes fed to them (the round trip is C18's bounded stand-in).
"""

from __future__ import annotations

import contextvars
import io
import itertools
import types
import zlib
from typing import Any
from unittest import mock

import z3
import zstandard

import vgi_rpc._codec as codec
import vgi_rpc.http.server._middleware as mw
from pyvc import models
from pyvc import values as V
import falcon
from pyvc.api import *  # noqa: F403
from pyvc.api import BoundedResult, PyRaise, ReplayResult, SExc, bounded, unit

MANIFEST = {
    "level_text": "Deductive proof over the real code. parse_encoding_list: for every token list of any length (loop invariant) the result lists exactly the known codings some token names (case/blank/q-parameter insensitive), each once, in order of first occurrence. _pick_response_encoding: for every pair of parsed lists (all 16x16 duplicate-free lists over the coding enum, each header absent or present) and every producible set (all 8 subsets), the choice is the first entry of pref = custom ++ (standard minus custom) that is identity or producible, no coding when that entry is identity or there is none, and the custom-header flag is true iff the chosen coding was offered on the VGI header only. process_request records exactly that choice for the response and publishes the codec name to the streaming producer only for zstd/gzip (resetting the pre-compressed flag). process_response, for every choice, header flag, content type, stream kind (none / not a file / unseekable / seekable), body and chunking: at most one of Content-Encoding / X-VGI-Content-Encoding is stamped, none without a negotiated coding, the stamped one is X-VGI-Content-Encoding iff the flag says VGI-only, its value is the negotiated coding, a header is stamped iff the body is coded (by the middleware: the whole body, in order, through the compressor of that very coding, zstd size header = body length, gzip wrapper; or by the producer), and an Arrow response with a non-empty file body and a negotiated coding is always coded. The producer slice: it compresses with exactly the published codec name and raises the pre-compressed flag only when it did.",
    "level_note": "Assumes: str.split(',') returns a list of strings (the proof covers every list); str.strip()/lower() are uninterpreted idempotent functions shared by code and specification; falcon runs process_request before and process_response after the responder on the same req.context and in the same contextvars context; zstandard/zlib compressors produce a frame that decodes to the concatenation of the bytes fed to them (C18 bounded stand-in) - 'the decoded body is identical' rests on that; a stream whose first seek succeeds can seek back. NOT reduced: that the IPC writer of the producer writes only through the sink the slice built (pyarrow), the wiring of _levels from make_wsgi_app (read natively by the bounded stand-in), responders other than the streaming producer never set the pre-compressed flag. Loop termination not verified; engine + z3/cvc5 trusted.",
    "technique": "contract-based deductive verification: loop invariant over an abstract token list with a finite (16-state) accumulator, exhaustive enumeration of the finite parsed-list domain on the real chooser, abstract falcon records with ghost body/compressor state and loop invariants, executed backward slice of the producer turn; VCs by pyvc, z3 then cvc5; labelled bounded stand-in on the real WSGI app",
    "design_ref": "DESIGN.md §5 C19",
}
EXPLANATION = MANIFEST["level_text"]
TRUSTED = [
    "pyvc VC generator, slicer (pyvc/slicing.py) and its encoding of Python str/bytes/lists (DESIGN §3.1)",
    "z3 5.1.0 / cvc5 1.4.0",
    "str.split(','): returns a list of str (by-contract handler answering with an arbitrary symbolic list of tokens; the specification is stated over that list)",
    "falcon: process_request / responder / process_response of one request share req.context and the contextvars context; resp.set_header(name, value) sets exactly that header; resp.data / resp.stream are the body",
    "zstandard.ZstdCompressor(level).compress / .stream_writer(out, size=n) and zlib.compressobj(level, DEFLATED, 31).compress/.flush(Z_FINISH): the emitted frame decodes to the concatenation of the fed bytes (exercised on the real libraries by the bounded stand-ins of C18 and of this file)",
]
ASSUMPTIONS = [
    "str.strip()/str.lower() are uninterpreted idempotent functions (the specification's token name uses the same functions); Unicode whitespace/case folding not modelled",
    "a response stream that supports seek(0, 2) also supports seeking back to the remembered position; tell() is monotone in the position",
    "the bytes between tell() and the end of a seekable stream are what read() returns afterwards",
    "only the streaming producer (_run_http_producer_turn) sets _current_body_precompressed between process_request and process_response",
    "pyarrow: new_ipc_stream(sink, ...) writes the IPC stream through `sink` only; pa.CompressedOutputStream(buf, name) either raises or compresses with codec `name` (Arrow's 'zstd'/'gzip' frames are the HTTP codings of the same name)",
    "termination of the compress loops is not verified",
]

ENC = codec.Encoding
ALL = list(ENC)
CODE = {e: i + 1 for i, e in enumerate(ALL)}  # 0 = "names no known coding"
DEDUP = [list(p) for r in range(len(ALL) + 1) for p in itertools.permutations(ALL, r)]  # the 16 duplicate-free lists
SUBSETS = [tuple(e for i, e in enumerate(ALL) if (m >> i) & 1) for m in range(1 << len(ALL))]
STD_HEADER, VGI_HEADER = "Accept-Encoding", "X-VGI-Accept-Encoding"
STD_OUT, VGI_OUT = "Content-Encoding", "X-VGI-Content-Encoding"


# ==========================================================================================
# the specification's vocabulary (from the property statement)
# ==========================================================================================


def spec_name_t(raw_t: Any) -> Any:
    """Name of a header token: blanks and case ignored, a ``;q=...`` parameter dropped."""
    t = models.PY_LOWER(models.PY_STRIP(raw_t))
    semi = z3.StringVal(";")
    return z3.If(z3.Contains(t, semi), models.PY_STRIP(models.STR_BEFORE_FIRST(t, semi)), t)


def code_of_name_t(name_t: Any) -> Any:
    r: Any = z3.IntVal(0)
    for e in reversed(ALL):
        r = z3.If(name_t == z3.StringVal(e.value), z3.IntVal(CODE[e]), r)
    return r


def py_name(raw: str) -> str:
    t = raw.strip().lower()
    return t.partition(";")[0].strip() if ";" in t else t


def py_known(names: list[str]) -> list[Any]:
    """Known codings in order of first occurrence (native judge)."""
    firsts = {e: names.index(e.value) for e in ALL if e.value in names}
    return sorted(firsts, key=lambda e: firsts[e])


def py_pref(custom: list[Any], standard: list[Any]) -> list[Any]:
    """The client's preference order with the VGI header taking precedence."""
    return list(custom) + [e for e in standard if e not in custom]


def py_spec_choice(custom: list[Any], standard: list[Any], producible: Any) -> tuple[Any, str | None]:
    """(coding, announcing header) per the property statement; (None, None) = no coding."""
    first = next((e for e in py_pref(custom, standard) if e is ENC.IDENTITY or e in producible), None)
    if first is None or first is ENC.IDENTITY:
        return None, None
    return first, (VGI_OUT if first in custom and first not in standard else STD_OUT)


# ==========================================================================================
# C19.O1  parse_encoding_list
# ==========================================================================================


class _Choice(Shape):  # noqa: F405
    """Havoc shape of a loop variable ranging over a finite set of concrete values (one path each)."""

    def __init__(self, make: Any) -> None:
        self.make = make

    def fresh(self, name: str) -> Any:
        vals = self.make()
        return vals[V.ctx().choose(len(vals))]


def _tokens(S: Any) -> tuple[Any, Any, Any]:
    """An arbitrary token list: (z3 length, tok: Int -> String, KIND: Int -> Int) where KIND(j) is *defined*
    as the code of the coding named by token j (the defining instance is added wherever the code reads token j)."""
    n = z3.Int(S.fresh_name("tokens_len"))
    S.assume(n >= 0)
    tok = z3.Function(S.fresh_name("token"), z3.IntSort(), z3.StringSort())
    kind = z3.Function(S.fresh_name("token_kind"), z3.IntSort(), z3.IntSort())
    return n, tok, kind


def _split_by_contract(S: Any, n: Any, tok: Any, kind: Any) -> Any:
    def getf(j: Any) -> Any:
        S.assume(kind(j) == code_of_name_t(spec_name_t(tok(j))))  # definition of KIND at the index being read
        return SStr(tok(j))

    def split(S_: Any, hv: Any, sep: Any = None, *a: Any) -> Any:
        S.oblige("O1.header_is_split_at_commas", sep == "," and not a, kind="pre")
        return SList(StrShape, getf, n)

    return split


def _occurs(kind: Any, e: Any, upto: Any) -> Any:
    return ExistsInt(lambda j: And(j >= 0, j < upto, SBool(kind(j.t) == CODE[e])))


def _never(kind: Any, e: Any, upto: Any) -> Any:
    return ForAllInt(lambda j: Implies(And(j >= 0, j < upto), SBool(kind(j.t) != CODE[e])))


def _first_before(kind: Any, a: Any, b: Any, upto: Any) -> Any:
    """Coding ``a`` is named before the first token naming ``b``."""
    return ExistsInt(
        lambda j1: And(j1 >= 0, j1 < upto, SBool(kind(j1.t) == CODE[a]), ForAllInt(lambda j: Implies(And(j >= 0, j <= j1), SBool(kind(j.t) != CODE[b]))))
    )


def _dedup_facts(prefix: str, out: Any, kind: Any, upto: Any) -> list[tuple[str, Any]]:
    """`out` is the order-preserving dedup of the known codings named by tokens [0, upto)."""
    wellformed = isinstance(out, list) and all(isinstance(e, ENC) for e in out) and len(set(out)) == len(out)
    items: list[tuple[str, Any]] = [(f"{prefix}lists_codings_each_at_most_once", wellformed)]
    if not wellformed:
        return items
    for e in ALL:
        if e in out:
            items.append((f"{prefix}{e.value}_listed_only_if_a_token_names_it", _occurs(kind, e, upto)))
        else:
            items.append((f"{prefix}{e.value}_omitted_only_if_no_token_names_it", _never(kind, e, upto)))
    for i, a in enumerate(out):
        for b in out[i + 1 :]:
            items.append((f"{prefix}{a.value}_before_{b.value}_follows_first_occurrence", _first_before(kind, a, b, upto)))
    return items


def replay_parse(inputs: dict[str, Any], ob: Any) -> ReplayResult:
    toks = [t if isinstance(t, str) else "" for t in inputs.get("tokens", [])]
    names = inputs.get("token_names", [])
    for i, t in enumerate(toks):
        # the model interprets the abstracted strip()/lower() freely: replay the normalised token itself
        if i < len(names) and isinstance(names[i], str) and py_name(t) != names[i]:
            toks[i] = names[i]
    toks = [t.replace(",", " ") for t in toks]
    header = ",".join(toks)
    try:
        got = codec.parse_encoding_list(header)
    except Exception as e:
        return ReplayResult(True, f"parse_encoding_list({header!r}) raised {type(e).__name__}: {e}")
    want = py_known([py_name(r) for r in header.split(",")])
    return ReplayResult(got != want, f"parse_encoding_list({header!r}) = {[getattr(e, 'value', e) for e in got]}, order-preserving dedup of the known tokens = {[e.value for e in want]}")


def search_parse(ob: Any, seed: int) -> Any:
    import random

    rnd = random.Random(seed)
    alphabet = ["zstd", "gzip", "identity", " GZip ", "ZSTD;q=0.5", "br", "", "identity ; q=0", "deflate", "x-gzip", "gzip;q=1"]
    for _ in range(3000):
        toks = [rnd.choice(alphabet) for _ in range(rnd.randint(0, 5))]
        rr = replay_parse({"tokens": toks}, ob)
        if rr.confirmed:
            return {"tokens": toks}, rr
    return None


@unit(
    "C19.O1 parse_encoding_list: order-preserving dedup of the known tokens (any token list)",
    targets=["vgi_rpc/_codec.py::parse_encoding_list"],
    replay=replay_parse,
    search=search_parse,
    min_obligations=60,
)
def parse_list(S: Any) -> None:
    S.syntactic_pruning = True  # every branch of the loop body is feasible (first-match chain over distinct names): no solver calls for pruning
    n, tok, kind = _tokens(S)
    S.inputs["tokens"] = SList(StrShape, lambda j: SStr(tok(j)), n)
    S.inputs["token_names"] = SList(StrShape, lambda j: SStr(spec_name_t(tok(j))), n)
    S.handlers["HeaderValue.split"] = _split_by_contract(S, n, tok, kind)
    key = ("parse_encoding_list", 0)

    def inv(L: Any) -> list[tuple[str, Any]]:
        facts = _dedup_facts("", L.out, kind, L.idx)
        items = [facts[0], ("out_is_the_dedup_of_the_known_tokens_so_far", And(*[g for _, g in facts[1:]]))]
        try:
            seen = L.seen  # helper set of the current implementation (absent after a refactor: nothing to say about it)
        except Unsupported:
            return items
        return items + [("seen_is_the_set_of_listed_codings", isinstance(seen, set) and isinstance(L.out, list) and seen == set(L.out))]

    S.invariants[key] = inv
    S.loop_havoc[key] = {"out": _Choice(lambda: [list(x) for x in DEDUP]), "seen": _Choice(lambda: [set(x) for x in SUBSETS])}
    out = S.outcome(codec.parse_encoding_list, SObj(None, kind="HeaderValue"))
    S.oblige("O1.never_raises", out.returned, kind="raises")
    if not out.returned:
        return
    for name, goal in _dedup_facts("O1.result_", out.value, kind, SInt(n)):
        S.oblige(name, goal)
    if isinstance(out.value, list) and len(out.value) == 2:
        S.canary("O1.canary.never_two_codings", False)
    if isinstance(out.value, list) and out.value == [ENC.GZIP, ENC.ZSTD]:
        # wrong claim: "zstd always wins the first place" - refuted by a header naming gzip first
        S.canary("O1.canary.zstd_always_first", _first_before(kind, ENC.ZSTD, ENC.GZIP, SInt(n)))


# ==========================================================================================
# C19.O2  _CompressionMiddleware._pick_response_encoding (parse_encoding_list by contract: O1)
# ==========================================================================================


def _native_mw(levels: dict[Any, int]) -> Any:
    m = mw._CompressionMiddleware.__new__(mw._CompressionMiddleware)
    m._levels = dict(levels)
    m._decode = tuple(levels)
    m._max_decompressed_bytes = None
    return m


class _NativeReq:
    def __init__(self, headers: dict[str, Any]) -> None:
        self._headers = headers
        self.context = types.SimpleNamespace()

    def get_header(self, name: str, *a: Any, **k: Any) -> Any:
        return self._headers.get(name)


def _enc_list(names: Any) -> list[Any]:
    return [ENC[n] for n in names]


def replay_pick(inputs: dict[str, Any], ob: Any) -> ReplayResult:
    custom, standard, prod = _enc_list(inputs["custom"]), _enc_list(inputs["standard"]), _enc_list(inputs["producible"])
    headers = {
        VGI_HEADER: None if inputs.get("custom_absent") else ", ".join(e.value for e in custom),
        STD_HEADER: None if inputs.get("standard_absent") else ", ".join(e.value for e in standard),
    }
    try:
        chosen, flag = _native_mw({e: 3 for e in prod})._pick_response_encoding(_NativeReq(headers))
    except Exception as e:
        return ReplayResult(True, f"_pick_response_encoding raised {type(e).__name__}: {e}")
    want, where = py_spec_choice(custom, standard, prod)
    bad = chosen is not want or (want is not None and bool(flag) != (where == VGI_OUT))
    return ReplayResult(
        bad,
        f"{VGI_HEADER}={headers[VGI_HEADER]!r} {STD_HEADER}={headers[STD_HEADER]!r} producible={[e.value for e in prod]}: chose {getattr(chosen, 'value', chosen)} (custom-header flag {flag}); "
        f"first producible-or-identity entry of the preference order: {getattr(want, 'value', want)} announced on {where}",
    )


@unit(
    "C19.O2 _pick_response_encoding: first producible entry of the preference order, VGI header first (all parsed-list pairs x producible sets)",
    targets=["vgi_rpc/http/server/_middleware.py::_CompressionMiddleware._pick_response_encoding"],
    replay=replay_pick,
    min_obligations=8000,
    max_paths=6000,
    by_contract=["vgi_rpc/_codec.py::parse_encoding_list (C19.O1)"],
)
def pick(S: Any) -> None:
    custom, standard, prod = DEDUP[S.choose(len(DEDUP))], DEDUP[S.choose(len(DEDUP))], SUBSETS[S.choose(len(SUBSETS))]
    # a header that yields no known coding may also simply be absent
    absent = {VGI_HEADER: not custom and S.choose(2) == 1, STD_HEADER: not standard and S.choose(2) == 1}
    parsed = {VGI_HEADER: custom, STD_HEADER: standard}
    S.inputs.update({"custom": [e.name for e in custom], "standard": [e.name for e in standard], "producible": [e.name for e in prod], "custom_absent": absent[VGI_HEADER], "standard_absent": absent[STD_HEADER]})

    def get_header(S_: Any, r: Any, name: Any, *a: Any, **k: Any) -> Any:
        if name not in parsed:
            raise Unsupported(f"contract view of the request has no header {name!r}")
        S.event("get_header", name)
        return None if absent[name] else SObj(None, kind="HeaderValue", header=name)

    def parse(S_: Any, hv: Any) -> Any:
        # by contract (C19.O1): the duplicate-free list of the known codings the header names, in order of first occurrence
        if isinstance(hv, str):
            S.oblige("O2.only_the_empty_string_stands_in_for_an_absent_header", hv == "", kind="pre")
            return []
        return list(parsed[hv.fields["header"]])

    S.handlers["Request.get_header"] = get_header
    S.handlers["HeaderValue.__bool__"] = lambda S_, hv: True
    S.handlers[codec.parse_encoding_list] = parse
    # what the server can *decode* is configured independently of what it can produce
    me = SObj(mw._CompressionMiddleware, _levels={e: 3 for e in prod}, _decode=(ENC.ZSTD, ENC.GZIP), _max_decompressed_bytes=None)
    out = S.outcome(mw._CompressionMiddleware._pick_response_encoding, me, SObj(None, kind="Request"))
    S.oblige("O2.never_raises", out.returned, kind="raises")
    if not out.returned:
        return
    v = out.value
    shaped = isinstance(v, tuple) and len(v) == 2 and (v[0] is None or isinstance(v[0], ENC)) and isinstance(v[1], bool)
    S.oblige("O2.returns_a_coding_or_none_and_a_flag", shaped)
    if not shaped:
        return
    chosen, flag = v
    pref = py_pref(custom, standard)  # VGI header first, then what only the standard header offers
    can = lambda e: e is ENC.IDENTITY or e in prod  # noqa: E731  "the server can produce it" (identity: always)
    if chosen is None:
        first = next((e for e in pref if can(e)), None)
        S.oblige("O2.no_coding_only_when_identity_comes_first_or_nothing_overlaps", first is None or first is ENC.IDENTITY)
    else:
        S.oblige("O2.chosen_coding_was_offered_by_the_client", chosen in pref)
        S.oblige("O2.chosen_coding_is_producible", chosen in prod)
        S.oblige("O2.identity_is_never_a_coding", chosen is not ENC.IDENTITY)
        if chosen in pref:
            S.oblige("O2.nothing_preferred_earlier_is_producible_or_identity", not any(can(e) for e in pref[: pref.index(chosen)]))
        S.oblige("O2.custom_header_flag_iff_offered_on_the_vgi_header_only", flag == (chosen in custom and chosen not in standard))
    if custom == [ENC.ZSTD] and standard == [ENC.GZIP, ENC.ZSTD] and set(prod) == {ENC.ZSTD, ENC.GZIP}:
        S.canary("O2.canary.standard_header_order_wins", chosen is ENC.GZIP)
    if not custom and standard == [ENC.GZIP] and prod == (ENC.GZIP,):
        S.canary("O2.canary.only_the_vgi_header_counts", chosen is None)


# ==========================================================================================
# C19.O4  process_request: the choice is recorded for the response and published to the producer
# ==========================================================================================


def replay_request(inputs: dict[str, Any], ob: Any) -> ReplayResult:
    chosen = ENC[inputs["chosen"]] if inputs.get("chosen") else None
    flag = bool(inputs.get("flag"))
    req = _NativeReq({"Content-Encoding": "" if inputs.get("empty_content_encoding") else None})
    m = _native_mw({e: 3 for e in (ENC.ZSTD, ENC.GZIP)})

    def run() -> tuple[Any, Any]:
        mw._current_response_codec.set("stale")
        mw._current_body_precompressed.set(True)
        with mock.patch.object(mw._CompressionMiddleware, "_pick_response_encoding", lambda self, r: (chosen, flag)):
            m.process_request(req, None)
        return mw._current_response_codec.get(), mw._current_body_precompressed.get()

    try:
        published, pre = contextvars.copy_context().run(run)
    except Exception as e:
        return ReplayResult(True, f"process_request raised {type(e).__name__}: {e}")
    want = chosen.value if chosen in (ENC.ZSTD, ENC.GZIP) else None
    problems = []
    if published != want:
        problems.append(f"published codec {published!r}, expected {want!r}")
    if pre is not False:
        problems.append("pre-compressed flag not reset")
    if getattr(req.context, "response_encoding", "<unset>") is not chosen:
        problems.append("response_encoding is not the choice")
    if getattr(req.context, "use_custom_encoding_header", "<unset>") != flag:
        problems.append("use_custom_encoding_header is not the flag")
    return ReplayResult(bool(problems), f"choice=({getattr(chosen, 'value', None)}, {flag}): published={published!r} precompressed={pre} context={vars(req.context)}; " + "; ".join(problems))


@unit(
    "C19.O4 process_request: choice recorded on req.context, codec name published to the producer only for zstd/gzip",
    targets=["vgi_rpc/http/server/_middleware.py::_CompressionMiddleware.process_request"],
    replay=replay_request,
    min_obligations=40,
    by_contract=["vgi_rpc/http/server/_middleware.py::_CompressionMiddleware._pick_response_encoding (C19.O2)"],
)
def request_side(S: Any) -> None:
    # by contract the choice is any coding or None (O2 narrows it to a producible non-identity coding; the wider
    # range makes "only for zstd/gzip" a statement about this function alone)
    chosen = [None, ENC.ZSTD, ENC.GZIP, ENC.IDENTITY][S.choose(4)]
    flag = S.choose(2) == 1
    # the request body: uncoded (no / empty Content-Encoding), or coded and refused while decoding (unknown coding 415,
    # undecodable 400, over the cap 413 - decoding itself is C17); a refused request is still *answered*, and
    # process_response reads the same per-request variables for that answer
    body_case = ["absent", "empty", "unknown_coding", "undecodable", "over_cap"][S.choose(5)]
    empty_ce = body_case == "empty"
    S.inputs.update({"chosen": chosen.name if chosen else None, "flag": flag, "empty_content_encoding": empty_ce, "request_body": body_case})

    def decompress(S_: Any, enc: Any, data: Any, max_output_size: Any = None) -> Any:
        import vgi_rpc._codec as _codec

        if body_case == "over_cap":
            raise PyRaise(SExc(_codec.DecompressionLimitExceeded, ("too large",)))
        raise PyRaise(SExc(_codec.DecompressionError, ("garbage",)))

    S.handlers["decompress"] = decompress
    S.handlers["Request.bounded_stream@get"] = lambda S_, r: SObj(None, kind="BodyStream")
    S.handlers["BodyStream.read"] = lambda S_, b, *a: S.bytes("wire_body")
    for cls in (falcon.HTTPUnsupportedMediaType, falcon.HTTPBadRequest, falcon.HTTPContentTooLarge):
        S.handlers[cls] = (lambda c: lambda S_, **kw: SExc(c, (), dict(kw)))(cls)
    S.handlers["_CompressionMiddleware._pick_response_encoding"] = lambda S_, m, r: (chosen, flag)

    other_headers: dict[str, Any] = {}

    def get_header(S_: Any, r: Any, name: Any, *a: Any, **k: Any) -> Any:
        if name == "Content-Encoding":
            return {"absent": None, "empty": "", "unknown_coding": "br", "undecodable": "gzip", "over_cap": "zstd"}[body_case]
        # any other header (the two accept headers included) is present with some value or absent: whatever the request
        # carried, what is published for the producer must be this request's negotiated coding (by-contract `chosen`)
        if name not in other_headers:
            other_headers[name] = S.str("header_" + str(name).lower().replace("-", "_")) if S.choose(2) == 1 else None
        v = other_headers[name]
        return v if v is not None else (a[0] if a else k.get("default"))

    S.handlers["Request.get_header"] = get_header
    ctx = SObj(None, kind="ReqContext")
    ctx.closed = True
    req = SObj(None, kind="Request", context=ctx)
    # stale values of a previous request handled by the same worker thread
    S.ghost["__ctxvars__"] = {mw._current_response_codec: "stale", mw._current_body_precompressed: True}
    me = SObj(mw._CompressionMiddleware, _levels={ENC.ZSTD: 3, ENC.GZIP: 6}, _decode=(ENC.ZSTD, ENC.GZIP), _max_decompressed_bytes=None)
    out = S.outcome(mw._CompressionMiddleware.process_request, me, req, SObj(None, kind="Response"))
    if body_case in ("absent", "empty"):
        S.oblige("O4.never_raises_for_an_uncoded_request", out.returned, kind="raises")
    else:
        S.oblige("O4.a_refused_body_raises_an_http_error", out.raised and exc_is(out.exc, falcon.HTTPError), kind="raises", witness=body_case)
    store = S.ghost["__ctxvars__"]
    published = store.get(mw._current_response_codec, "<unset>")
    want = chosen.value if chosen in (ENC.ZSTD, ENC.GZIP) else None
    S.oblige("O4.codec_published_to_the_producer_only_for_zstd_or_gzip", published is None if want is None else (isinstance(published, str) and published == want), kind="trace")
    S.oblige("O4.published_codec_is_the_negotiated_coding", published is None or (chosen is not None and published == chosen.value), kind="trace")
    S.oblige("O4.precompressed_flag_reset_for_this_request", store.get(mw._current_body_precompressed, "<unset>") is False, kind="trace")
    S.oblige("O4.choice_recorded_for_the_response", ctx.fields.get("response_encoding", "<unset>") is chosen, kind="trace")
    S.oblige("O4.header_flag_recorded_for_the_response", ctx.fields.get("use_custom_encoding_header", "<unset>") is flag, kind="trace")
    if chosen is ENC.ZSTD:
        S.canary("O4.canary.nothing_is_ever_published", published is None)


# ==========================================================================================
# C19.O3  process_response: header arms + what is done to the body
# ==========================================================================================

ARROW = mw._ARROW_CONTENT_TYPE
EMPTY = z3.StringVal("")
STREAM_KINDS = ["none", "not_a_file", "unseekable", "seek_raises", "seekable"]


def sbytes(name: str) -> Any:
    return SBytes(z3.String(V.fresh_name(name)))


def bt(x: Any) -> Any:
    return V.bytesterm(x)


def blen(x: Any) -> Any:
    return SInt(z3.Length(bt(x)))


def bcat(a: Any, b: Any) -> Any:
    return SBytes(z3.Concat(bt(a), bt(b)))


class _Libs:
    """Abstract response stream + assumed compressor externals over ghost state:
    ``rest`` body bytes not yet read, ``fed`` bytes handed to the compressor so far (in order),
    ``emitted`` what the compressor has produced so far, ``pos`` where the stream cursor is."""

    def __init__(self, S: Any, kind: str, body: Any) -> None:
        self.S, self.kind, self.body = S, kind, body
        g = S.ghost
        g["rest"], g["fed"], g["emitted"] = body, SBytes(EMPTY), SBytes(EMPTY)
        g["pos"] = "start"
        self.cur, self.end = S.int("stream_position"), S.int("stream_end")
        S.assume(And(self.cur >= 0, self.end >= self.cur))
        if kind == "seekable":
            S.assume(blen(body) == self.end - self.cur)  # the bytes between tell() and the end are the body
        self.stream = SObj(None, kind="Stream")
        self.stream.closed = True
        H = S.handlers
        H["Stream.__isinstance__"] = lambda S_, v, cls: kind != "not_a_file" if cls is mw.IOBase else False
        H["Stream.read"] = self.read
        if kind in ("seek_raises", "seekable"):
            H["Stream.seek"] = self.seek
            H["Stream.tell"] = self.tell
        H[zstandard.ZstdCompressor] = self.zstd_compressor
        H["ZstdCctx.compress"] = self.zstd_oneshot
        H["ZstdCctx.stream_writer"] = self.zstd_stream_writer
        H["ZstdWriter.__enter__"] = lambda S_, w: w
        H["ZstdWriter.__exit__"] = self.zstd_writer_exit
        H["ZstdWriter.write"] = self.zstd_write
        H[mw.BytesIO] = lambda S_, *a: SObj(None, kind="BytesIO")
        H["BytesIO.getvalue"] = self.sink_getvalue
        H[zlib.compressobj] = self.zlib_compressobj
        H["ZlibCobj.compress"] = self.zlib_compress
        H["ZlibCobj.flush"] = self.zlib_flush
        S.assume_external("zstandard / zlib compressor objects", "assumed: the frame they emit decodes to the concatenation of the bytes fed to them")

    # ---- the response stream ------------------------------------------------------------------
    def tell(self, S: Any, st: Any) -> Any:
        return self.end if S.ghost["pos"] == "end" else self.cur

    def seek(self, S: Any, st: Any, off: Any, whence: Any = 0) -> Any:
        S.event("seek", off, whence)
        if self.kind == "seek_raises":
            raise PyRaise(SExc(mw.IOBase and io.UnsupportedOperation, ("underlying stream is not seekable",)))
        if whence == 2 and isinstance(off, int) and off == 0:
            S.ghost["pos"] = "end"
            return self.end
        if whence == 0 and off is self.cur:
            S.ghost["pos"] = "start"
            return self.cur
        S.ghost["pos"] = "elsewhere"
        return off

    def read(self, S: Any, st: Any, n: Any = None) -> Any:
        if S.ghost["pos"] != "start":
            S.event("read_away_from_the_body_start", S.ghost["pos"])
        rest = S.ghost["rest"]
        if n is None or (isinstance(n, int) and n < 0):
            S.ghost["rest"] = SBytes(EMPTY)
            return rest
        S.oblige("O3.bounded_read_asks_for_at_least_one_byte", n >= 1, kind="pre")
        chunk, rest2 = sbytes("chunk"), sbytes("rest")
        S.assume(eq(rest, bcat(chunk, rest2)))
        S.assume(blen(chunk) <= n)
        S.assume(Implies(blen(rest) >= 1, blen(chunk) >= 1))  # file semantics: empty only at end of stream
        S.ghost["rest"] = rest2
        return chunk

    # ---- compressors ----------------------------------------------------------------------------
    def feed(self, data: Any) -> None:
        self.S.ghost["fed"] = bcat(self.S.ghost["fed"], data)

    def zstd_compressor(self, S: Any, *a: Any, **kw: Any) -> Any:
        S.event("compressor", "zstd", a[0] if a else kw.get("level"))
        return SObj(None, kind="ZstdCctx")

    def zstd_oneshot(self, S: Any, c: Any, data: Any) -> Any:
        self.feed(data)
        frame = sbytes("zstd_frame")
        S.ghost["emitted"] = frame
        S.event("frame_complete", "zstd")
        return frame

    def zstd_stream_writer(self, S: Any, c: Any, sink: Any, size: Any = -1, **kw: Any) -> Any:
        S.event("stream_writer", sink, size)
        return SObj(None, kind="ZstdWriter", sink=sink)

    def zstd_write(self, S: Any, w: Any, chunk: Any) -> Any:
        self.feed(chunk)
        return blen(chunk)

    def zstd_writer_exit(self, S: Any, w: Any, *a: Any) -> Any:
        if a and a[0] is None:
            S.ghost["emitted"] = sbytes("zstd_stream_frame")  # the frame is complete once the writer is closed
            S.event("frame_complete", "zstd")
            w.fields["sink"].fields["frame"] = S.ghost["emitted"]
        return False

    def sink_getvalue(self, S: Any, b: Any) -> Any:
        S.oblige("O3.zstd_frame_taken_after_the_writer_was_closed", "frame" in b.fields, kind="pre")
        return b.fields.get("frame", sbytes("incomplete_frame"))

    def zlib_compressobj(self, S: Any, *a: Any, **kw: Any) -> Any:
        S.event("compressor", "gzip", *a)
        return SObj(None, kind="ZlibCobj")

    def zlib_compress(self, S: Any, c: Any, data: Any) -> Any:
        self.feed(data)
        piece = sbytes("gzip_piece")
        S.ghost["emitted"] = bcat(S.ghost["emitted"], piece)
        return piece

    def zlib_flush(self, S: Any, c: Any, mode: Any = zlib.Z_FINISH) -> Any:
        piece = sbytes("gzip_tail")
        S.ghost["emitted"] = bcat(S.ghost["emitted"], piece)
        if mode == zlib.Z_FINISH:
            S.event("frame_complete", "gzip")
        return piece

    # ---- loop contracts -----------------------------------------------------------------------------
    def install_loops(self) -> None:
        S, body = self.S, self.body
        q = "_CompressionMiddleware.process_response"

        def everything_read_was_fed(L: Any) -> tuple[str, Any]:
            return ("bytes_read_so_far_were_fed_to_the_compressor_in_order", eq(bcat(S.ghost["fed"], S.ghost["rest"]), body))

        S.invariants[(q, 0)] = lambda L: [everything_read_was_fed(L)]
        S.loop_ghost[(q, 0)] = ["fed", "rest"]

        def gzip_inv(L: Any) -> list[tuple[str, Any]]:
            pieces = L.pieces
            cat = SBytes(EMPTY) if isinstance(pieces, list) and not pieces else (SBytes(pieces.cat) if isinstance(pieces, SList) and pieces.cat is not None else None)
            return [everything_read_was_fed(L), ("pieces_are_the_compressor_output_so_far", eq(cat, S.ghost["emitted"]) if cat is not None else False)]

        S.invariants[(q, 1)] = gzip_inv
        S.loop_ghost[(q, 1)] = ["fed", "rest", "emitted"]
        S.loop_havoc[(q, 1)] = {"pieces": ListShape(BytesShape)}


class _NativeResp:
    def __init__(self, content_type: Any, stream: Any) -> None:
        self.content_type, self.stream, self.data = content_type, stream, None
        self.headers: list[tuple[str, str]] = []

    def set_header(self, name: str, value: str) -> None:
        self.headers.append((name, value))


class _Unseekable(io.BytesIO):
    def seek(self, *a: Any) -> int:
        raise io.UnsupportedOperation("not seekable")


def native_response(enc: Any, flag: Any, ctype: Any, pre: bool, kind: str, body: bytes, level: int, position: int = 0) -> tuple[bool, str]:
    """Run the real process_response on native stand-ins and judge C19.O3."""
    if kind == "none":
        stream: Any = None
    elif kind == "not_a_file":
        stream = [body]
    elif kind in ("unseekable", "seek_raises"):
        stream = _Unseekable(body)
    else:
        stream = io.BytesIO(b"\x00" * position + body)
        stream.seek(position)
    req = _NativeReq({})
    if enc != "absent":
        req.context.response_encoding = enc
    if flag != "absent":
        req.context.use_custom_encoding_header = flag
    resp = _NativeResp(ctype, stream)
    levels = {e: (level if e is ENC.ZSTD else 6) for e in (ENC.ZSTD, ENC.GZIP)}

    def run() -> None:
        mw._current_body_precompressed.set(pre)
        _native_mw(levels).process_response(req, resp, None, True)

    try:
        contextvars.copy_context().run(run)
    except Exception as e:
        return True, f"process_response raised {type(e).__name__}: {e}"
    negotiated = enc if isinstance(enc, ENC) else None
    coding = [(n, v) for n, v in resp.headers if n in (STD_OUT, VGI_OUT)]
    problems = []
    if len(coding) > 1:
        problems.append("both coding headers stamped")
    if negotiated is None and (coding or resp.data is not None):
        problems.append("coded/announced without a negotiated coding")
    if coding:
        name, value = coding[0]
        if name != (VGI_OUT if flag is True else STD_OUT):
            problems.append(f"announced on {name}")
        if negotiated is not None and value != negotiated.value:
            problems.append(f"announced {value!r}, negotiated {negotiated.value!r}")
        if not pre:
            try:
                decoded = codec.decompress(ENC(value), resp.data) if resp.data is not None else None
            except Exception as e:
                decoded = f"<undecodable: {type(e).__name__}>"
            if decoded != body or resp.stream is not None:
                problems.append(f"announced body does not decode to the original ({len(body)}B)")
    else:
        if resp.data is not None:
            problems.append("body replaced but no coding announced")
        if pre and negotiated is not None and ctype == ARROW:
            problems.append("producer-compressed body sent without a coding header")
        if negotiated is not None and ctype == ARROW and not pre and kind in ("unseekable", "seek_raises", "seekable") and body:
            problems.append("Arrow file body with a negotiated coding left uncoded")
    detail = f"negotiated={getattr(negotiated, 'value', None)} flag={flag} content_type={ctype!r} producer_compressed={pre} stream={kind} body={len(body)}B: headers={resp.headers} data={'None' if resp.data is None else str(len(resp.data)) + 'B'}"
    return bool(problems), detail + ("; " + "; ".join(problems) if problems else "")


def _enc_in(v: Any) -> Any:
    return "absent" if v == "absent" else (ENC[v] if v else None)


def replay_response(inputs: dict[str, Any], ob: Any) -> ReplayResult:
    body = inputs.get("body", b"")
    body = body if isinstance(body, bytes) else b""
    ctype = inputs.get("content_type", ARROW)
    level = inputs.get("level", 3)
    level = level if isinstance(level, int) and 1 <= level <= 19 else 3
    pos = inputs.get("stream_position", 0)
    pos = pos if isinstance(pos, int) and 0 <= pos <= 1 << 16 else 0
    bad, detail = native_response(_enc_in(inputs.get("encoding")), inputs.get("flag", "absent"), ctype if isinstance(ctype, str) else ARROW, bool(inputs.get("producer_compressed")), inputs.get("stream_kind", "seekable"), body, level, pos)
    return ReplayResult(bad, detail)


def search_response(ob: Any, seed: int) -> Any:
    for enc in (ENC.ZSTD, ENC.GZIP, None, "absent"):
        for flag in (True, False, "absent"):
            for pre in (False, True):
                for kind in STREAM_KINDS:
                    for body in (b"", b"x", b"arrow" * 40000):
                        for ctype in (ARROW, "text/html"):
                            if pre and (ctype != ARROW or not isinstance(enc, ENC)):
                                continue
                            bad, detail = native_response(enc, flag, ctype, pre, kind, body, 3, 5)
                            if bad:
                                return {"encoding": enc.name if isinstance(enc, ENC) else enc, "flag": flag, "producer_compressed": pre, "stream_kind": kind, "body": body[:64], "content_type": ctype}, ReplayResult(True, detail)
    return None


@unit(
    "C19.O3 process_response: one coding header, on the negotiated header, iff the body is coded with the negotiated coding (middleware arm and producer arm)",
    targets=["vgi_rpc/http/server/_middleware.py::_CompressionMiddleware.process_response"],
    replay=replay_response,
    search=search_response,
    min_obligations=150,
)
def response_side(S: Any) -> None:
    enc = ["absent", None, ENC.ZSTD, ENC.GZIP][S.choose(4)]
    negotiated = enc if isinstance(enc, ENC) else None
    flag: Any = "absent"
    pre = False
    kind = "none"
    if negotiated is not None:
        flag = ["absent", False, True][S.choose(3)]
        pre = S.choose(2) == 1
        kind = STREAM_KINDS[S.choose(len(STREAM_KINDS))]  # the producer's own body is a seekable file too (pa.BufferReader)
    ctype = S.str("content_type")
    if pre:
        S.assume(eq(ctype, ARROW))  # the streaming producer answers with an Arrow IPC stream (O5: it compresses only a published codec)
    body = sbytes("body")
    level = S.int("level")
    S.inputs.update({"encoding": enc.name if isinstance(enc, ENC) else enc, "flag": flag, "producer_compressed": pre, "stream_kind": kind, "body": body})
    libs = _Libs(S, kind, body)
    libs.install_loops()
    context: dict[str, Any] = {}
    if enc != "absent":
        context["response_encoding"] = enc
    if flag != "absent":
        context["use_custom_encoding_header"] = flag
    ctx = SObj(None, kind="ReqContext", **context)
    ctx.closed = True
    req = SObj(None, kind="Request", context=ctx)
    resp = SObj(None, kind="Response", content_type=ctype, stream=None if kind == "none" else libs.stream)
    S.handlers["Response.set_header"] = lambda S_, r, name, value: S.event("set_header", name, value)
    S.ghost["__ctxvars__"] = {mw._current_body_precompressed: pre}
    me = SObj(mw._CompressionMiddleware, _levels={ENC.ZSTD: level, ENC.GZIP: level}, _decode=(), _max_decompressed_bytes=None)
    out = S.outcome(mw._CompressionMiddleware.process_response, me, req, resp, None, True)
    S.oblige("O3.never_raises", out.returned, kind="raises")
    if not out.returned:
        return
    headers = [(e[1], e[2]) for e in S.events("set_header")]
    coding = [h for h in headers if h[0] in (STD_OUT, VGI_OUT)]
    replaced = "data" in resp.fields
    S.oblige("O3.never_both_coding_headers", len(coding) <= 1, kind="trace")
    if negotiated is None:
        S.oblige("O3.no_coding_header_without_a_negotiated_coding", not coding, kind="trace")
        S.oblige("O3.body_untouched_without_a_negotiated_coding", not replaced and not S.events("compressor"), kind="trace")
        return
    vgi_only = flag is True
    if coding:
        name, value = coding[0]
        S.oblige("O3.announced_on_the_vgi_header_iff_negotiated_there_only", name == (VGI_OUT if vgi_only else STD_OUT), kind="trace")
        S.oblige("O3.announced_coding_is_the_negotiated_one", eq(value, negotiated.value))
        if pre:
            S.oblige("O3.producer_compressed_body_is_not_compressed_again", not replaced and not S.events("compressor"), kind="trace")
        else:
            comp = S.events("compressor")
            want = "zstd" if negotiated is ENC.ZSTD else "gzip"
            S.oblige("O3.body_goes_through_one_compressor_of_the_announced_coding", len(comp) == 1 and comp[0][1] == want, kind="trace")
            if len(comp) == 1 and comp[0][1] == want == "gzip":
                # the announced coding is gzip (RFC 1952 wrapper), not a bare zlib/deflate stream
                S.oblige("O3.gzip_frame_has_the_gzip_wrapper", len(comp[0]) >= 5 and comp[0][3] == zlib.DEFLATED and comp[0][4] == 31, kind="trace")
            S.oblige("O3.frame_is_complete", [e[1] for e in S.events("frame_complete")] == [want], kind="trace")
            S.oblige("O3.whole_body_was_fed_to_the_compressor_in_order", eq(S.ghost["fed"], body))
            S.oblige("O3.body_read_from_where_the_stream_stood", not S.events("read_away_from_the_body_start"), kind="trace")
            S.oblige("O3.response_body_is_replaced_by_the_frame", replaced and resp.fields.get("stream") is None, kind="trace")
            if replaced:
                S.oblige("O3.response_body_is_exactly_the_compressor_output", eq(resp.fields["data"], S.ghost["emitted"]) if isinstance(resp.fields["data"], (SBytes, bytes)) else False)
            for _, sink, size in S.events("stream_writer"):
                S.oblige("O3.zstd_frame_declares_the_body_length", eq(size, blen(body)) if isinstance(size, (SInt, int)) else False)
            S.canary("O3.canary.coded_body_is_never_a_single_byte", Not(blen(body) == 1))
        if vgi_only:
            S.canary("O3.canary.always_announced_on_content_encoding", name == STD_OUT)
    else:
        S.oblige("O3.uncoded_body_is_left_alone", not replaced, kind="trace")
        S.oblige("O3.producer_compressed_body_is_announced", not pre, kind="trace")
        nothing_to_code = Or(Not(eq(ctype, ARROW)), kind in ("none", "not_a_file"), blen(body) == 0)
        S.oblige("O3.arrow_file_body_with_a_negotiated_coding_is_coded", nothing_to_code)


# ==========================================================================================
# C19.O5  the producer arm: _run_http_producer_turn takes the published codec (executed slice)
# ==========================================================================================

import ast  # noqa: E402

import pyarrow as pa  # noqa: E402

import vgi_rpc.http.server._app_stream as app_stream  # noqa: E402
from pyvc import slicing  # noqa: E402


def _is_flag_set(n: ast.AST) -> bool:
    return isinstance(n, ast.Call) and isinstance(n.func, ast.Attribute) and n.func.attr == "set" and isinstance(n.func.value, ast.Name) and n.func.value.id == "_current_body_precompressed"


def _is_ipc_writer(n: ast.AST) -> bool:
    return isinstance(n, ast.Call) and isinstance(n.func, ast.Name) and n.func.id == "new_ipc_stream"


def replay_producer(inputs: dict[str, Any], ob: Any) -> ReplayResult:
    """Native: the real pa.CompressedOutputStream accepts exactly Arrow's codec names; 'zstd'/'gzip' frames are the
    HTTP codings of the same name (what the header announces decodes what the producer wrote)."""
    problems = []
    for name in ("zstd", "gzip"):
        buf = pa.BufferOutputStream()
        with pa.CompressedOutputStream(buf, name) as sink:
            sink.write(b"arrow" * 1000)
        if codec.decompress(ENC(name), buf.getvalue().to_pybytes()) != b"arrow" * 1000:
            problems.append(f"Arrow's {name} stream is not an HTTP {name} body")
    try:
        pa.CompressedOutputStream(pa.BufferOutputStream(), "identity")
        problems.append("pyarrow accepted codec 'identity'")
    except Exception:
        pass
    return ReplayResult(bool(problems), "pa.CompressedOutputStream vs _codec.decompress: " + ("; ".join(problems) or "zstd/gzip frames decode, 'identity' refused"))


@unit(
    "C19.O5 producer arm (slice of _run_http_producer_turn): compresses into the IPC sink with the published codec, flag raised only then",
    targets=["vgi_rpc/http/server/_app_stream.py::_run_http_producer_turn (backward slice of the new_ipc_stream(...) sink and the pre-compressed flag)"],
    replay=replay_producer,
    min_obligations=20,
)
def producer_arm(S: Any) -> None:
    published = [None, "zstd", "gzip"][S.choose(3)]  # O4: what process_request publishes
    owns = S.choose(2) == 1
    refuses = S.choose(2) == 1  # pyarrow may refuse the codec (not built in): the producer must then stay uncompressed
    S.inputs.update({"published": published, "owns_response_body": owns, "pyarrow_refuses": refuses})
    S.ghost["__ctxvars__"] = {mw._current_response_codec: published, mw._current_body_precompressed: False}
    plain = SObj(None, kind="BufferOutputStream")
    S.handlers[pa.BufferOutputStream] = lambda S_: plain

    def compressed_stream(S_: Any, sink: Any, name: Any) -> Any:
        S.event("compressed_stream", sink, name)
        if refuses:
            raise PyRaise(SExc(pa.ArrowNotImplementedError if hasattr(pa, "ArrowNotImplementedError") else NotImplementedError, ("codec not built",)))
        return SObj(None, kind="CompressedOutputStream", sink=sink, codec=name)

    S.handlers[pa.CompressedOutputStream] = compressed_stream
    S.handlers["CompressedOutputStream.close"] = lambda S_, c: S.event("sink_closed", c)
    S.handlers["new_ipc_stream"] = lambda S_, sink, schema: S.event("ipc_writer", sink) or SObj(None, kind="Writer")
    env = {"owns_response_body": owns, "schema": SObj(None, kind="Schema"), "_current_body_precompressed": mw._current_body_precompressed}
    # the flag variable is a module global, not a local whose definition the slice should chase
    slicing.run_slice(S, app_stream._run_http_producer_turn, lambda n: _is_flag_set(n) or _is_ipc_writer(n), env, stop={"_current_body_precompressed"})
    writers = S.events("ipc_writer")
    S.oblige("O5.one_ipc_writer_per_turn", len(writers) == 1, kind="trace")
    if len(writers) != 1:
        return
    sink = writers[0][1]
    flagged = S.ghost["__ctxvars__"].get(mw._current_body_precompressed)
    compressed = isinstance(sink, SObj) and sink.kind == "CompressedOutputStream"
    S.oblige("O5.flag_raised_iff_the_body_is_written_through_a_compressor", flagged is compressed, kind="trace")
    if compressed:
        S.oblige("O5.compressor_wraps_the_response_buffer", sink.fields["sink"] is plain, kind="trace")
        S.oblige("O5.producer_uses_exactly_the_published_codec", published is not None and sink.fields["codec"] == published, kind="trace")
        S.oblige("O5.only_a_turn_that_owns_the_whole_body_compresses", owns, kind="trace")
        S.oblige("O5.compressed_frame_is_finalised_before_the_body_is_returned", [e[1] for e in S.events("sink_closed")] == [sink], kind="trace")
        S.canary("O5.canary.producer_never_compresses", False)
    else:
        S.oblige("O5.uncompressed_turn_writes_into_the_response_buffer", sink is plain, kind="trace")
        S.oblige("O5.published_codec_is_used_when_the_turn_owns_the_body", published is None or not owns or refuses, kind="trace")


# ==========================================================================================
# bounded stand-in: the real WSGI app end to end (wiring of _levels in make_wsgi_app, real codecs)
# ==========================================================================================


def _echo_app(compression_level: Any) -> Any:
    from typing import Protocol

    from vgi_rpc import RpcServer
    from vgi_rpc.http import make_wsgi_app

    class Svc(Protocol):
        def echo(self, data: bytes) -> bytes: ...

    class Impl:
        def echo(self, data: bytes) -> bytes:
            return data

    return make_wsgi_app(RpcServer(Svc, Impl()), token_key=b"k" * 32, compression_level=compression_level)


def _request_body(payload: bytes) -> bytes:
    from pyarrow import ipc

    buf = io.BytesIO()
    schema = pa.schema([pa.field("data", pa.binary(), nullable=False)])
    md = pa.KeyValueMetadata({b"vgi_rpc.method": b"echo", b"vgi_rpc.request_version": b"1"})
    with ipc.new_stream(buf, schema) as w:
        w.write_batch(pa.RecordBatch.from_pydict({"data": [payload]}, schema=schema), custom_metadata=md)
    return buf.getvalue()


@bounded(
    "O6.real_wsgi_app_negotiation",
    bound="real make_wsgi_app (compression_level 1 / None, and VGI_HTTP_DISABLE_ZSTD=1) + falcon test client, unary echo: every pair of Accept-Encoding / X-VGI-Accept-Encoding values that is absent or a single token of an 11-token alphabet (case variants, blanks, q-parameters, unknown tokens, empty) plus seeded random lists of length <= 4; the announced header/coding is compared with the statement's rule over the live middleware's producible set and the body is decoded with the announced coding and compared with the uncoded response",
    tiers=("quick", "thorough"),
)
def standin_real_app(tier: str, seed: int) -> BoundedResult:
    import os
    import random

    import falcon.testing

    rnd = random.Random(seed)
    alphabet = ["zstd", "gzip", "identity", " GZip ", "ZSTD;q=0.5", "br", "", "identity ; q=0", "deflate", "x-gzip", "gzip;q=1"]
    values: list[Any] = [None] + alphabet
    pairs = [(c, s) for c in values for s in values]
    for _ in range(1500 if tier == "thorough" else 250):
        mk = lambda: None if rnd.random() < 0.15 else ",".join(rnd.choice(alphabet) for _ in range(rnd.randint(0, 4)))  # noqa: E731
        pairs.append((mk(), mk()))
    fails: list[str] = []
    n = 0
    raw = _request_body(b"vgi" * 700)

    def apps() -> Any:
        yield "level=1", _echo_app(1)
        yield "level=None", _echo_app(None)
        old = os.environ.get("VGI_HTTP_DISABLE_ZSTD")
        os.environ["VGI_HTTP_DISABLE_ZSTD"] = "1"
        try:
            yield "zstd disabled", _echo_app(1)
        finally:
            if old is None:
                os.environ.pop("VGI_HTTP_DISABLE_ZSTD", None)
            else:
                os.environ["VGI_HTTP_DISABLE_ZSTD"] = old

    for label, app in apps():
        live = [m for m in app._unprepared_middleware if isinstance(m, mw._CompressionMiddleware)]
        prod = set(live[0]._levels) if live else set()
        client = falcon.testing.TestClient(app)
        plain = client.simulate_post("/echo", body=raw, headers={"Content-Type": ARROW})
        if plain.status_code != 200 or plain.headers.get(STD_OUT) or plain.headers.get(VGI_OUT):
            fails.append(f"{label}: request without accept headers answered {plain.status_code} with coding headers")
            continue
        for c, s in pairs:
            h = {"Content-Type": ARROW}
            if c is not None:
                h[VGI_HEADER] = c
            if s is not None:
                h[STD_HEADER] = s
            r = client.simulate_post("/echo", body=raw, headers=h)
            n += 1
            custom = py_known([py_name(t) for t in (c or "").split(",")])
            standard = py_known([py_name(t) for t in (s or "").split(",")])
            want, where = py_spec_choice(custom, standard, prod)
            got = {k: r.headers.get(k) for k in (STD_OUT, VGI_OUT) if r.headers.get(k)}
            expect = {where: want.value} if want is not None else {}
            if r.status_code != 200 or got != expect:
                if len(fails) < 8:
                    fails.append(f"{label}: {VGI_HEADER}={c!r} {STD_HEADER}={s!r} producible={sorted(e.value for e in prod)}: status {r.status_code}, coding headers {got}, expected {expect}")
                continue
            try:
                body = codec.decompress(want, r.content) if want is not None else r.content
            except Exception as e:
                body = f"<{type(e).__name__}>".encode()
            if body != plain.content and len(fails) < 8:
                fails.append(f"{label}: {VGI_HEADER}={c!r} {STD_HEADER}={s!r}: body decoded with {getattr(want, 'value', None)} differs from the uncoded response")
    return BoundedResult(n, fails)
