"""Shared abstract world for contracts on the socket/pipe server (serve_one, _serve_unary,
_serve_stream, _read_request).  Everything here is an *assumed external* or a *by-contract
callee* modelled as a handler over ghost state; the functions under contract are always the
real ones, executed by the engine.

Externals and what is assumed of them (listed in the TRUSTED/ASSUMPTIONS of each contract file):
* pyarrow IPC writers: `new_ipc_stream(sink, schema)` is a context manager; opening writes the
  schema message, `write_batch` appends a batch, closing writes EOS.  Any of these may raise a
  connection error (BrokenPipeError / OSError) when ``world.writes_may_fail``.
* pyarrow IPC readers: `read_next_batch_with_custom_metadata()` returns the next (batch,
  metadata) of a ghost script, raises StopIteration at end of stream, or raises ArrowInvalid.
* user code (service methods, stream states, hooks): arbitrary — returns anything / raises any
  Exception.
"""

from __future__ import annotations

from typing import Any

import pyarrow as pa

import vgi_rpc.rpc._server as srv
import vgi_rpc.rpc._wire as wire
from pyvc.api import *  # noqa: F403
from pyvc.api import PyRaise
from vgi_rpc.rpc._common import MethodType, ProtocolVersionError, RpcError, TransportKind, VersionError

CONNECTION_ENDING = (EOFError, StopIteration, BrokenPipeError, ConnectionResetError, ConnectionAbortedError, pa.ArrowInvalid)


class UserError(Exception):
    """Stands for an arbitrary exception class raised by user code."""


def raise_(cls: type, *args: Any) -> None:
    raise PyRaise(SExc(cls, tuple(args)))


def user_cls(S: Any) -> type:
    """The class of 'whatever user code raises' on this path.  A contract widens it from the single stand-in UserError
    by setting S.ghost["__user_exc_classes__"] (e.g. to include the classes the serve loop itself treats as
    connection-ending); the class is drawn once per path, at the first user raise."""
    opts = S.ghost.get("__user_exc_classes__") or [UserError]
    if len(opts) == 1:
        return opts[0]
    k = S.ghost.get("__user_exc_choice__")
    if k is None:
        k = S.choose(len(opts))
        S.ghost["__user_exc_choice__"] = k
        S.inputs["user_exception_class"] = opts[k].__name__
    return opts[k]


class World:
    """Installs the handlers on S and keeps the knobs a unit forks over."""

    def __init__(self, S: Any) -> None:
        self.S = S
        self.writes_may_fail = False
        self.opened_streams = 0
        H = S.handlers
        H["_generate_request_id"] = lambda S: "rid"
        H[srv.CallStatistics] = lambda S: SObj(None, kind="Stats")
        H["_get_auth_and_metadata"] = lambda S: (S.opaque("auth", "Auth"), S.opaque("transport_md", "TMd"))
        H["worker_transport_metadata"] = lambda S: {}
        H["_record_output"] = lambda S, *a, **k: None
        H["_record_input"] = lambda S, *a, **k: None
        H["_log_method_error"] = lambda S, proto, name, sid, exc: "ErrType"
        H["RpcServer.protocol_name"] = lambda S, me: "proto"
        H["new_ipc_stream"] = self.new_ipc_stream
        H["IpcWriter.__enter__"] = self.writer_enter
        H["IpcWriter.__exit__"] = self.writer_exit
        H["IpcWriter.write_batch"] = self.write_batch
        H["IpcWriter.close"] = lambda S, w: self.writer_exit(S, w, None, None, None)
        H["_write_error_stream"] = self.write_error_stream
        H["_write_error_batch"] = self.write_error_batch
        H["_emit_access_log"] = self.emit_access_log
        import time
        import uuid

        H[time.monotonic] = lambda S: S.int("t_mono")
        H[uuid.uuid4] = lambda S: SObj(None, kind="UUID", hex="stream-id")

    # ---- IPC writer ---------------------------------------------------------------------
    def maybe_fail(self, what: str) -> None:
        if self.writes_may_fail and self.S.choose(2) == 1:
            self.S.event("write_failed", what)
            raise_(BrokenPipeError, what)

    def new_ipc_stream(self, S: Any, sink: Any, schema: Any, *a: Any, **k: Any) -> Any:
        return SObj(None, kind="IpcWriter", sink=sink, schema=schema, opened=False, closed=False)

    def writer_enter(self, S: Any, w: Any) -> Any:
        self.maybe_fail("open")
        w.fields["opened"] = True
        S.event("stream_open", w.fields["sink"], w.fields["schema"])
        return w

    def writer_exit(self, S: Any, w: Any, et: Any, ev: Any, tb: Any) -> Any:
        w.fields["closed"] = True
        S.event("stream_close", w.fields["sink"])
        return False

    def write_batch(self, S: Any, w: Any, batch: Any, custom_metadata: Any = None) -> None:
        self.maybe_fail("write_batch")
        S.event("write_batch", w.fields["sink"], batch, custom_metadata)

    def write_error_stream(self, S: Any, sink: Any, schema: Any, exc: Any, server_id: Any = None) -> None:
        self.maybe_fail("error_stream")
        S.event("error_stream", sink, exc)

    def write_error_batch(self, S: Any, writer: Any, schema: Any, exc: Any, server_id: Any = None) -> None:
        self.maybe_fail("error_batch")
        S.event("error_batch", writer, exc)

    def emit_access_log(self, S: Any, protocol: Any, method: Any, mtype: Any, server_id: Any, auth: Any, tmd: Any, duration: Any, status: Any, error_type: Any = "", **kw: Any) -> None:
        S.event("access_log", method, status, error_type, kw.get("error_message", ""), kw.get("cancelled", False))

    # ---- helpers ------------------------------------------------------------------------
    def responses(self) -> list[tuple[Any, ...]]:
        """Events that start a response the client can read (a complete stream or its opening)."""
        return [e for e in self.S.trace if e[0] in ("error_stream", "stream_open")]


def method_info(name: str, mtype: MethodType, header: bool = False) -> Any:
    return SObj(
        None,
        kind="MethodInfo",
        name=name,
        method_type=mtype,
        result_schema=SObj(None, kind="Schema", tag="result"),
        params_schema=SObj(None, kind="Schema", tag="params"),
        param_types={},
        param_defaults={},
        result_type=None,
        header_type=(SObj(None, kind="HeaderType") if header else None),
    )
