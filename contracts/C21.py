"""C21 401 responses follow the unauthorized specification (DESIGN §5 C21; docs/unauthorized-spec.md)."""

from __future__ import annotations

import ast
import json
import types
from typing import Any

import falcon
import z3

import vgi_rpc.http._bearer as bearer
import vgi_rpc.http._client as client
import vgi_rpc.http._proof as proof
import vgi_rpc.http._unauthorized as un
import vgi_rpc.http.server._errors as errs
import vgi_rpc.http.server._factory as fac
import vgi_rpc.http.server._middleware as mw
from pyvc import models, slicing
from pyvc.api import *  # noqa: F403
from pyvc.api import PyRaise, ReplayResult, unit
from vgi_rpc.http._common import AUTH_PROXY_REQUIRED_HEADER, AUTH_REASON_HEADER
from vgi_rpc.http._unauthorized import AuthenticationError, AuthFailure, AuthReason, AuthUnavailableError
from vgi_rpc.rpc import AuthContext

MANIFEST = {
    "level_text": "Deductive proof on the real code, path by path: classify_auth_failure returns a member of the closed AuthReason enum for every exception class and every declared/undeclared/garbage reason attribute, honouring a declared reason and falling back to `unauthorized` for an undeclared ValueError; on every rejection path of _AuthMiddleware.process_request composed with the real error serializer (_make_error_serializer.<locals>._serialize) the response carries VGI-Auth-Reason = the classified reason = the JSON envelope's reason, Cache-Control: no-store, JSON unless Accept contains text/html, and a proxy note (header + proxy_hint) that is exactly the app's configured note on every 401 and absent iff that note is empty; the note handed to the serializer by make_wsgi_app (executed backward slice) is build_proxy_hint of the configured/declared header names, which is empty iff there are none and names every header; chain_authenticate/require_all carry declarations through; the real chain closure (1-3 members x every outcome) returns the first success, reports missing_credential iff every alternative reported it and otherwise the first other code, and lets AuthUnavailableError / PermissionError through, which the middleware turns into 503 with the exception's retry_after and never into a 401; _parse_unauthorized returns an AuthenticationError with a closed-set reason for every byte string under the CPython contract of json.loads (value | ValueError | RecursionError).",
    "level_note": "Assumes: json.dumps/json.loads as CPython contracts (dumps is a faithful serialisation of a str->str dict; loads returns a JSON value or raises ValueError or, for pathologically nested input, RecursionError); falcon turns HTTPUnauthorized/HTTPServiceUnavailable(retry_after=n) into status 401/503 with Retry-After and calls the registered error serializer; the HTML page body (_render_unauthorized_html) is presentation and by contract opaque; chains are enumerated up to 3 members (the property's own bound) with each member's outcome drawn from the closed enum x exception kinds; header names are arbitrary strings, lists of them up to length 3. Not reduced: built-in mTLS / proof authenticators' own declare_proxy_headers calls (C22/C43), CORS expose-headers, WWW-Authenticate content. Engine + z3/cvc5 trusted.",
    "technique": "contract-based deductive verification: path-wise postconditions and ghost header/payload events on the real functions, executed backward slice of make_wsgi_app, exhaustive finite enumeration of enum-valued inputs via path forks; VCs by pyvc, z3 then cvc5",
    "design_ref": "DESIGN.md §5 C21",
}
EXPLANATION = MANIFEST["level_text"]
TRUSTED = [
    "pyvc VC generator, slicer and string encoding",
    "z3 5.1.0 / cvc5 1.4.0",
    "CPython: json.dumps serialises a str->str dict faithfully; json.loads returns a JSON value or raises ValueError (JSONDecodeError, UnicodeDecodeError, int digit limit) or RecursionError (nesting depth); dict.fromkeys = first-occurrence de-duplication in order; html.escape total",
    "falcon: HTTPUnauthorized -> 401, HTTPServiceUnavailable(retry_after=n) -> 503 with Retry-After: n; the error serializer registered with set_error_serializer renders every HTTPError; resp.set_header sets exactly that header",
]
ASSUMPTIONS = [
    "authenticators are arbitrary user code: they return a context or raise ValueError / AuthFailure(any closed-set reason) / PermissionError / AuthUnavailableError / another exception",
    "chains of 1..3 members (the property's bound); proxy header lists of 0..3 arbitrary names",
    "_render_unauthorized_html is presentation (spec §4.2): by contract it returns opaque bytes",
    "str() of a non-string JSON value (list, object, number, true/false/null) is an arbitrary text other than the six reason codes",
    "slice of make_wsgi_app: executions that complete normally",
]

REASONS = list(AuthReason)
CLOSED = {r.value for r in AuthReason}


def is_reason(x: Any) -> bool:
    return isinstance(x, AuthReason)


# ======================================================================================
# C21.O1  classify_auth_failure / AuthFailure / ProofError: reason in the closed enum
# ======================================================================================

EXC_KINDS = ["ValueError", "PermissionError", "AuthFailure", "ProofError", "LookupError"]
DECLS = ["absent"] + [r.name for r in REASONS] + ["str_code", "None", "int", "symbolic_str"]


def replay_classify(inputs: dict[str, Any], ob: Any) -> ReplayResult:
    kind, decl = inputs["exc_kind"], inputs["declared"]
    if kind == "AuthFailure":
        exc: BaseException = AuthFailure(AuthReason[inputs["ctor_reason"]], "d")
    elif kind == "ProofError":
        exc = proof.ProofError("bad_mac", "d")
    else:
        exc = {"ValueError": ValueError, "PermissionError": PermissionError, "LookupError": LookupError}[kind]("d")
    want = None
    if decl in AuthReason.__members__:
        setattr(exc, un.REASON_ATTR, AuthReason[decl])
        want = AuthReason[decl]
    elif decl != "absent":
        setattr(exc, un.REASON_ATTR, {"str_code": "expired_credential", "None": None, "int": 3, "symbolic_str": "proxy_required"}[decl])
    if decl not in AuthReason.__members__:
        if kind == "AuthFailure" and decl == "absent":
            want = AuthReason[inputs["ctor_reason"]]
        elif kind == "ProofError" and decl == "absent":
            want = AuthReason.PROXY_REQUIRED
        elif kind in ("ValueError", "LookupError"):
            want = AuthReason.UNAUTHORIZED
    try:
        got = un.classify_auth_failure(exc)
    except Exception as e:
        return ReplayResult(True, f"classify_auth_failure({exc!r}) raised {type(e).__name__}: {e}")
    bad = not isinstance(got, AuthReason) or (want is not None and got is not want)
    return ReplayResult(bad, f"classify_auth_failure({type(exc).__name__}, declared={decl}) -> {got!r}, wanted {want!r} / a closed-set member")


@unit(
    "C21.O1 classify_auth_failure returns a closed-set reason for every exception and declaration",
    targets=["vgi_rpc/http/_unauthorized.py::classify_auth_failure", "vgi_rpc/http/_unauthorized.py::AuthFailure.__init__", "vgi_rpc/http/_proof.py::ProofError.__init__"],
    replay=replay_classify,
    min_obligations=100,
)
def classify(S: Any) -> None:
    kind = EXC_KINDS[S.choose(len(EXC_KINDS))]
    decl = DECLS[S.choose(len(DECLS))]
    S.inputs.update({"exc_kind": kind, "declared": decl})
    ctor_reason = None
    if kind == "AuthFailure":
        # the real constructor (AuthFailure.__init__) declares its reason
        ctor_reason = REASONS[S.choose(len(REASONS))]
        S.inputs["ctor_reason"] = ctor_reason.name
        exc = models.construct(S.interp, AuthFailure, [ctor_reason, S.str("detail")], {})
        S.oblige("O1.AuthFailure_is_a_ValueError_carrying_its_reason", exc_is(exc, ValueError) and exc.attrs.get("reason") is ctor_reason and exc.attrs.get(un.REASON_ATTR) is ctor_reason, kind="post")
    elif kind == "ProofError":
        exc = models.construct(S.interp, proof.ProofError, [S.str("internal_reason"), S.str("detail")], {})
        S.oblige("O1.ProofError_declares_proxy_required_only", exc_is(exc, PermissionError) and exc.attrs.get(un.REASON_ATTR) is AuthReason.PROXY_REQUIRED, kind="post")
    else:
        exc = SExc({"ValueError": ValueError, "PermissionError": PermissionError, "LookupError": LookupError}[kind], (S.str("detail"),))
    want = None
    if decl in AuthReason.__members__:
        exc.attrs[un.REASON_ATTR] = want = AuthReason[decl]
    elif decl != "absent":
        exc.attrs[un.REASON_ATTR] = {"str_code": "expired_credential", "None": None, "int": 3, "symbolic_str": S.str("junk")}[decl]
    else:
        want = ctor_reason if kind == "AuthFailure" else (AuthReason.PROXY_REQUIRED if kind == "ProofError" else None)
    out = S.outcome(un.classify_auth_failure, exc)
    S.oblige("O1.classification_is_total", out.returned, kind="raises")
    S.oblige("O1.reason_is_in_the_closed_set", out.returned and is_reason(out.value), kind="post")
    if want is not None:
        S.oblige("O1.declared_reason_is_honoured", out.returned and out.value is want, kind="post")
    elif kind in ("ValueError", "LookupError"):
        # spec §7: a rejection naming no reason lands on `unauthorized` rather than a guess
        S.oblige("O1.undeclared_failure_is_unauthorized", out.returned and out.value is AuthReason.UNAUTHORIZED, kind="post")
    S.canary("O1.canary.everything_is_unauthorized", SBool(z3.BoolVal(out.returned and out.value is AuthReason.UNAUTHORIZED)))


# ======================================================================================
# C21.O4  _combine_reasons  (spec §3.1)
# ======================================================================================


def spec_combine(codes: list[AuthReason]) -> set[AuthReason]:
    """missing_credential only when every alternative agreed nothing was presented; otherwise the
    first code that is not missing_credential.  (No alternatives at all: any closed-set code.)"""
    if not codes:
        return set(REASONS)
    if all(c is AuthReason.MISSING_CREDENTIAL for c in codes):
        return {AuthReason.MISSING_CREDENTIAL}
    return {next(c for c in codes if c is not AuthReason.MISSING_CREDENTIAL)}


def replay_combine(inputs: dict[str, Any], ob: Any) -> ReplayResult:
    codes = [AuthReason[n] for n in inputs["codes"]]
    got = bearer._combine_reasons(codes)
    return ReplayResult(got not in spec_combine(codes), f"_combine_reasons({[c.value for c in codes]}) -> {got!r}, spec allows {sorted(c.value for c in spec_combine(codes))}")


@unit(
    "C21.O4 _combine_reasons: missing_credential iff all missing, else the first other code (all sequences up to length 3)",
    targets=["vgi_rpc/http/_bearer.py::_combine_reasons"],
    replay=replay_combine,
    min_obligations=500,
)
def combine(S: Any) -> None:
    n = S.choose(4)
    codes = [REASONS[S.choose(len(REASONS))] for _ in range(n)]
    S.inputs["codes"] = [c.name for c in codes]
    out = S.outcome(bearer._combine_reasons, list(codes))
    S.oblige("O4.total_and_closed", out.returned and is_reason(out.value), kind="post")
    S.oblige("O4.missing_iff_all_missing_else_first_other", out.returned and out.value in spec_combine(codes), kind="post")
    S.canary("O4.canary.always_the_first_code", SBool(z3.BoolVal(bool(codes) and out.returned and out.value is codes[0])))


# ======================================================================================
# C21.O5  chain_authenticate.<locals>.authenticate  (+ declarations carried through)
# ======================================================================================

MEMBER_OUTCOMES = ["returns", "ValueError"] + ["AuthFailure:" + r.name for r in REASONS] + ["PermissionError", "AuthUnavailableError", "RuntimeError"]


def member_code(o: str) -> AuthReason:
    return AuthReason[o.split(":")[1]] if o.startswith("AuthFailure:") else AuthReason.UNAUTHORIZED


def install_members(S: Any, n: int, taken: list[str]) -> list[Any]:
    """n abstract authenticators; each one's behaviour is chosen when it is called."""
    members = [SObj(None, kind="Member", index=i, vgi_proxy_headers=()) for i in range(n)]
    ctxs = [SObj(AuthContext, domain="d", authenticated=True, principal=f"p{i}", claims={}) for i in range(n)]

    def call(S: Any, m: Any, req: Any) -> Any:
        i = m.fields["index"]
        o = MEMBER_OUTCOMES[S.choose(len(MEMBER_OUTCOMES))]
        taken.append(o)
        S.inputs["outcomes"] = list(taken)
        S.event("member", i, o)
        if o == "returns":
            return ctxs[i]
        if o == "ValueError":
            raise PyRaise(SExc(ValueError, (f"bad credential {i}",)))
        if o.startswith("AuthFailure:"):
            r = member_code(o)
            raise PyRaise(SExc(AuthFailure, (f"failure {i}",), {"reason": r, un.REASON_ATTR: r}))
        if o == "PermissionError":
            raise PyRaise(SExc(PermissionError, ("forbidden",)))
        if o == "AuthUnavailableError":
            raise PyRaise(SExc(AuthUnavailableError, ("idp down",), {"detail": "idp down", "retry_after": 7}))
        raise PyRaise(SExc(RuntimeError, ("bug",)))

    S.handlers["Member.__call__"] = call
    S.handlers["Member.__isinstance__"] = lambda S, m, cls: False  # not a PreconditionGate
    S.ghost["ctxs"] = ctxs
    return members


def native_member(o: str, i: int, ctx: Any) -> Any:
    def fn(req: Any) -> Any:
        if o == "returns":
            return ctx
        if o == "ValueError":
            raise ValueError(f"bad credential {i}")
        if o.startswith("AuthFailure:"):
            raise AuthFailure(member_code(o), f"failure {i}")
        if o == "PermissionError":
            raise PermissionError("forbidden")
        if o == "AuthUnavailableError":
            raise AuthUnavailableError("idp down", retry_after=7)
        raise RuntimeError("bug")

    return fn


def judge_chain(outcomes: list[str], n: int, returned: Any, raised: Any, ctx_of: Any) -> list[str]:
    """The chain's contract (spec §3.1 + property: an outage is not a rejection)."""
    problems = []
    k = len(outcomes)
    last = outcomes[-1] if outcomes else None
    rejected = lambda o: o == "ValueError" or o.startswith("AuthFailure:")  # noqa: E731
    if any(not rejected(o) for o in outcomes[:-1]):
        problems.append("a member was consulted after one that did not reject")
    if last == "returns":
        if raised is not None or returned is not ctx_of(k - 1):
            problems.append("first accepting member's context was not returned")
    elif last in ("PermissionError", "AuthUnavailableError", "RuntimeError"):
        want = {"PermissionError": PermissionError, "AuthUnavailableError": AuthUnavailableError, "RuntimeError": RuntimeError}[last]
        if raised is None or not issubclass(raised if isinstance(raised, type) else type(raised), want):
            problems.append(f"{last} did not propagate")
        if last == "AuthUnavailableError" and raised is not None and issubclass(raised if isinstance(raised, type) else type(raised), ValueError):
            problems.append("an outage was turned into a rejection (ValueError)")
    else:
        if k != n:
            problems.append("chain gave up before consulting every member")
    return problems


def replay_chain(inputs: dict[str, Any], ob: Any) -> ReplayResult:
    outcomes = list(inputs.get("outcomes", []))
    n = int(inputs["n"])
    ctxs = [AuthContext(domain="d", authenticated=True, principal=f"p{i}", claims={}) for i in range(n)]
    pads = outcomes + ["returns"] * (n - len(outcomes))
    fns = [native_member(pads[i], i, ctxs[i]) for i in range(n)]
    chain = bearer.chain_authenticate(*fns)
    returned = raised = None
    try:
        returned = chain(object())
    except Exception as e:
        raised = e
    problems = judge_chain(outcomes, n, returned, raised, lambda i: ctxs[i])
    if len(outcomes) == n and all(o == "ValueError" or o.startswith("AuthFailure:") for o in outcomes):
        want = spec_combine([member_code(o) for o in outcomes])
        got = un.classify_auth_failure(raised) if raised is not None else None
        if not isinstance(raised, ValueError) or got not in want:
            problems.append(f"all members rejected: raised {raised!r} classified {got!r}, spec wants {sorted(r.value for r in want)}")
    return ReplayResult(bool(problems), f"chain of {n} with member outcomes {outcomes}: returned={returned!r} raised={raised!r}; " + "; ".join(problems))


@unit(
    "C21.O5 chain_authenticate: first success wins, combined reason per spec 3.1, outages and PermissionError propagate (chains of 1..3)",
    targets=["vgi_rpc/http/_bearer.py::chain_authenticate", "vgi_rpc/http/_bearer.py::chain_authenticate.<locals>.authenticate", "vgi_rpc/http/_bearer.py::_combine_reasons", "vgi_rpc/http/_unauthorized.py::AuthFailure.__init__"],
    replay=replay_chain,
    min_obligations=1500,
    max_paths=3000,
)
def chain(S: Any) -> None:
    n = 1 + S.choose(3)
    S.inputs["n"] = n
    taken: list[str] = []
    members = install_members(S, n, taken)
    S.inline.update({"_combine_reasons", "declare_proxy_headers", "proxy_headers_of", "merge_proxy_headers"})
    built = S.outcome(bearer.chain_authenticate, *members)
    S.oblige("O5.chain_is_built", built.returned, kind="raises")
    if not built.returned:
        return
    req = SObj(None, kind="Req")
    out = S.outcome(built.value, req)
    ctxs = S.ghost["ctxs"]
    raised_cls = out.exc_class() if out.raised else None
    for p in judge_chain(taken, n, out.value if out.returned else None, raised_cls, lambda i: ctxs[i]):
        S.oblige("O5.chain_contract", False, kind="trace", why=p)
    S.oblige("O5.chain_contract", True, kind="trace")
    last = taken[-1]
    if last == "AuthUnavailableError":
        S.oblige("O5.outage_propagates_and_is_not_a_ValueError", out.raised and exc_is(out.exc, AuthUnavailableError) and not exc_is(out.exc, ValueError), kind="raises")
        S.oblige("O5.outage_keeps_its_retry_after", out.raised and out.exc.attrs.get("retry_after") == 7, kind="post")
    if len(taken) == n and all(o == "ValueError" or o.startswith("AuthFailure:") for o in taken):
        want = spec_combine([member_code(o) for o in taken])
        S.oblige("O5.all_rejected_raises_a_ValueError", out.raised and exc_is(out.exc, ValueError), kind="raises")
        if out.raised and exc_is(out.exc, ValueError):
            r = S.outcome(un.classify_auth_failure, out.exc)
            S.oblige("O4.chain_reason_is_missing_iff_all_missing_else_first_other", r.returned and r.value in want, kind="post")
    S.canary("O5.canary.chain_never_accepts", SBool(z3.BoolVal(not out.returned)))


# ======================================================================================
# C21.O2 / O3 / O5  every rejection path: middleware (401/503 arms) + the real error serializer
# ======================================================================================

SOURCES = ["ValueError", "ValueError_junk_reason", "PermissionError", "ProofError"] + ["AuthFailure:" + r.name for r in REASONS] + ["AuthUnavailableError", "foreign_401", "foreign_401_junk_context"]
HTML = "text/html"


def expected_reasons(source: str) -> set[AuthReason]:
    """What the spec fixes about the code on the wire for each kind of rejection."""
    if source.startswith("AuthFailure:"):
        return {AuthReason[source.split(":")[1]]}  # a declared reason is honoured (spec §7)
    if source == "ProofError":
        return {AuthReason.PROXY_REQUIRED}  # every proxy-proof outcome collapses onto proxy_required (spec §2)
    if source in ("ValueError", "ValueError_junk_reason", "foreign_401", "foreign_401_junk_context"):
        return {AuthReason.UNAUTHORIZED}  # names no reason -> the fallback, never a guess
    return set(REASONS)  # bare PermissionError: any closed-set code


def make_exception(S: Any, source: str, detail: Any) -> Any:
    if source.startswith("AuthFailure:"):
        return models.construct(S.interp, AuthFailure, [AuthReason[source.split(":")[1]], detail], {})
    if source == "ProofError":
        return models.construct(S.interp, proof.ProofError, ["bad_mac", detail], {})
    if source == "PermissionError":
        return SExc(PermissionError, (detail,))
    if source == "ValueError_junk_reason":
        return SExc(ValueError, (detail,), {un.REASON_ATTR: S.str("junk_reason")})
    if source == "AuthUnavailableError":
        return models.construct(S.interp, AuthUnavailableError, [detail], {"retry_after": S.int("retry_after")})
    return SExc(ValueError, (detail,))


def native_exception(source: str, detail: str, retry_after: int = 5) -> BaseException:
    if source.startswith("AuthFailure:"):
        return AuthFailure(AuthReason[source.split(":")[1]], detail)
    if source == "ProofError":
        return proof.ProofError("bad_mac", detail)
    if source == "PermissionError":
        return PermissionError(detail)
    if source == "AuthUnavailableError":
        return AuthUnavailableError(detail, retry_after=retry_after)
    e = ValueError(detail)
    if source == "ValueError_junk_reason":
        setattr(e, un.REASON_ATTR, "expired_credential")
    return e


def replay_rejection(inputs: dict[str, Any], ob: Any) -> ReplayResult:
    """Real falcon app: real _AuthMiddleware + real serializer registered with set_error_serializer."""
    import falcon.testing

    source = inputs["source"]
    detail = inputs.get("detail", "d") if isinstance(inputs.get("detail"), str) else "d"
    hint = inputs.get("proxy_hint", "") if isinstance(inputs.get("proxy_hint"), str) else ""
    accept = inputs.get("accept") if inputs.get("accept_present") else None
    accept = accept if isinstance(accept, str) or accept is None else None
    ra = inputs.get("retry_after", 5)
    ra = ra if isinstance(ra, int) and 0 <= ra < 10**6 else 5

    class Foreign:
        def process_request(self, req: Any, resp: Any) -> None:
            if source == "foreign_401_junk_context":
                req.context.vgi_auth_reason = "expired_credential"
            raise falcon.HTTPUnauthorized(description=detail)

    def authenticate(req: Any) -> Any:
        raise native_exception(source, detail, ra)

    mws = [Foreign()] if source.startswith("foreign") else [mw._AuthMiddleware(authenticate)]
    app = falcon.App(middleware=mws)
    app.set_error_serializer(errs._make_error_serializer(hint))
    try:
        earlier = inputs.get("earlier_request", "none")
        if earlier != "none":
            ea = inputs.get("earlier_accept") if earlier == "with_accept" else None
            for ea_try in ([ea] if isinstance(ea, str) else []) + ([HTML, "application/json"] if earlier == "with_accept" else [None]):
                # the earlier client of the same app, same rejection (the model's Accept first, then plain HTML / JSON ones)
                falcon.testing.TestClient(app).simulate_post("/x", headers={"Accept": ea_try} if ea_try is not None else {})
        hdrs = {"Accept": accept} if accept is not None else {}
        r = falcon.testing.TestClient(app).simulate_post("/x", headers=hdrs)
    except Exception as e:
        return ReplayResult(False, f"request could not be simulated with the model's strings: {type(e).__name__}: {e}")
    problems = []
    if source == "AuthUnavailableError":
        if r.status_code != 503:
            problems.append(f"outage answered with {r.status_code}, not 503")
        if r.headers.get("retry-after") != str(ra):
            problems.append(f"Retry-After={r.headers.get('retry-after')!r}, wanted {ra}")
        if AUTH_REASON_HEADER.lower() in {k.lower() for k in r.headers}:
            problems.append("an outage carries VGI-Auth-Reason")
    else:
        want = expected_reasons(source)
        code = r.headers.get(AUTH_REASON_HEADER)
        if r.status_code != 401:
            problems.append(f"status {r.status_code}")
        if code not in {w.value for w in want}:
            problems.append(f"{AUTH_REASON_HEADER}={code!r}, spec wants {sorted(w.value for w in want)}")
        if r.headers.get("cache-control") != "no-store":
            problems.append(f"Cache-Control={r.headers.get('cache-control')!r}")
        asked_html = accept is not None and HTML in accept
        is_json = (r.headers.get("content-type") or "").startswith("application/json")
        if not asked_html and not is_json:
            problems.append(f"non-HTML request answered with {r.headers.get('content-type')!r}")
        if is_json:
            body = json.loads(r.content)
            if body.get("error") != "unauthorized" or body.get("reason") != code or "detail" not in body:
                problems.append(f"envelope {body!r} disagrees with header {code!r}")
            if ("proxy_hint" in body) != bool(hint) or (hint and body.get("proxy_hint") != hint):
                problems.append(f"proxy_hint in body: {body.get('proxy_hint')!r}, configured {hint!r}")
        ph = r.headers.get(AUTH_PROXY_REQUIRED_HEADER)
        if (ph == "true") != bool(hint) or ph not in (None, "true"):
            problems.append(f"{AUTH_PROXY_REQUIRED_HEADER}={ph!r} with configured note {hint!r}")
    return ReplayResult(bool(problems), f"{source} detail={detail!r} Accept={accept!r} note={hint!r}: status={r.status_code} headers={ {k: v for k, v in r.headers.items() if k.lower() in ('vgi-auth-reason', 'vgi-auth-proxy-required', 'cache-control', 'content-type', 'retry-after')} }; " + "; ".join(problems))


@unit(
    "C21.O2/O3/O5 every rejection path of _AuthMiddleware + error serializer: reason header = envelope reason = classified reason, no-store, proxy note = configuration, outage -> 503",
    targets=[
        "vgi_rpc/http/server/_middleware.py::_AuthMiddleware.process_request",
        "vgi_rpc/http/server/_errors.py::_make_error_serializer",
        "vgi_rpc/http/server/_errors.py::_make_error_serializer.<locals>._serialize",
        "vgi_rpc/http/server/_errors.py::_render_unauthorized_json",
        "vgi_rpc/http/server/_errors.py::_wants_html",
        "vgi_rpc/http/_unauthorized.py::classify_auth_failure",
        "vgi_rpc/http/_unauthorized.py::AuthUnavailableError.__init__",
    ],
    replay=replay_rejection,
    min_obligations=300,
)
def rejection(S: Any) -> None:
    source = SOURCES[S.choose(len(SOURCES))]
    S.inputs["source"] = source
    detail = S.str("detail")
    proxy_hint = S.str("proxy_hint")  # the app's configured note (build_proxy_hint of its configuration, see O3 units)
    accept_present = S.choose(2) == 1
    S.inputs["accept_present"] = accept_present
    accept = S.str("accept") if accept_present else None
    headers: dict[str, Any] = {}
    payloads: list[dict[str, Any]] = []
    html_pages: list[tuple[Any, ...]] = []

    def set_header(S: Any, r: Any, name: Any, value: Any) -> None:
        headers[name] = value

    def dumps(S: Any, payload: Any, **kw: Any) -> Any:
        payloads.append(dict(payload))
        return S.str("json_text")

    def render_html(S: Any, reason: Any, d: Any, hint: Any) -> Any:
        html_pages.append((reason, d, hint))
        return S.bytes("html_page")

    cur = {"present": accept_present, "accept": accept}  # the Accept header of the request being served right now

    def get_header(S: Any, r: Any, name: Any, default: Any = None, **kw: Any) -> Any:
        if name == "Accept":
            return cur["accept"] if cur["present"] else default
        return default

    S.handlers["Resp.set_header"] = set_header
    S.handlers["Req.get_header"] = get_header
    S.handlers[json.dumps] = dumps
    S.handlers["_render_unauthorized_html"] = render_html
    S.handlers["_build_transport_metadata"] = lambda S, r: SObj(None, kind="TransportMetadata")
    S.handlers[falcon.HTTPUnauthorized] = lambda S, **kw: SExc(falcon.HTTPUnauthorized, (), dict(kw))
    S.handlers[falcon.HTTPServiceUnavailable] = lambda S, **kw: SExc(falcon.HTTPServiceUnavailable, (), dict(kw))
    S.inline.update({"classify_auth_failure", "_wants_html", "_render_unauthorized_json"})
    ctx = SObj(None, kind="ReqContext")
    ctx.closed = True
    req = SObj(None, kind="Req", method="POST", path="/vgi/method", context=ctx, remote_addr="203.0.113.7")  # which requests reach the callback: C20
    resp = SObj(None, kind="Resp")

    # ---- the rejection: the real middleware, or some other component raising HTTPUnauthorized
    if source.startswith("foreign"):
        if source == "foreign_401_junk_context":
            ctx.fields["vgi_auth_reason"] = S.str("junk_reason")
        http_exc = SExc(falcon.HTTPUnauthorized, (), {"description": detail})
    else:
        exc = make_exception(S, source, detail)

        def authenticate(S: Any, fn: Any, r: Any) -> Any:
            raise PyRaise(exc)

        S.handlers["Authenticate.__call__"] = authenticate
        me = SObj(mw._AuthMiddleware, _authenticate=SObj(None, kind="Authenticate"), _www_authenticate=None, _on_auth_failure=None, _exempt_prefixes=())
        out = S.outcome(mw._AuthMiddleware.process_request, me, req, resp)
        if source == "AuthUnavailableError":
            # C21.O5: an authenticator outage is a 503 with the exception's Retry-After, never a 401
            S.oblige("O5.outage_is_503_not_401", out.raised and exc_is(out.exc, falcon.HTTPServiceUnavailable) and not exc_is(out.exc, falcon.HTTPUnauthorized), kind="raises")
            if out.raised and exc_is(out.exc, falcon.HTTPServiceUnavailable):
                S.oblige("O5.retry_after_is_the_exceptions", eq(out.exc.attrs.get("retry_after"), exc.attrs.get("retry_after")), kind="post")
            S.oblige("O5.outage_is_not_classified_as_a_rejection", "vgi_auth_reason" not in ctx.fields and AUTH_REASON_HEADER not in headers, kind="post")
            return
        S.oblige("O2.rejection_raises_401", out.raised and exc_is(out.exc, falcon.HTTPUnauthorized), kind="raises")
        if not (out.raised and exc_is(out.exc, falcon.HTTPUnauthorized)):
            return
        http_exc = out.exc

    # ---- the real serializer of an app whose configured note is proxy_hint
    ser = S.call(errs._make_error_serializer, proxy_hint)
    # history: the app may already have answered an earlier rejection with the same reason and detail, from a client
    # with any Accept header (the serializer keeps rendered bodies between requests); what *this* client gets must
    # not depend on it
    earlier = S.choose(3)  # 0: first rejection on this app; 1: earlier client sent no Accept; 2: earlier client sent any Accept
    S.inputs["earlier_request"] = ["none", "without_accept", "with_accept"][earlier]
    first = None
    if earlier:
        cur["present"], cur["accept"] = earlier == 2, (S.str("earlier_accept") if earlier == 2 else None)
        resp0 = SObj(None, kind="Resp")
        out0 = S.outcome(ser, req, resp0, http_exc)
        S.oblige("O2.serializer_is_total", out0.returned, kind="raises")
        if not out0.returned:
            return
        first = {"kind": "json" if payloads else "html", "body": resp0.fields.get("data"), "payload": payloads[0] if payloads else None, "page": html_pages[0] if html_pages else None}
        headers.clear()
        payloads.clear()
        html_pages.clear()
        cur["present"], cur["accept"] = accept_present, accept
    out2 = S.outcome(ser, req, resp, http_exc)
    S.oblige("O2.serializer_is_total", out2.returned, kind="raises")
    if not out2.returned:
        return
    if first is not None and not payloads and not html_pages:
        # nothing was rendered for this request: the body is a remembered one - it must be the earlier rendering, and
        # it is judged below as what it is (the JSON envelope or the HTML page rendered for the earlier client)
        S.oblige("O2.remembered_body_is_the_earlier_rendering_of_the_same_rejection", resp.fields.get("data") is first["body"], kind="post")
        if first["kind"] == "json":
            payloads.append(first["payload"])
        else:
            html_pages.append(first["page"])
    want = expected_reasons(source)
    code = headers.get(AUTH_REASON_HEADER)
    S.oblige("O1.reason_header_is_a_closed_set_code", isinstance(code, str) and code in CLOSED, kind="post")
    S.oblige("O2.reason_header_is_the_classified_reason", isinstance(code, str) and code in {w.value for w in want}, kind="post")
    S.oblige("O2.cache_control_no_store", headers.get("Cache-Control") == "no-store", kind="post")
    asked_html = SBool(z3.Contains(accept.t, z3.StringVal(HTML))) if accept_present else False
    ctype = resp.fields.get("content_type")
    if payloads:
        p = payloads[0]
        S.oblige("O2.exactly_one_envelope", len(payloads) == 1 and not html_pages, kind="post")
        S.oblige("O2.json_content_type", ctype == "application/json", kind="post")
        S.oblige("O2.envelope_reason_equals_the_header", p.get("reason") == code and p.get("error") == "unauthorized", kind="post")
        S.oblige("O2.envelope_carries_the_detail", "detail" in p and eq(p["detail"], http_exc.attrs["description"]), kind="post")
        S.oblige("O2.body_is_the_encoded_envelope", isinstance(resp.fields.get("data"), SBytes), kind="post")
        # C21.O3: the note in the body is the configured one, present iff it is non-empty
        if "proxy_hint" in p:
            S.oblige("O3.body_note_is_the_configured_note", And(eq(p["proxy_hint"], proxy_hint), Not(eq(proxy_hint, ""))), kind="post")
        else:
            S.oblige("O3.body_note_absent_only_when_not_configured", eq(proxy_hint, ""), kind="post")
        S.canary("O2.canary.json_only_without_accept_header", SBool(z3.BoolVal(not accept_present)))
    else:
        # an HTML page: only for a client that asked for text/html (spec §4.2 MUST NOT otherwise)
        S.oblige("O2.html_only_when_asked", asked_html, kind="post")
        S.oblige("O2.html_page_shows_the_same_reason_and_note", len(html_pages) == 1 and html_pages[0][0].value == code and html_pages[0][2] is proxy_hint, kind="post")
        S.oblige("O2.html_content_type", isinstance(ctype, str) and ctype.startswith("text/html"), kind="post")
    # C21.O3: header form of the note
    ph = headers.get(AUTH_PROXY_REQUIRED_HEADER)
    if ph is None:
        S.oblige("O3.proxy_header_absent_only_when_not_configured", eq(proxy_hint, ""), kind="post")
    else:
        S.oblige("O3.proxy_header_true_only_when_configured", And(ph == "true", Not(eq(proxy_hint, ""))), kind="post")
    S.canary("O3.canary.note_never_configured", eq(proxy_hint, ""))


# ======================================================================================
# C21.O3  the proxy note is a function of configuration: build_proxy_hint, the make_wsgi_app
#         slice that hands it to the serializer, declarations carried through compositions
# ======================================================================================


def fromkeys_model(S: Any, seq: Any, *value: Any) -> Any:
    """CPython contract of dict.fromkeys on a finite sequence: first-occurrence de-duplication in
    order (one fork per possibly-equal earlier key).  Keys are held by identity."""
    items = models.iteration(S.interp, seq)
    if not isinstance(items, list):
        raise Unsupported("dict.fromkeys over a symbolic-length iterable")
    kept: list[Any] = []
    for x in items:
        dup = False
        for k in kept:
            c = eq(x, k) if (isinstance(x, Sym) or isinstance(k, Sym)) else (x == k)
            if c is True or (c is not False and S.fork(c)):
                dup = True
                break
        if not dup:
            kept.append(x)
    return {k: (value[0] if value else None) for k in kept}


def header_names(S: Any, label: str, max_len: int = 3) -> list[Any]:
    n = S.choose(max_len + 1)
    S.inputs[label + "_len"] = n
    return [S.str(f"{label}_{i}") for i in range(n)]


def replay_hint(inputs: dict[str, Any], ob: Any) -> ReplayResult:
    names = [inputs.get(f"header_{i}", "") for i in range(int(inputs.get("header_len", 0)))]
    names = [n if isinstance(n, str) else "x" for n in names]
    got = un.build_proxy_hint(names)
    problems = []
    if (got == "") != (len(names) == 0):
        problems.append("note empty iff no header names: violated")
    problems += [f"note does not name {n!r}" for n in names if n not in got]
    return ReplayResult(bool(problems), f"build_proxy_hint({names!r}) -> {got[:80]!r}...; " + "; ".join(problems))


@unit(
    "C21.O3a build_proxy_hint: empty iff no header names, names every header (lists of 0..3 arbitrary names)",
    targets=["vgi_rpc/http/_unauthorized.py::build_proxy_hint"],
    replay=replay_hint,
    min_obligations=8,
)
def proxy_hint_text(S: Any) -> None:
    names = header_names(S, "header")
    S.handlers[dict.fromkeys] = fromkeys_model
    out = S.outcome(un.build_proxy_hint, list(names))
    S.oblige("O3.hint_is_total", out.returned, kind="raises")
    if not out.returned:
        return
    hint = out.value
    if not names:
        S.oblige("O3.no_headers_no_note", eq(hint, ""), kind="post")
        return
    S.oblige("O3.headers_give_a_non_empty_note", Not(eq(hint, "")), kind="post")
    for i, nm in enumerate(names):
        S.oblige("O3.note_names_every_header", SBool(z3.Contains(strterm(hint), nm.t)), kind="post")
    S.canary("O3.canary.note_is_a_constant", eq(hint, "This service only accepts requests that arrive through its configured reverse proxy"))


def replay_wiring(inputs: dict[str, Any], ob: Any) -> ReplayResult:
    import warnings
    from typing import Protocol

    from vgi_rpc.rpc import RpcServer

    class P(Protocol):
        def u(self) -> int: ...

    class Impl:
        def u(self) -> int:
            return 1

    cfg = [v if isinstance(v, str) else "x-cfg" for v in (inputs.get(f"cfg_{i}") for i in range(int(inputs.get("cfg_len", 0))))]
    dec = [v if isinstance(v, str) else "x-dec" for v in (inputs.get(f"decl_{i}") for i in range(int(inputs.get("decl_len", 0))))]
    proof_req = bool(inputs.get("proxy_proof_required"))

    def authenticate(req: Any) -> Any:
        raise ValueError("nope")

    if dec:
        un.declare_proxy_headers(authenticate, *dec)
    seen: list[str] = []
    real = errs._make_error_serializer
    fac._make_error_serializer = lambda hint="": (seen.append(hint), real(hint))[1]  # observe the note handed over
    try:
        with warnings.catch_warnings():
            warnings.simplefilter("ignore")
            kw: dict[str, Any] = {}
            if proof_req:
                kw = {"proxy_proof_required": True, "authenticate": authenticate}
            fac.make_wsgi_app(RpcServer(P, Impl()), authenticate=authenticate, proxy_auth_headers=cfg if inputs.get("cfg_present") else None, token_key=b"k" * 32, **{k: v for k, v in kw.items() if k != "authenticate"})
    except Exception as e:
        return ReplayResult(False, f"make_wsgi_app raised {type(e).__name__}: {e}")
    finally:
        fac._make_error_serializer = real
    depends = bool(cfg and inputs.get("cfg_present")) or bool(dec) or proof_req
    hint = seen[0] if seen else None
    bad = hint is None or (hint != "") != depends
    return ReplayResult(bad, f"proxy_auth_headers={cfg if inputs.get('cfg_present') else None} declared={dec} proxy_proof_required={proof_req}: note handed to the serializer = {hint[:60] if hint else hint!r}; depends on proxy headers = {depends}")


@unit(
    "C21.O3b make_wsgi_app hands the serializer build_proxy_hint(configured + declared + proof header): note present iff the configuration depends on proxy headers (executed slice)",
    targets=["vgi_rpc/http/server/_factory.py::make_wsgi_app (backward slice of the _make_error_serializer(...) call)", "vgi_rpc/http/_unauthorized.py::proxy_headers_of"],
    replay=replay_wiring,
    min_obligations=60,
)
def note_wiring(S: Any) -> None:
    cfg_present = S.choose(2) == 1
    S.inputs["cfg_present"] = cfg_present
    cfg = header_names(S, "cfg", 2) if cfg_present else None
    decl = header_names(S, "decl", 2)
    proof_required = S.choose(2) == 1
    S.inputs["proxy_proof_required"] = proof_required
    auth = SObj(None, kind="Authenticate", vgi_proxy_headers=tuple(decl))
    auth.closed = True
    built: list[list[Any]] = []
    handed: list[Any] = []

    def build(S: Any, headers: Any) -> Any:
        # by contract (proved in O3a): "" iff there are no names, otherwise a non-empty text naming them
        names = models.iteration(S.interp, headers)
        built.append(list(names))
        if not names:
            return ""
        h = S.str("note")
        S.assume(Not(eq(h, "")))
        return h

    def make_serializer(S: Any, hint: Any = "") -> Any:
        handed.append(hint)
        return SObj(None, kind="Serializer")

    S.handlers["build_proxy_hint"] = build
    S.handlers["_make_error_serializer"] = make_serializer
    S.inline.add("proxy_headers_of")
    env = {"proxy_auth_headers": tuple(cfg) if cfg is not None else None, "authenticate": auth, "proxy_proof_required": proof_required, "oauth_resource_metadata": None, "app": SObj(None, kind="App")}
    S.handlers["App.set_error_serializer"] = lambda S, a, ser: None
    slicing.run_slice(S, fac.make_wsgi_app, lambda n: isinstance(n, ast.Call) and isinstance(n.func, ast.Name) and n.func.id == "_make_error_serializer", env, stop={"app"})
    S.oblige("O3.serializer_gets_one_note", len(handed) == 1 and len(built) == 1, kind="post")
    if len(handed) != 1 or len(built) != 1:
        return
    names = built[0]
    want = list(cfg or []) + list(decl) + ([proof.PROOF_HEADER] if proof_required else [])
    same = len(names) == len(want) and all((a is b) or (isinstance(a, str) and isinstance(b, str) and a == b) for a, b in zip(names, want))
    S.oblige("O3.note_is_built_from_exactly_the_configured_and_declared_headers", same, kind="post")
    depends = bool(cfg) or bool(decl) or proof_required
    hint = handed[0]
    S.oblige("O3.note_present_iff_configuration_depends_on_proxy_headers", Not(eq(hint, "")) if depends else eq(hint, ""), kind="post")
    S.canary("O3.canary.no_configuration_ever_has_a_note", eq(hint, ""))


def replay_carry(inputs: dict[str, Any], ob: Any) -> ReplayResult:
    def mk(i: int) -> Any:
        def fn(req: Any) -> Any:
            raise ValueError("x")

        names = [v if isinstance(v, str) else f"x-{i}" for v in (inputs.get(f"m{i}_{j}") for j in range(int(inputs.get(f"m{i}_len", 0))))]
        if names:
            un.declare_proxy_headers(fn, *names)
        return fn, names

    if inputs.get("composition") == "require_all":
        gate_names = [v if isinstance(v, str) else "x-g" for v in (inputs.get(f"gate_{j}") for j in range(int(inputs.get("gate_len", 0))))]
        gate = bearer.PreconditionGate(lambda req: {}, name="g", claims_key="g", proxy_headers=gate_names)
        inner, inner_names = mk(0) if inputs.get("inner_present") else (None, [])
        got = un.proxy_headers_of(bearer.require_all(gate, inner))
        want = gate_names + inner_names
    else:
        ms = [mk(i) for i in range(int(inputs.get("n", 1)))]
        got = un.proxy_headers_of(bearer.chain_authenticate(*[m[0] for m in ms]))
        want = [n for m in ms for n in m[1]]
    missing = [n for n in want if n not in got]
    extra = [n for n in got if n not in want]
    return ReplayResult(bool(missing or extra), f"{inputs.get('composition')}: declared by members {want}, carried {list(got)}; missing={missing} extra={extra}")


@unit(
    "C21.O3c chain_authenticate / require_all carry proxy-header declarations through (spec 5.1)",
    targets=["vgi_rpc/http/_bearer.py::chain_authenticate", "vgi_rpc/http/_bearer.py::require_all", "vgi_rpc/http/_unauthorized.py::declare_proxy_headers", "vgi_rpc/http/_unauthorized.py::merge_proxy_headers", "vgi_rpc/http/_unauthorized.py::proxy_headers_of"],
    replay=replay_carry,
    min_obligations=40,
)
def declarations_carried(S: Any) -> None:
    S.handlers[dict.fromkeys] = fromkeys_model
    S.inline.update({"declare_proxy_headers", "proxy_headers_of", "merge_proxy_headers"})
    S.handlers["Member.__isinstance__"] = lambda S, m, cls: False
    comp = ["chain", "require_all"][S.choose(2)]
    S.inputs["composition"] = comp
    if comp == "chain":
        n = 1 + S.choose(2)
        S.inputs["n"] = n
        decls = [header_names(S, f"m{i}", 2) for i in range(n)]
        members = [SObj(None, kind="Member", index=i, vgi_proxy_headers=tuple(decls[i])) for i in range(n)]
        out = S.outcome(bearer.chain_authenticate, *members)
    else:
        gate_decl = header_names(S, "gate", 2)
        gate = SObj(bearer.PreconditionGate, _fn=SObj(None, kind="GateFn"), name="g", claims_key="g", vgi_proxy_headers=tuple(gate_decl))
        inner_present = S.choose(2) == 1
        S.inputs["inner_present"] = inner_present
        inner_decl = header_names(S, "m0", 2) if inner_present else []
        inner = SObj(None, kind="Member", index=0, vgi_proxy_headers=tuple(inner_decl)) if inner_present else None
        decls = [gate_decl, inner_decl]
        out = S.outcome(bearer.require_all, gate, inner)
    S.oblige("O3.composition_is_built", out.returned, kind="raises")
    if not out.returned:
        return
    carried = S.outcome(un.proxy_headers_of, out.value)
    S.oblige("O3.composed_callback_declares_headers", carried.returned and isinstance(carried.value, tuple), kind="post")
    if not (carried.returned and isinstance(carried.value, tuple)):
        return
    got = list(carried.value)
    for d in decls:
        for nm in d:
            S.oblige("O3.every_member_declaration_is_carried_through", Or(*[eq(nm, g) for g in got]) if got else False, kind="post")
    for g in got:
        S.oblige("O3.nothing_is_declared_that_no_member_declared", Or(*[eq(g, nm) for d in decls for nm in d]) if any(decls) else False, kind="post")
    S.canary("O3.canary.compositions_declare_nothing", SBool(z3.BoolVal(len(got) == 0)))


# ======================================================================================
# C21.O5b  require_all: the gate runs first; its failure is reported and the credential never consulted
# ======================================================================================

GATE_OUTCOMES = ["claims", "ProofError", "PermissionError", "AuthUnavailableError"]


def replay_gate(inputs: dict[str, Any], ob: Any) -> ReplayResult:
    o = inputs["gate_outcome"]
    calls: list[str] = []

    def gate_fn(req: Any) -> Any:
        calls.append("gate")
        if o == "claims":
            return {"proxy": "p", "verified": "true"}
        raise {"ProofError": proof.ProofError("bad_mac"), "PermissionError": PermissionError("no"), "AuthUnavailableError": AuthUnavailableError("down")}[o]

    def inner(req: Any) -> Any:
        calls.append("inner")
        return AuthContext(domain="d", authenticated=True, principal="alice", claims={})

    fn = bearer.require_all(bearer.PreconditionGate(gate_fn, name="g", claims_key="g"), inner)
    raised = None
    try:
        fn(object())
    except Exception as e:
        raised = e
    bad = (o != "claims" and ("inner" in calls or raised is None or type(raised).__name__ != o)) or (o == "claims" and calls != ["gate", "inner"])
    return ReplayResult(bad, f"gate {o}: calls={calls} raised={raised!r}")


@unit(
    "C21.O5b require_all: a gate failure (incl. outage) propagates unchanged and the credential is never consulted",
    targets=["vgi_rpc/http/_bearer.py::require_all.<locals>.authenticate", "vgi_rpc/http/_bearer.py::PreconditionGate.__call__"],
    replay=replay_gate,
    min_obligations=8,
)
def gate_first(S: Any) -> None:
    o = GATE_OUTCOMES[S.choose(len(GATE_OUTCOMES))]
    S.inputs["gate_outcome"] = o
    S.handlers[dict.fromkeys] = fromkeys_model
    S.inline.update({"declare_proxy_headers", "proxy_headers_of", "merge_proxy_headers", "PreconditionGate.__call__", "dataclass:AuthContext"})
    gate_exc = {
        "ProofError": lambda: models.construct(S.interp, proof.ProofError, ["bad_mac"], {}),
        "PermissionError": lambda: SExc(PermissionError, ("no",)),
        "AuthUnavailableError": lambda: SExc(AuthUnavailableError, ("down",), {"detail": "down", "retry_after": 5}),
    }

    def gate_fn(S: Any, fn: Any, req: Any) -> Any:
        S.event("gate")
        if o == "claims":
            return {"proxy": "p", "verified": "true"}
        raise PyRaise(gate_exc[o]())

    def inner_fn(S: Any, m: Any, req: Any) -> Any:
        S.event("inner")
        return SObj(AuthContext, domain="d", authenticated=True, principal="alice", claims={})

    S.handlers["GateFn.__call__"] = gate_fn
    S.handlers["Member.__call__"] = inner_fn
    gate = SObj(bearer.PreconditionGate, _fn=SObj(None, kind="GateFn"), name="g", claims_key="g", vgi_proxy_headers=())
    inner = SObj(None, kind="Member", index=0, vgi_proxy_headers=())
    built = S.outcome(bearer.require_all, gate, inner)
    S.oblige("O5.require_all_is_built", built.returned, kind="raises")
    if not built.returned:
        return
    out = S.outcome(built.value, SObj(None, kind="Req"))
    names = [e[0] for e in S.trace]
    S.oblige("O5.gate_runs_first", names[:1] == ["gate"], kind="trace")
    if o == "claims":
        S.oblige("O5.credential_consulted_after_a_passing_gate", names == ["gate", "inner"], kind="trace")
    else:
        want = {"ProofError": proof.ProofError, "PermissionError": PermissionError, "AuthUnavailableError": AuthUnavailableError}[o]
        S.oblige("O5.gate_failure_propagates_unchanged", out.raised and out.exc_class() is want, kind="raises")
        S.oblige("O5.credential_never_consulted_after_a_failed_gate", "inner" not in names, kind="trace")
        if o == "ProofError" and out.raised:
            r = S.outcome(un.classify_auth_failure, out.exc)
            S.oblige("O5.gate_failure_reports_the_gates_code", r.returned and r.value is AuthReason.PROXY_REQUIRED, kind="post")
    S.canary("O5.canary.credential_always_consulted", SBool(z3.BoolVal("inner" in names)))


# ======================================================================================
# C21.O6  _parse_unauthorized: total on arbitrary bytes, reason in the closed set
# ======================================================================================

JSON_OUTCOMES = ["ValueError", "RecursionError", "dict", "list", "str", "number", "null"]
FIELD_KINDS = ["absent", "string", "non_string"]


def replay_parse(inputs: dict[str, Any], ob: Any) -> ReplayResult:
    o = inputs["json_outcome"]
    if o == "RecursionError":
        body = b"[" * 100000  # the class witness: nesting deeper than CPython's JSON scanner allows
    elif o == "ValueError":
        c = inputs.get("content")
        body = c if isinstance(c, bytes) else b"\xff not json"
        try:
            json.loads(body)
            body = b"\xff" + body
        except (ValueError, RecursionError):
            pass
    elif o == "dict":
        d: dict[str, Any] = {}
        for f in ("reason", "detail", "proxy_hint"):
            k = inputs.get(f + "_kind", "absent")
            if k == "string":
                v = inputs.get(f + "_value", "")
                d[f] = v if isinstance(v, str) else ""
            elif k == "non_string":
                d[f] = ["x", 1]
        body = json.dumps(d).encode()
    else:
        body = {"list": b"[1, 2]", "str": b'"expired_credential"', "number": b"12", "null": b"null"}[o]
    try:
        e = client._parse_unauthorized(body)
    except BaseException as ex:
        return ReplayResult(True, f"_parse_unauthorized({body[:40]!r}... {len(body)} bytes) raised {type(ex).__name__}: {str(ex)[:120]}")
    problems = []
    if not isinstance(e, AuthenticationError) or not isinstance(getattr(e, "reason", None), AuthReason):
        problems.append(f"returned {e!r} without a closed-set reason")
    elif o == "dict":
        raw = json.loads(body).get("reason")
        want = AuthReason(raw) if isinstance(raw, str) and raw in CLOSED else AuthReason.UNAUTHORIZED
        if e.reason is not want:
            problems.append(f"reason {e.reason!r}, spec wants {want!r}")
    elif e.reason is not AuthReason.UNAUTHORIZED:
        problems.append(f"non-envelope body gave {e.reason!r}")
    return ReplayResult(bool(problems), f"_parse_unauthorized({body[:60]!r}) -> {e!r}; " + "; ".join(problems))


@unit(
    "C21.O6 _parse_unauthorized is total on arbitrary bytes and returns a closed-set reason",
    targets=["vgi_rpc/http/_client.py::_parse_unauthorized", "vgi_rpc/http/_unauthorized.py::AuthenticationError.__init__", "vgi_rpc/rpc/_common.py::RpcError.__init__"],
    replay=replay_parse,
    min_obligations=60,
)
def parse_unauthorized(S: Any) -> None:
    content = S.bytes("content")
    st: dict[str, Any] = {"outcome": None, "fields": {}}

    def loads(S: Any, data: Any, **kw: Any) -> Any:
        # CPython contract of json.loads on bytes: a JSON value, or ValueError (JSONDecodeError,
        # UnicodeDecodeError, integer digit limit), or RecursionError for pathologically nested input
        o = st["outcome"] = JSON_OUTCOMES[S.choose(len(JSON_OUTCOMES))]
        S.inputs["json_outcome"] = o
        if o == "ValueError":
            raise PyRaise(SExc(ValueError, ("Expecting value",)))
        if o == "RecursionError":
            raise PyRaise(SExc(RecursionError, ("maximum recursion depth exceeded while decoding a JSON array",)))
        if o == "dict":
            return SObj(None, kind="JsonDict")
        if o == "list":
            return [1, 2]
        if o == "str":
            return S.str("json_string")
        if o == "number":
            return S.int("json_number")
        return None

    def dict_get(S: Any, d: Any, key: Any, default: Any = None) -> Any:
        k = FIELD_KINDS[S.choose(len(FIELD_KINDS))]
        S.inputs[f"{key}_kind"] = k
        if k == "absent":
            st["fields"][key] = None
            return default
        if k == "string":
            v = S.str(f"{key}_value")
            st["fields"][key] = v
            return v
        st["fields"][key] = "non_string"
        return SObj(None, kind="JsonValue", name=key)

    S.handlers[json.loads] = loads
    S.handlers["JsonDict.get"] = dict_get
    S.handlers["JsonDict.__isinstance__"] = lambda S, d, cls: cls is dict

    def str_of_non_string(S: Any, v: Any) -> Any:
        # str() of a JSON list / object / number / true / false / null: some text that starts with
        # '[', '{', a digit, '-', or is True/False/None/inf/nan - never one of the six reason codes
        t = S.str(f"str_of_{v.fields['name']}")
        S.assume(And(*[Not(eq(t, c)) for c in sorted(CLOSED)]))
        return t

    S.handlers["JsonValue.__str__"] = str_of_non_string
    S.inline.update({"AuthenticationError", "RpcError"})
    out = S.outcome(client._parse_unauthorized, content)
    o = st["outcome"]
    S.oblige("O6.total_on_every_body", out.returned, kind="raises", witness=f"json.loads:{o}")
    if not out.returned:
        return
    e = out.value
    ok = isinstance(e, SExc) and issubclass(e.cls, AuthenticationError) and is_reason(e.attrs.get("reason"))
    S.oblige("O6.returns_an_AuthenticationError_with_a_closed_set_reason", ok, kind="post")
    if not ok:
        return
    got = e.attrs["reason"]
    raw = st["fields"].get("reason")
    if o == "dict" and isinstance(raw, SStr):
        # readers MUST treat an unrecognised reason as `unauthorized` (spec §4.3) and honour a recognised one
        S.oblige("O6.envelope_reason_is_honoured_or_unauthorized", Or(eq(raw, got.value), And(got is AuthReason.UNAUTHORIZED, *[Not(eq(raw, c)) for c in sorted(CLOSED)])), kind="post")
    else:
        S.oblige("O6.non_envelope_body_is_unauthorized", got is AuthReason.UNAUTHORIZED, kind="post")
    if o == "dict":
        hint = st["fields"].get("proxy_hint")
        if isinstance(hint, SStr):
            S.oblige("O6.proxy_hint_is_surfaced", eq(e.attrs.get("proxy_hint"), hint), kind="post")
    S.canary("O6.canary.client_never_sees_expired", SBool(z3.BoolVal(got is not AuthReason.EXPIRED_CREDENTIAL)))
