"""C28 Shared-memory allocations never overlap or overflow (DESIGN §5 C28).

Under contract: ShmAllocator.allocate / ShmAllocator.free over the abstract table
(ghost ``T``) read by ``_read_allocs`` and stored by ``_write_allocs``.
"""

from __future__ import annotations

import z3

import vgi_rpc.shm as shm
from pyvc.api import *  # noqa: F403
from pyvc.api import ReplayResult, unit, bounded, BoundedResult

HEADER = shm.HEADER_SIZE
MAXA = shm.MAX_ALLOCS
U64 = 2**64

MANIFEST = {
    "level_text": "Unbounded deductive proof over the real allocate/free/_ShmSink.write/allocate_and_write code: the table invariant (sorted, in-range, pairwise disjoint, <= MAX_ALLOCS) is inductive, a returned region is disjoint from all live regions and is the first fitting gap, None only when full or nothing fits, free removes exactly the named entry, and every direct write lands inside the region just allocated. Tests sample a few tables; the proof covers every table, size and offset.",
    "level_note": "Assumes: _read_allocs/_write_allocs inverse on in-range tables (bounded stand-in on real buffers), pyarrow writes only through sink.write, lockstep protocol (no concurrent header mutation), total_size < 2^64, loop termination unverified, engine + z3/cvc5 trusted.",
    "technique": "contract-based deductive verification: loop invariants + quantified table invariant, VCs from the real AST (pyvc), z3/cvc5",
    "design_ref": "DESIGN.md §5 C28",
}

EXPLANATION = (
    "Unbounded proof (inductive loop invariants, quantified table invariant wf) that allocate/free keep the "
    "allocation table well-formed, that a returned region is disjoint from every live region and inside the "
    "segment, that allocate picks the first fitting gap and reports None only when no gap fits, and that free "
    "removes exactly the named entry. The table is the abstract list exchanged with _read_allocs/_write_allocs."
)
TRUSTED = [
    "pyvc VC generator and its encoding of Python ints/lists/tuples (DESIGN §3.1)",
    "z3 5.1.0 / cvc5 1.4.0",
    "ShmAllocator._read_allocs/_write_allocs are an inverse pair on tables with len<=MAX_ALLOCS and fields in [0,2^64) (struct '<QQ'); exercised by the bounded stand-in on real buffers",
]
ASSUMPTIONS = [
    "single active side (lockstep protocol): no concurrent mutation of the header",
    "total_size < 2^64 (the header stores data_size as uint64)",
    "termination of the loops is not verified",
    "second sentence of the property: proved for the Python side (sink bounded by the allocation, O5a/O5b); that pyarrow's writer reaches the buffer only through sink.write is assumed",
]

ELEM = TupleShape(IntShape, IntShape)


def off(T, j):
    return T.get(j)[0]


def ln(T, j):
    return T.get(j)[1]


def end(T, j):
    return off(T, j) + ln(T, j)


def wf(T, total):
    """Table invariant: in-range, positive lengths, entries ordered by offset and pairwise non-overlapping."""
    n = SInt(T.length)
    return And(
        n <= MAXA,
        ForAllInt(lambda i: Implies(And(i >= 0, i < n), And(off(T, i) >= HEADER, ln(T, i) > 0, end(T, i) <= total))),
        # pairwise (transitive) form, so that no induction is needed to use or re-establish it
        ForAllInt2(lambda i, j: Implies(And(i >= 0, i < j, j < n), end(T, i) <= off(T, j))),
    )


def prev_end(T, j):
    """End of the entry before slot j (HEADER for the leading gap)."""
    return ite(j == 0, SInt(z3.IntVal(HEADER)), end(T, j - 1))


def gap(T, j, total):
    """Length of gap j (0..n): before entry j, or the trailing gap for j == n."""
    n = SInt(T.length)
    return ite(j < n, off(T, j), total) - prev_end(T, j)


def is_insert(T1, T0, p, entry):
    n = SInt(T0.length)
    return And(
        SInt(T1.length) == n + 1,
        ForAllInt(lambda j: Implies(And(j >= 0, j < p), eq(T1.get(j), T0.get(j)))),
        eq(T1.get(p), entry),
        ForAllInt(lambda j: Implies(And(j > p, j <= n), eq(T1.get(j), T0.get(j - 1)))),
    )


def is_remove(T1, T0, p):
    n = SInt(T0.length)
    return And(
        SInt(T1.length) == n - 1,
        ForAllInt(lambda j: Implies(And(j >= 0, j < p), eq(T1.get(j), T0.get(j)))),
        ForAllInt(lambda j: Implies(And(j >= p, j < n - 1), eq(T1.get(j), T0.get(j + 1)))),
    )


def same(T1, T0):
    n = SInt(T0.length)
    return And(SInt(T1.length) == n, ForAllInt(lambda j: Implies(And(j >= 0, j < n), eq(T1.get(j), T0.get(j)))))


def install(S, T, total):
    S.ghost["T"] = T

    def read(S, me):
        return S.ghost["T"].snapshot()

    def write(S, me, allocs):
        A = as_slist(allocs).snapshot()
        n = SInt(A.length)
        # precondition of the (assumed) serialiser: fits the header, fields are uint64
        S.oblige("O1.pre_write_allocs.count", n <= MAXA, kind="pre")
        S.oblige(
            "O1.pre_write_allocs.uint64",
            ForAllInt(lambda j: Implies(And(j >= 0, j < n), And(off(A, j) >= 0, off(A, j) < U64, ln(A, j) >= 0, ln(A, j) < U64))),
            kind="pre",
        )
        S.ghost["T"] = A
        S.event("write_allocs")

    S.handlers["ShmAllocator._read_allocs"] = read
    S.handlers["ShmAllocator._write_allocs"] = write
    S.handlers["ShmAllocator._warn_if_near_limit"] = lambda S, me, count: None
    S.assume_external("ShmAllocator._warn_if_near_limit", "only logs")


def make_state(S):
    T = S.list("T", ELEM)
    total = S.int("total")
    S.assume(And(total >= HEADER, total < U64))
    S.assume(wf(T, total))
    me = SObj(shm.ShmAllocator, _total_size=total, _buf=S.opaque("buf", "memoryview"))
    install(S, T, total)
    return me, T.snapshot(), total


# ------------------------------------------------------------------------------------------
# native replay helpers
# ------------------------------------------------------------------------------------------


def native_allocator(T, total):
    a = shm.ShmAllocator.__new__(shm.ShmAllocator)
    a._buf = memoryview(bytearray(HEADER + 4096))  # header + the first bytes of the data area (as in a real segment)
    a._total_size = total
    a._write_allocs([tuple(x) for x in T])
    return a


def py_wf(T, total):
    if len(T) > MAXA:
        return False
    for i, (o, l) in enumerate(T):
        if o < HEADER or l <= 0 or o + l > total:
            return False
        if i + 1 < len(T) and o + l > T[i + 1][0]:
            return False
    return True


def py_gaps(T, total):
    pe = HEADER
    out = []
    for o, l in T:
        out.append((pe, o - pe))
        pe = o + l
    out.append((pe, total - pe))
    return out


def replay_allocate(inputs, ob):
    T = [tuple(x) for x in inputs["T"]]
    total, size = inputs["total"], inputs["size"]
    if not py_wf(T, total):
        return ReplayResult(False, "model table not well-formed natively (truncated model?)")
    a = native_allocator(T, total)
    data_before = bytes(a._buf[HEADER:])
    try:
        r = a.allocate(size)
    except ValueError as e:
        ok = size <= 0
        return ReplayResult(not ok, f"allocate({size}) raised ValueError({e}) with size>0" if not ok else "raise is allowed")
    except Exception as e:
        return ReplayResult(True, f"allocate({size}) on a table of {len(T)} entries raised {type(e).__name__}: {e}")
    if bytes(a._buf[HEADER:]) != data_before:
        return ReplayResult(True, f"allocate({size}) on a table of {len(T)} entries wrote into the data area (header overflow)")
    T1 = a._read_allocs()
    if size <= 0:
        return ReplayResult(True, f"allocate({size}) returned {r!r} instead of raising ValueError")
    gaps = py_gaps(T, total)
    fitting = [g for g in gaps if g[1] >= size]
    if r is None:
        bad = len(T) < MAXA and bool(fitting)
        return ReplayResult(bad or T1 != T, f"allocate({size}) returned None on T={T} total={total}; fitting gaps={fitting}; table after={T1}")
    exp = sorted(T + [(r, size)])
    problems = []
    if not py_wf(T1, total):
        problems.append("table not well-formed after allocate")
    if T1 != exp:
        problems.append(f"table after {T1} != insert of ({r},{size}) into {T}")
    if any(r < o + l and o < r + size for o, l in T):
        problems.append("returned region overlaps a live allocation")
    if r < HEADER or r + size > total:
        problems.append("returned region outside the data area")
    if not fitting or r != fitting[0][0]:
        problems.append(f"not the first fitting gap (expected {fitting[0][0] if fitting else None})")
    return ReplayResult(bool(problems), f"allocate({size}) on T={T} total={total} -> {r}; " + "; ".join(problems))


def replay_free(inputs, ob):
    T = [tuple(x) for x in inputs["T"]]
    total, offset = inputs["total"], inputs["offset"]
    if not py_wf(T, total):
        return ReplayResult(False, "model table not well-formed natively")
    a = native_allocator(T, total)
    present = [e for e in T if e[0] == offset]
    try:
        a.free(offset)
    except ValueError:
        T1 = a._read_allocs()
        bad = bool(present) or T1 != T
        return ReplayResult(bad, f"free({offset}) raised ValueError on T={T}; table after={T1}")
    T1 = a._read_allocs()
    exp = [e for e in T if e[0] != offset]
    bad = (not present) or T1 != exp or not py_wf(T1, total)
    return ReplayResult(bad, f"free({offset}) on T={T} -> table {T1}, expected {exp}")


def _candidate_tables(rnd):
    full = [(HEADER + 2 * i, 1) for i in range(MAXA)]
    yield full, HEADER + 2 * MAXA + 64
    yield [(HEADER + 4 * i, 2) for i in range(MAXA)], HEADER + 4 * MAXA + 64  # full table, interior gaps of 2
    yield full[:-1], HEADER + 2 * MAXA + 64
    yield [], HEADER + 100
    for _ in range(300):
        n = rnd.randint(0, 6)
        pos = HEADER + rnd.randint(0, 4)
        T = []
        for _ in range(n):
            l = rnd.randint(1, 5)
            T.append((pos, l))
            pos += l + rnd.randint(0, 4)
        yield T, pos + rnd.randint(0, 6)


def search_allocate(ob, seed):
    """Native hunt for a failing input when the solvers give no model (structured + random tables)."""
    import random

    rnd = random.Random(seed)
    for T, total in _candidate_tables(rnd):
        for size in (1, 2, 3, 4, 5, 7, 0, -1):
            inputs = {"T": T, "total": total, "size": size}
            rr = replay_allocate(inputs, ob)
            if rr.confirmed:
                return inputs, rr
    return None


def search_free(ob, seed):
    import random

    rnd = random.Random(seed)
    for T, total in _candidate_tables(rnd):
        offs = [e[0] for e in T[:8]] + [HEADER - 1, HEADER + 1, total]
        for o in offs:
            inputs = {"T": T, "total": total, "offset": o}
            rr = replay_free(inputs, ob)
            if rr.confirmed:
                return inputs, rr
    return None


# ------------------------------------------------------------------------------------------
# C28.O1 allocate
# ------------------------------------------------------------------------------------------


@unit("C28.O1 allocate", targets=["vgi_rpc/shm.py::ShmAllocator.allocate"], replay=replay_allocate, search=search_allocate, min_obligations=8)
def allocate(S):
    me, T0, total = make_state(S)
    size = S.int("size")

    def inv(L):
        i = L.idx
        A = L.allocs
        return [
            ("allocs_is_table", same(A, T0)),
            ("prev_end", L.prev_end == prev_end(T0, i)),
            ("earlier_gaps_too_small", ForAllInt(lambda j: Implies(And(j >= 0, j < i), gap(T0, j, total) < L.size))),
            ("table_untouched", same(S.ghost["T"], T0)),
        ]

    S.invariants[("ShmAllocator.allocate", 0)] = inv
    out = S.outcome(shm.ShmAllocator.allocate, me, size)
    T1 = S.ghost["T"]
    n = SInt(T0.length)
    if out.raised:
        S.oblige("O1.raises_only_ValueError", exc_is(out.exc, ValueError), kind="raises")
        S.oblige("O1.raise_implies_size_nonpositive", size <= 0, kind="raises")
        S.oblige("O1.raise_leaves_table", same(T1, T0))
        return
    S.oblige("O1.nonpositive_size_must_raise", size > 0)
    r = out.value
    if r is None:
        S.oblige("O1.none_leaves_table", same(T1, T0))
        S.oblige(
            "O1.none_only_when_full_or_no_gap",
            Or(n >= MAXA, ForAllInt(lambda j: Implies(And(j >= 0, j <= n), gap(T0, j, total) < size))),
        )
        S.canary("O1.canary.none_means_full", n >= MAXA)
        return
    # returned an offset
    S.oblige("O1.result_in_data_area", And(r >= HEADER, r + size <= total))
    S.oblige(
        "O1.result_disjoint_from_live",
        ForAllInt(lambda j: Implies(And(j >= 0, j < n), Or(r + size <= off(T0, j), end(T0, j) <= r))),
    )
    S.oblige("O1.wf_preserved", wf(T1, total))
    S.oblige(
        "O1.table_is_insert_at_first_fitting_gap",
        ExistsInt(
            lambda q: And(
                q >= 0,
                q <= n,
                r == prev_end(T0, q),
                gap(T0, q, total) >= size,
                ForAllInt(lambda j: Implies(And(j >= 0, j < q), gap(T0, j, total) < size)),
                is_insert(T1, T0, q, (r, size)),
            )
        ),
    )
    S.oblige("O1.capacity_respected", n < MAXA)
    S.canary("O1.canary.always_leading_gap", r == HEADER)


# ------------------------------------------------------------------------------------------
# C28.O2 free
# ------------------------------------------------------------------------------------------


@unit("C28.O2 free", targets=["vgi_rpc/shm.py::ShmAllocator.free"], replay=replay_free, search=search_free, min_obligations=4)
def free(S):
    me, T0, total = make_state(S)
    offset = S.int("offset")
    n = SInt(T0.length)

    def inv(L):
        i = L.idx
        return [
            ("allocs_is_table", same(L.allocs, T0)),
            ("no_earlier_match", ForAllInt(lambda j: Implies(And(j >= 0, j < i), off(T0, j) != L.offset))),
            ("table_untouched", same(S.ghost["T"], T0)),
        ]

    S.invariants[("ShmAllocator.free", 0)] = inv
    out = S.outcome(shm.ShmAllocator.free, me, offset)
    T1 = S.ghost["T"]
    if out.raised:
        S.oblige("O2.raises_only_ValueError", exc_is(out.exc, ValueError), kind="raises")
        S.oblige("O2.raise_iff_absent", ForAllInt(lambda j: Implies(And(j >= 0, j < n), off(T0, j) != offset)))
        S.oblige("O2.raise_leaves_table", same(T1, T0))
        S.canary("O2.canary.raise_means_empty", n == 0)
        return
    S.oblige("O2.wf_preserved", wf(T1, total))
    S.oblige(
        "O2.removes_exactly_named_entry",
        ExistsInt(lambda q: And(q >= 0, q < n, off(T0, q) == offset, is_remove(T1, T0, q))),
    )


# ------------------------------------------------------------------------------------------
# C28.L3  wf is inductive from the empty table (base case; steps are O1/O2.wf_preserved)
# ------------------------------------------------------------------------------------------


@unit("C28.L3 empty table well-formed", targets=["vgi_rpc/shm.py::ShmAllocator.reset"], min_obligations=1)
def lemma_empty(S):
    total = S.int("total")
    S.assume(And(total >= HEADER, total < U64))
    E = SList(ELEM, ELEM.indexed("E"), z3.IntVal(0))
    S.oblige("L3.empty_table_wf", wf(E, total), kind="lemma")


# ------------------------------------------------------------------------------------------
# bounded stand-ins (never counted as proved)
# ------------------------------------------------------------------------------------------


@bounded("O0.read_write_allocs_inverse", bound="tables of 0..6 entries + MAX_ALLOCS entries with field values at uint64 edges; 2000 random tables", tiers=("quick", "thorough"))
def standin_read_write(tier, seed):
    import random

    rnd = random.Random(seed)
    edges = [0, 1, HEADER, 2**32 - 1, 2**32, 2**63, 2**64 - 1]
    a = shm.ShmAllocator.__new__(shm.ShmAllocator)
    a._buf = memoryview(bytearray(HEADER))
    a._total_size = HEADER * 2
    fails = []
    n = 0
    tables = [[], [(e, e) for e in edges], [(i, i + 1) for i in range(MAXA)]]
    for _ in range(2000 if tier == "thorough" else 300):
        k = rnd.randint(0, 6)
        tables.append([(rnd.choice(edges + [rnd.randrange(U64)]), rnd.randrange(U64)) for _ in range(k)])
    for t in tables:
        a._write_allocs(t)
        n += 1
        if a._read_allocs() != t or a.num_allocs != len(t):
            fails.append(f"read(write({t[:3]}...)) differs")
    return BoundedResult(n, fails)


# ------------------------------------------------------------------------------------------
# C28.O5  a batch written into shared memory never extends beyond its own allocation
#          (second sentence of the property) — provable since the sink is bounded by its region
# ------------------------------------------------------------------------------------------


def _buf_obj(S):
    buf = SObj(None, kind="shmbuf")

    def setitem(S, b, idx, val):
        if not isinstance(idx, slice):
            raise Unsupported("shmbuf single-index store")
        S.event("bufwrite", idx.start, idx.stop, val)

    S.handlers["shmbuf.__setitem__"] = setitem
    return buf


def replay_sink_write(inputs, ob):
    start, pos, n = inputs["start"], inputs["pos"], inputs["n"]
    limit = inputs.get("limit")
    if inputs.get("has_limit") is False:
        limit = None
    size = max(pos + n, limit or 0, 1) + 16
    if size > 1 << 22 or min(start, pos, n) < 0:
        return ReplayResult(False, "model outside replayable range")
    backing = bytearray(size)
    sink = shm._ShmSink(memoryview(backing), start, limit) if limit is not None else shm._ShmSink(memoryview(backing), start)
    sink._pos = pos
    try:
        sink.write(b"\x01" * n)
    except Exception as e:
        touched = any(backing)
        return ReplayResult(touched or (limit is not None and pos + n <= limit), f"write raised {type(e).__name__}; bytes touched={touched}")
    touched = [i for i, b in enumerate(backing) if b]
    bad = bool(touched) and limit is not None and (touched[-1] >= limit or touched[0] < start)
    return ReplayResult(bad, f"start={start} pos={pos} n={n} limit={limit}: bytes touched [{touched[0] if touched else None},{touched[-1] if touched else None}]")


@unit("C28.O5a _ShmSink.write stays inside its region", targets=["vgi_rpc/shm.py::_ShmSink.write"], replay=replay_sink_write, min_obligations=3)
def sink_write(S):
    buf = _buf_obj(S)
    start, pos, n = S.int("start"), S.int("pos"), S.int("n")
    limit = S.int("limit")
    has_limit = S.choose(2) == 0
    S.inputs["has_limit"] = has_limit
    S.assume(And(start >= 0, pos >= start, n >= 0))
    if has_limit:
        S.assume(limit >= pos)  # sink invariant: start <= pos <= limit
    me = SObj(shm._ShmSink, _buf=buf, _pos=pos, _start=start, _limit=limit if has_limit else None)
    data = S.bytes("data")
    S.assume(data.length() == n)
    S.handlers[memoryview] = lambda S, d: d
    out = S.outcome(shm._ShmSink.write, me, data)
    writes = S.events("bufwrite")
    if out.raised:
        S.oblige("O5a.raise_writes_nothing", len(writes) == 0, kind="trace")
        return
    S.oblige("O5a.exactly_one_buffer_write", len(writes) == 1, kind="trace")
    for _, lo, hi, val in writes:
        S.oblige("O5a.write_is_at_cursor", And(lo == pos, hi == pos + n))
        if has_limit:
            S.oblige("O5a.write_inside_region", And(lo >= start, hi <= limit))
    S.oblige("O5a.cursor_advances", me.fields["_pos"] == pos + n)
    if has_limit:
        S.oblige("O5a.sink_invariant_preserved", me.fields["_pos"] <= limit)
    S.oblige("O5a.returns_count", out.value == n)
    S.canary("O5a.canary.never_advances", me.fields["_pos"] == pos)


def search_allocate_and_write(ob, seed):
    """Native scenarios on a real segment: interleaved writes and out-of-order frees; after every step each
    live batch must lie inside a table entry that starts at its offset, and live batches must not share bytes."""
    import random

    import pyarrow as pa

    rnd = random.Random(seed)
    for trial in range(40):
        seg = shm.ShmSegment.create(HEADER + 4 * 1024 * 1024)
        try:
            live = {}
            script = []
            for step in range(rnd.randint(3, 8)):
                if live and rnd.random() < 0.35:
                    off = rnd.choice(sorted(live))
                    seg.free(off)
                    del live[off]
                    script.append(("free", off))
                else:
                    n = rnd.choice([1, 3, 50, 400, 2000])
                    cols = rnd.choice([1, 2, 8])
                    batch = pa.RecordBatch.from_pydict({f"c{i}": list(range(n)) for i in range(cols)})
                    r = seg.allocate_and_write(batch)
                    script.append(("write", n, cols, r))
                    if r is None:
                        continue
                    live[r[0]] = r[1]
                table = dict(seg.allocator._read_allocs())
                spans = sorted(live.items())
                for off, ln in spans:
                    if off not in table or table[off] < ln:
                        return {"script": script}, ReplayResult(True, f"batch at {off} (+{ln} bytes) is not inside an allocation that starts there: table={sorted(table.items())[:6]} after {script}")
                for (o1, l1), (o2, l2) in zip(spans, spans[1:]):
                    if o1 + l1 > o2:
                        return {"script": script}, ReplayResult(True, f"live batches share bytes: ({o1},+{l1}) and ({o2},+{l2}) after {script}")
        finally:
            seg.close()
            seg.unlink()
    return None


def run_allocate_and_write(S):
    """Driver shared with C29 (format agreement): runs the real allocate_and_write against abstract allocator / sink /
    serializers and returns what happened."""
    import pyarrow.ipc as ipc

    buf = _buf_obj(S)
    shmobj = SObj(None, kind="SharedMemory", buf=buf)
    alloc = SObj(None, kind="Alloc")
    me = SObj(shm.ShmSegment, _shm=shmobj, _allocator=alloc)
    batch = SObj(None, kind="RecordBatch", schema=SObj(None, kind="Schema"))
    is_dict = S.choose(2) == 1
    S.handlers["_has_dictionary_columns"] = lambda S, schema: is_dict
    rbs = S.int("record_batch_size")
    ssz = S.int("schema_size")
    S.assume(And(rbs >= 0, ssz >= 0))
    S.handlers[ipc.get_record_batch_size] = lambda S, b: rbs
    S.handlers["Schema.serialize"] = lambda S, sc: SObj(None, kind="Buffer", size=ssz)

    def allocate(S, a, size):
        # by contract C28.O1: None, or an offset whose region [o, o+size) is recorded as the allocation
        S.oblige("O5b.pre_allocate_size_positive", size > 0, kind="pre")
        if S.choose(2) == 1:
            return None
        o = S.int("alloc_offset")
        S.assume(And(o >= HEADER, size > 0))
        S.event("allocated", o, size)
        return o

    def free(S, a, o):
        S.event("freed", o)

    S.handlers["Alloc.allocate"] = allocate
    S.handlers["Alloc.free"] = free

    def mk_sink(S, b, start, limit=None):
        S.event("sink", b, start, limit)
        return SObj(None, kind="Sink", bytes_written=S.int("bytes_written"), start=start)

    S.handlers[shm._ShmSink] = mk_sink
    overflow = S.choose(2) == 1

    def new_stream(S, sink, schema):
        return SObj(None, kind="Writer", sink=sink)

    def write_batch(S, w, b):
        if overflow:
            raise PyRaise(SExc(shm._ShmRegionOverflowError, ("overflow",)))
        S.event("full_stream_written", w.fields["sink"], b)

    S.handlers["new_ipc_stream"] = new_stream
    S.handlers["Writer.write_batch"] = write_batch
    S.handlers["Writer.close"] = lambda S, w: None
    ser_size = S.int("serialized_size")
    S.assume(ser_size > 0)
    S.handlers["_serialize_for_shm"] = lambda S, b: (S.event("schemaless_serialized", b), SObj(None, kind="Buffer", size=ser_size))[1]

    class _MV:
        pass

    def mview(S, x):
        mv = SObj(None, kind="MV", src=x)
        return mv

    S.handlers[memoryview] = mview
    S.handlers["MV.cast"] = lambda S, mv, fmt: mv
    out = S.outcome(shm.ShmSegment.allocate_and_write, me, batch)
    return {"out": out, "is_dict": is_dict, "overflow": overflow, "buf": buf, "batch": batch, "ser_size": ser_size}


@unit("C28.O5b allocate_and_write bounds the sink by its allocation", targets=["vgi_rpc/shm.py::ShmSegment.allocate_and_write"], search=search_allocate_and_write, min_obligations=4)
def allocate_and_write(S):
    R = run_allocate_and_write(S)
    out, is_dict, overflow, buf, ser_size = R["out"], R["is_dict"], R["overflow"], R["buf"], R["ser_size"]
    S.oblige("O5b.raises_nothing_of_its_own", out.returned, kind="raises")
    if not out.returned:
        return
    allocs = S.events("allocated")
    if not is_dict:
        for _, b, start, limit in S.events("sink"):
            S.oblige("O5b.sink_targets_the_segment", b is buf, kind="trace")
            mine = [a for a in allocs if a[1] is start]  # the allocation this sink writes into
            S.oblige("O5b.sink_has_limit", limit is not None and len(mine) == 1, kind="trace")
            if limit is not None and len(mine) == 1:
                _, o, size = mine[0]
                S.oblige("O5b.sink_region_is_the_allocation", And(start == o, limit == o + size))
        if overflow and allocs:
            # the overflowed region is given back exactly once; whatever is returned instead (None = inline transfer, or
            # another region) is not that region.  Which *format* a substitute region may carry is C29.O7's business.
            freed = [e[1] for e in S.events("freed")]
            S.oblige("O5b.overflow_frees_the_region_exactly_once", freed.count(allocs[0][1]) == 1 and all(f is allocs[0][1] or any(f is a[1] for a in allocs[1:]) for f in freed), kind="trace")
            S.oblige("O5b.overflowed_region_is_not_handed_out", out.value is None or (len(allocs) > 1 and out.value[0] is allocs[-1][1]), kind="trace")
        if allocs and not overflow:
            S.oblige("O5b.returns_offset_of_allocation", out.value is not None and out.value[0] is allocs[0][1], kind="trace")
    else:
        for _, lo, hi, val in S.events("bufwrite"):
            _, o, size = allocs[0]
            S.oblige("O5b.dict_copy_inside_allocation", And(lo == o, hi == o + size))
            S.oblige("O5b.dict_allocation_is_serialized_size", size == ser_size)
    if not allocs:
        S.oblige("O5b.no_allocation_means_none", out.value is None, kind="trace")
    S.canary("O5b.canary.always_none", out.value is None)
