"""C32 Worker pool: exclusive ownership and clean reuse (DESIGN §5 C32).

Monitor argument.  (O1) every access to the idle table and the counters is under the single
``WorkerPool._lock`` (all methods scanned), so any interleaving of borrowers, the reaper and
``close`` is a sequence of critical sections.  (O2-O7) the sequential contract of every critical
section over an *unbounded* state: the idle table is the engine's ordered-dict model whose values
are references into a ghost heap of deques (absolute head/tail indices, entry = transport id +
return time), any number of command keys, any queue lengths.  The monitor invariant ``I``:

* ``CAP``  total idle <= max_idle (total = sum of the queue lengths, kept by the heap model),
* ``ND``   no transport occurs at two places of the idle table (injectivity witnesses slot/pos),
* ``OWN``  no idle transport is owned by a borrower,   ``NC``  no idle transport is closed,
* ``WF/DR`` queues well formed, distinct keys have distinct queue objects,  ``_active >= 0``.

Ownership is ghost state: ``owned(t)`` holds from the moment ``_borrow`` returns ``t`` until
``_return_worker(t, …)`` starts.  ``_borrow`` may only hand out a transport that was not owned and
is not idle afterwards; ``_return_worker`` requires ownership, gives it up, and either closes the
transport (dead / abandoned stream / pool closed) or makes it idle re-establishing ``I``; eviction,
reaping and ``close`` only remove idle entries and close only what they removed.
"""

from __future__ import annotations

import collections
import time

import z3

import vgi_rpc.pool as pl
from pyvc import locks
from pyvc.api import *  # noqa: F403
from pyvc.api import PyRaise, ReplayResult, unit
from pyvc.core import Infeasible
from pyvc.models import SymIter

MANIFEST = {
    "level_text": "Deductive proof of the sequential contract of every critical section of WorkerPool (_borrow, _return_worker, _evict_oldest_locked, _reap_expired, close, __init__) and of _PooledTransport.close over an unbounded idle table (any number of command keys, any queue lengths, any max_idle >= 0 including 0, any clock values), plus a syntactic proof that the idle table and the counters are only touched under WorkerPool._lock. The invariant (idle <= max_idle, no transport idle twice, no idle transport owned or closed, _active >= 0) is inductive over all operations; exclusive ownership is ghost state. Interleavings are covered by serialisation (monitor argument), not enumerated.",
    "level_note": "Assumes threading.Lock mutual exclusion and atomic attribute access; subprocess liveness (proc.poll), process spawn and transport.close are externals with returns-or-raises contracts; the sum of queue lengths is maintained by the deque-heap model (trusted data-structure model); times are mathematical numbers; loop termination not verified; 'connection at a message boundary' after a client-side exception inside a unary call is NOT reduced (needs the wire protocol, C04); engine + z3/cvc5 trusted.",
    "technique": "contract-based deductive verification: monitor invariant + loop invariants over an ordered-dict / deque-heap model with ghost ownership, lock-coverage scan of every method, VCs by pyvc, z3/cvc5",
    "design_ref": "DESIGN.md §5 C32",
}
EXPLANATION = MANIFEST["level_text"]
TRUSTED = [
    "pyvc VC generator (ordered dict = insertion-ordered item sequence with distinct keys)",
    "the deque-heap model in this file: a deque is a reference with absolute head/tail indices; pop/popleft/append/clear/len/[]/iteration as in collections.deque; the ghost `total` changes by exactly the length change of a queue that is in the table (each unit proves that table keys are only dropped with an empty queue and only added with a fresh empty queue)",
    "z3 5.1.0 / cvc5 1.4.0",
    "threading.Lock gives mutual exclusion; CPython attribute loads/stores are atomic",
]
ASSUMPTIONS = [
    "schedules are not enumerated: every interleaving is equivalent to a sequence of critical sections (monitor argument, O1)",
    "close() increments the statistics counter _discards outside the lock and _closed is a monotone flag read/written without the lock (reported by O1 as notes): neither is part of the invariant; _return_worker is verified for both values of _closed",
    "SubprocessTransport(...) returns a new object (not idle, not owned, not closed) or raises OSError; proc.poll() returns None or an exit code; transport.close() returns or raises",
    "a caller of _return_worker owns the transport (it got it from _borrow and has not returned it: _PooledTransport.close is idempotent, O7) and therefore _active >= 1",
    "time.monotonic() readings are finite mathematical numbers (smaller than float('inf')); float rounding ignored",
    "termination of the loops is not verified",
    "whether the pipe is at a message boundary after a unary call was interrupted by a client-side exception is not tracked by the pool and not reduced here (DESIGN: depends on C04)",
]

DEQ = "Deque"
DQS = OpaqueShape(DEQ)
DSORT = opaque_sort(DEQ)
I = z3.IntSort()
B = z3.BoolSort()
LOCK = "pool_lock"


def held(S):
    return LOCK in S.ghost.get("__held__", [])


# ------------------------------------------------------------------------------------------
# the state model
# ------------------------------------------------------------------------------------------


class View:
    """Immutable snapshot of the idle table + deque heap."""

    def __init__(self, D, head, tail, tr, ra, total, hmap=None, tmap=None):
        self.D, self.head, self.tail, self.tr, self.ra, self.total = D, head, tail, tr, ra, total
        self.hmap, self.tmap = hmap, tmap  # the val_f closures of the head/tail maps (identity = untouched)

    @property
    def n(self):
        return SInt(self.D.length)

    def dq(self, i):
        return self.D.val(i).t

    def len_at(self, i):
        d = self.dq(i)
        return SInt(self.tail(d) - self.head(d))

    def inr(self, i, a):
        d = self.dq(i)
        return And(i >= 0, i < self.n, SBool(self.head(d) <= a.t), SBool(a.t < self.tail(d)))

    def tid(self, i, a):
        return self.tr(self.dq(i), a.t)

    # --- invariant parts ---------------------------------------------------------------
    def WF(self):
        return ForAllInt(lambda i: Implies(And(i >= 0, i < self.n), SBool(self.head(self.dq(i)) <= self.tail(self.dq(i)))))

    def DR(self):
        return ForAllInt2(lambda i, j: Implies(And(i >= 0, i < j, j < self.n), SBool(self.dq(i) != self.dq(j))))

    def ND(self, slot, pos):
        return ForAllInt2(lambda i, a: Implies(self.inr(i, a), And(SBool(slot(self.tid(i, a)) == self.dq(i)), SBool(pos(self.tid(i, a)) == a.t))))

    def none(self, pred):
        """no idle transport satisfies pred(tid)"""
        return ForAllInt2(lambda i, a: Implies(self.inr(i, a), Not(SBool(pred(self.tid(i, a))))))

    def not_idle(self, t):
        return ForAllInt2(lambda i, a: Implies(self.inr(i, a), SBool(self.tid(i, a) != t)))

    def sum_facts(self):
        """consequences of total = sum of the (non-negative) queue lengths"""
        return And(
            self.total >= 0,
            ForAllInt(lambda i: Implies(And(i >= 0, i < self.n), self.len_at(i) <= self.total)),
            Implies(self.total > 0, ExistsInt(lambda i: And(i >= 0, i < self.n, self.len_at(i) > 0))),
            Implies(self.n == 0, self.total == 0),
        )


class Model:
    """Live state: the pool object `me` (field _idle = SODict key -> Deque reference), the ghost heap
    in S.ghost (head/tail maps, total) and the entry functions tr/ra (written only by append)."""

    def __init__(self, S, arity=1, closed_flag=False, empty=False):
        self.S = S
        self.arity = arity
        self.keyshape = TupleShape(*([StrShape] * arity))
        self.D = SODict.empty(self.keyshape, DQS) if empty else SODict.fresh("idle", self.keyshape, DQS)
        S.ghost["head"] = SMap.fresh("head", DQS, IntShape)
        S.ghost["tail"] = SMap.fresh("tail", DQS, IntShape)
        S.ghost["total"] = SInt(z3.Int(S.fresh_name("total")))
        tr0 = z3.Function("hp_tr", DSORT, I, I)
        ra0 = z3.Function("hp_ra", DSORT, I, I)
        self.tr = lambda d, a: tr0(d, a)
        self.ra = lambda d, a: ra0(d, a)
        self.args_f = [z3.Function(f"proc_arg{k}", I, z3.StringSort()) for k in range(arity)]
        # ghost ownership / closedness of the pre-state, injectivity witnesses
        self.owned0 = z3.Function("gh_owned", I, B)
        self.closed0 = z3.Function("gh_closed", I, B)
        self.slot0 = z3.Function("wit_slot", I, DSORT)
        self.pos0 = z3.Function("wit_pos", I, I)
        self.max_idle = S.int("max_idle")
        self.active0 = S.int("active")
        self.timeout = S.int("idle_timeout")
        self.INF = SInt(z3.Int(S.fresh_name("INF")))
        self.now = S.int("now")
        cnt = {c: S.int(c) for c in ("_borrows", "_spawns", "_reuses", "_returns", "_discards", "_evictions_idle", "_evictions_max")}
        self.lock = SObj(None, kind="Lock", name=LOCK)
        self.me = SObj(
            pl.WorkerPool,
            _idle=self.D,
            _lock=self.lock,
            _max_idle=self.max_idle,
            _idle_timeout=self.timeout,
            _active=self.active0,
            _closed=closed_flag,
            _stderr=pl.StderrMode.INHERIT,
            _stderr_logger=None,
            _shm_size=None,
            **cnt,
        )
        self.v0 = self.view()
        self.owned_now = self.owned0  # ghost ownership function of the current state
        self.install()

    # --- views ---------------------------------------------------------------------------
    def cur_D(self):
        return self.me.fields["_idle"]

    def view(self):
        S = self.S
        h, t = S.ghost["head"].snapshot(), S.ghost["tail"].snapshot()
        D = self.cur_D()
        if not isinstance(D, SODict):
            raise Unsupported(f"_idle was replaced by {D!r}")
        return View(D.snapshot(), lambda d: h.val_f(d).t, lambda d: t.val_f(d).t, self.tr, self.ra, S.ghost["total"], h.val_f, t.val_f)

    def head(self, d):
        return self.S.ghost["head"].val_f(d).t

    def tail(self, d):
        return self.S.ghost["tail"].val_f(d).t

    def assume_invariant(self):
        S, v = self.S, self.v0
        S.assume(self.max_idle >= 0)  # established by __init__ (O8)
        S.assume(self.timeout > 0)
        S.assume(self.active0 >= 0)
        S.assume(v.WF())
        S.assume(v.DR())
        S.assume(v.ND(self.slot0, self.pos0))
        S.assume(v.none(self.owned0))
        S.assume(v.none(self.closed0))
        S.assume(v.sum_facts())
        S.assume(v.total <= self.max_idle)
        # every clock reading stored so far is finite
        S.assume(ForAllInt2(lambda i, a: Implies(v.inr(i, a), SBool(v.ra(v.dq(i), a.t) < self.INF.t))))
        S.assume(self.now < self.INF)

    # --- wrappers handed to the interpreted code -----------------------------------------
    def transport(self, tid):
        args = SStr(self.args_f[0](tid.t)) if self.arity == 1 else [SStr(f(tid.t)) for f in self.args_f]
        proc = SObj(None, kind="Proc", tid=tid, args=args, pid=SInt(tid.t))
        return SObj(None, kind="Transport", tid=tid, proc=proc)

    def entry(self, d, a):
        tid = SInt(self.tr(d, a))
        return SObj(pl._IdleEntry, key=None, transport=self.transport(tid), returned_at=SInt(self.ra(d, a)))

    def fresh_key(self, name):
        return tuple(self.S.str(f"{name}{k}") for k in range(self.arity))

    def new_transport(self, name):
        """a transport object nobody has seen yet: not idle, not owned, not closed"""
        S = self.S
        tid = S.int(name)
        S.assume(Not(SBool(self.owned0(tid.t))))
        S.assume(Not(SBool(self.closed0(tid.t))))
        S.assume(self.v0.not_idle(tid.t))
        return self.transport(tid)

    # --- deque + externals contracts --------------------------------------------------------
    def install(self):
        S, M = self.S, self
        H = S.handlers

        def dlen(S, d):
            return SInt(M.tail(d.t) - M.head(d.t))

        def add_total(delta):
            S.ghost["total"] = S.ghost["total"] + delta

        def dq_pop(S, d, *a):
            if a:
                raise Unsupported("deque.pop takes no argument")
            if not S.fork(dlen(S, d) > 0):
                raise PyRaise(SExc(IndexError, ("pop from an empty deque",)))
            at = M.tail(d.t) - 1
            e = M.entry(d.t, at)
            S.ghost["tail"].store(d, SInt(at))
            add_total(-1)
            S.event("idle_remove", e.fields["transport"].fields["tid"], held(S), "pop")
            return e

        def dq_popleft(S, d):
            if not S.fork(dlen(S, d) > 0):
                raise PyRaise(SExc(IndexError, ("pop from an empty deque",)))
            at = M.head(d.t)
            e = M.entry(d.t, at)
            S.ghost["head"].store(d, SInt(at + 1))
            add_total(-1)
            S.event("idle_remove", e.fields["transport"].fields["tid"], held(S), "popleft")
            return e

        def dq_append(S, d, e):
            if not (isinstance(e, SObj) and e.cls is pl._IdleEntry):
                raise Unsupported(f"deque.append of {e!r}")
            t = e.fields["transport"]
            if not (isinstance(t, SObj) and t.kind == "Transport"):
                raise Unsupported(f"idle entry holds {t!r}")
            if getattr(M, "forbid_add", None):
                S.oblige(f"{M.forbid_add}.nothing_becomes_idle", False, kind="trace")
            at = M.tail(d.t)
            tid, when = t.fields["tid"], e.fields["returned_at"]
            otr, ora, dt = M.tr, M.ra, d.t
            M.tr = lambda dd, aa: z3.If(z3.And(dd == dt, aa == at), tid.t, otr(dd, aa))
            M.ra = lambda dd, aa: z3.If(z3.And(dd == dt, aa == at), when.t, ora(dd, aa))
            S.ghost["tail"].store(d, SInt(at + 1))
            add_total(1)
            S.event("idle_add", tid, held(S), d, SInt(at))
            return None

        def dq_clear(S, d):
            add_total(-dlen(S, d))
            S.ghost["head"].store(d, SInt(M.tail(d.t)))
            S.event("idle_clear", d, held(S))
            return None

        def dq_getitem(S, d, idx):
            if isinstance(idx, slice):
                raise PyRaise(SExc(TypeError, ("sequence index must be integer, not 'slice'",)))
            n = dlen(S, d)
            k = SInt(V_arith(idx))
            if not S.fork(And(k >= -n, k < n)):
                raise PyRaise(SExc(IndexError, ("deque index out of range",)))
            a = z3.If(k.t < 0, M.tail(d.t) + k.t, M.head(d.t) + k.t)
            return M.entry(d.t, z3.simplify(a) if isinstance(idx, int) else a)

        def dq_iter(S, d):
            h = M.head(d.t)
            tr_, ra_ = M.tr, M.ra
            frozen = Model.__new__(Model)
            frozen.__dict__.update(M.__dict__)
            frozen.tr, frozen.ra = tr_, ra_
            return SymIter(M.tail(d.t) - h, lambda k: frozen.entry(d.t, h + k))

        H[f"{DEQ}.__len__"] = dlen
        H[f"{DEQ}.pop"] = dq_pop
        H[f"{DEQ}.popleft"] = dq_popleft
        H[f"{DEQ}.append"] = dq_append
        H[f"{DEQ}.clear"] = dq_clear
        H[f"{DEQ}.__getitem__"] = dq_getitem
        H[f"{DEQ}.__iter__"] = dq_iter

        def new_deque(S, *a):
            if a:
                raise Unsupported("deque(iterable)")
            d = DQS.fresh("newdq")
            D = M.cur_D().snapshot()
            # a new object: different from every queue in the table (and from every reference seen so far)
            S.assume(ForAllInt(lambda i: Implies(And(i >= 0, SBool(i.t < D.length)), SBool(D.val(i).t != d.t))))
            for seen in M.seen_refs():
                S.assume(SBool(seen != d.t))
            S.ghost["head"].store(d, SInt(z3.IntVal(0)))
            S.ghost["tail"].store(d, SInt(z3.IntVal(0)))
            S.event("new_deque", d)
            return d

        H[collections.deque] = new_deque
        H[pl.deque] = new_deque

        def h_sum(S, xs, start=0):
            from pyvc import models

            if not isinstance(xs, SList):
                return models.b_sum(S.interp, xs, start)
            v = M.view()
            S.oblige("model.sum_is_over_the_lengths_of_all_idle_queues", And(SBool(xs.length == v.D.length), ForAllInt(lambda j: Implies(And(j >= 0, j < v.n), xs.get(j) == v.len_at(j))), start == 0), kind="pre")
            return S.ghost["total"]

        H[sum] = h_sum
        H[time.monotonic] = lambda S: M.now

        def h_float(S, x=0.0):
            if x == "inf":
                return M.INF
            raise Unsupported(f"float({x!r})")

        H[float] = h_float

        def poll(S, p):
            alive = True if getattr(M, "always_alive", False) else S.choose(2, "poll") == 0
            S.event("poll", p.fields["tid"], alive, held(S))
            return None if alive else 1

        H["Proc.poll"] = poll

        def t_close(S, t):
            ok = S.choose(2, "close") == 0
            tid = t.fields["tid"]
            # precondition of closing a worker: nobody can get hold of it any more
            S.oblige("ext.closed_transport_is_neither_idle_nor_owned_by_a_borrower", And(M.view().not_idle(tid.t), Not(SBool(M.owned_now(tid.t)))), kind="pre")
            S.event("close", tid, held(S), ok)
            if not ok:
                raise PyRaise(SExc(OSError, ("close failed",)))

        H["Transport.close"] = t_close

        def spawn(S, cmd, **kw):
            if S.choose(2, "spawn") == 1:
                S.event("spawn_failed", held(S))
                raise PyRaise(SExc(OSError, ("cannot spawn",)))
            t = M.new_transport("spawned")
            S.event("spawn", t.fields["tid"], held(S))
            return t

        H[pl.SubprocessTransport] = spawn
        S.inline.add("dataclass:_IdleEntry")

    def seen_refs(self):
        out = []
        for e in self.S.trace:
            if e[0] == "new_deque":
                out.append(e[1].t)
        return out

    # --- post-state helpers --------------------------------------------------------------------
    def closed_after(self):
        cl = [e[1].t for e in self.S.events("close")]
        return lambda t: z3.Or(self.closed0(t), *[t == c for c in cl])

    def field(self, name):
        return self.me.fields[name]


def V_arith(x):
    from pyvc import values

    return values._arith(x)


def prune(S, ms=3000):
    """Drop a path whose path condition is unsatisfiable *with* its quantified parts (the engine's
    feasibility check looks only at the quantifier-free part, so `key in table` followed by
    `key not in table` on an unchanged table survives as a dead path ending in a KeyError)."""
    s = z3.Solver()
    s.set("timeout", ms)
    s.add(*S.pc)
    if s.check() == z3.unsat:
        raise Infeasible()


def canary_once(S, name, goal):
    """Emit a canary on the first qualifying path of this exploration only (a canary must be refuted
    on >= 1 path; with a quantified path condition its refutation is settled in bounded mode, so one
    instance keeps that cheap)."""
    done = S.explorer.__dict__.setdefault("_canaries_emitted", set())
    if name in done:
        return
    done.add(name)
    S.canary(name, goal)


def oblige_qf(S, name, goal, **kw):
    """An arithmetic obligation proved from the quantifier-free part of the path condition only
    (fewer hypotheses: still sound; and a refutation comes back from z3 with a model at once)."""
    from pyvc.core import has_quantifier

    full = S.pc
    S.pc = [c for c in full if not has_quantifier(c)]
    try:
        S.oblige(name, goal, **kw)
    finally:
        S.pc = full


def prune_artifacts(S, out):
    """Only paths ending in KeyError / IndexError (table or queue lookups the invariant excludes) are
    candidates for being dead; everything else is kept without a solver call."""
    if out.raised and exc_is(out.exc, (KeyError, IndexError)):
        prune(S)


def untouched(v1, v0):
    """syntactic identity of table and heap (every mutation replaces one of these objects/terms)"""
    return (
        v1.D.items.getf is v0.D.items.getf
        and z3.eq(z3.simplify(v1.D.items.length), z3.simplify(v0.D.items.length))
        and v1.tr is v0.tr
        and v1.ra is v0.ra
        and v1.total is v0.total
        and v1.hmap is v0.hmap
        and v1.tmap is v0.tmap
    )


def check_frame_and_invariant(S, M, v1, slot1, pos1, owned1, prefix, dict_relation):
    """I is re-established in the post-state v1 (with the given witnesses / ownership), and the
    table changed only as `dict_relation` says (which justifies the incremental `total`).
    Ownership only shrinks or grows by the transport handed out, closedness grows only by transports
    that were not idle when closed (precondition of Transport.close), so on a path that did not touch
    table or heap at all, I(v1) is literally the assumed I(v0) and no solver call is made."""
    muts = [e for e in S.trace if e[0] in ("idle_remove", "idle_add", "idle_clear")]
    S.oblige(f"{prefix}.lock.queues_mutated_only_under_lock", all(e[2] is True for e in muts), kind="lock")
    oblige_qf(S, f"{prefix}.I.active_nonnegative", M.field("_active") >= 0)
    S.oblige(f"{prefix}.I.max_idle_unchanged", M.field("_max_idle") is M.max_idle, kind="post")
    if untouched(v1, v0 := M.v0) and not muts:
        S.oblige(f"{prefix}.I.state_untouched", True, kind="post")
        return
    closed1 = M.closed_after()
    S.oblige(f"{prefix}.I.table_well_formed", And(v1.WF(), v1.DR(), v1.D.distinct_keys()))
    S.oblige(f"{prefix}.I.no_transport_idle_twice", v1.ND(slot1, pos1))
    S.oblige(f"{prefix}.I.no_idle_transport_is_owned_or_closed", And(v1.none(owned1), v1.none(closed1)))
    oblige_qf(S, f"{prefix}.I.idle_at_most_max_idle", v1.total <= M.max_idle)
    S.oblige(f"{prefix}.frame.table_keys_dropped_only_when_empty", dict_relation, kind="trace")


def same_table(v1, v0):
    return And(v1.n == v0.n, ForAllInt(lambda i: Implies(And(i >= 0, i < v0.n), eq(v1.D.items.get(i), v0.D.items.get(i)))))


def table_minus(v1, v0, p):
    """v1.D == v0.D without position p"""
    return And(
        p >= 0,
        p < v0.n,
        v1.n == v0.n - 1,
        ForAllInt(lambda i: Implies(And(i >= 0, i < p), eq(v1.D.items.get(i), v0.D.items.get(i)))),
        ForAllInt(lambda i: Implies(And(i >= p, i < v1.n), eq(v1.D.items.get(i), v0.D.items.get(i + 1)))),
    )


# ------------------------------------------------------------------------------------------
# O1 lock coverage (every method of WorkerPool)
# ------------------------------------------------------------------------------------------

STATE_FIELDS = {"_idle", "_active"}
COUNTERS = {"_borrows", "_spawns", "_reuses", "_returns", "_discards", "_evictions_idle", "_evictions_max"}
DOCUMENTED_UNLOCKED = {("close", "_discards")}  # statistics counter bumped while closing the drained workers (DESIGN §5 C32: a note)


@unit("C32.O1 lock coverage", targets=["vgi_rpc/pool.py::WorkerPool (all methods)"], min_obligations=20)
def coverage(S):
    acc = locks.coverage(pl.WorkerPool, "_lock", STATE_FIELDS | COUNTERS, exempt_methods={"__init__"}, held_helpers={"_evict_oldest_locked"})
    n_ob = 0
    for a in acc:
        S.cur_site = f"WorkerPool.{a.method}:{a.line}: {a.text}"
        if not a.covered and (a.method, a.field) in DOCUMENTED_UNLOCKED and a.field in COUNTERS:
            S.note(f"O1 note: WorkerPool.{a.method} touches the statistics counter {a.field} outside the lock (line {a.line}); it is not part of the invariant")
            continue
        S.oblige(f"O1.coverage.{a.method}.{a.field}", a.covered, kind="lock", why=a.why, witness=f"{a.method}:{a.text}")
        n_ob += 1
    S.oblige("O1.some_accesses_found", n_ob >= 20, kind="lock")
    # _closed is a monotone flag outside the monitor: report where it is touched
    fl = locks.coverage(pl.WorkerPool, "_lock", {"_closed"}, exempt_methods={"__init__"})
    for a in fl:
        if not a.covered:
            S.note(f"O1 note: WorkerPool.{a.method} accesses the flag _closed outside the lock (line {a.line}); _return_worker is verified for both values")
    S.canary("O1.canary.no_access_is_covered", not any(a.covered for a in acc))


# ------------------------------------------------------------------------------------------
# O2 _borrow
# ------------------------------------------------------------------------------------------


class ReplayTimeout(BaseException):
    """raised from SIGALRM inside a native replay; a BaseException so that `except Exception` / suppress(Exception)
    inside a (possibly non-terminating, mutated) loop cannot swallow it"""


def limited(fn, seconds=1.5):
    """run a native replay with a wall-clock limit (a mutated loop may not terminate)"""
    import signal

    def on_alarm(signum, frame):
        raise ReplayTimeout()

    def wrapped(inputs, ob):
        try:
            old = signal.signal(signal.SIGALRM, on_alarm)
        except ValueError:  # not in the main thread
            return fn(inputs, ob)
        signal.setitimer(signal.ITIMER_REAL, seconds, 0.25)
        try:
            return fn(inputs, ob)
        except ReplayTimeout:
            return ReplayResult(False, f"native replay did not terminate within {seconds}s (termination is not part of the property)")
        finally:
            signal.setitimer(signal.ITIMER_REAL, 0)
            signal.signal(signal.SIGALRM, old)

    return wrapped


def safe_close(pool):
    """close the replay pool; after an interrupted (non-terminating) critical section CPython leaves the
    lock held, so give the pool a fresh one first"""
    import threading

    if pool._lock.locked():
        pool._lock = threading.Lock()
    pool.close()


def build_pool(inputs):
    """A real WorkerPool whose idle table has len(lens) keys with lens[i] fake workers each."""
    def num(x, default=0):
        try:
            return int(x)
        except (TypeError, ValueError):
            return default

    if "lens" in inputs:
        raw = inputs["lens"]
        lens = [min(6, max(0, num(x))) for x in (raw if isinstance(raw, list) else [])][:6]
    else:  # spread `total` idle workers over `n_keys` command keys
        n, tot = min(6, max(0, num(inputs.get("n_keys", 0)))), min(12, max(0, num(inputs.get("total", 0))))
        lens = [1] * min(n, tot)
        if lens:
            lens[-1] += tot - len(lens)
    inputs["lens"] = lens
    max_idle = num(inputs.get("max_idle", 4), 4)
    pool = pl.WorkerPool(max_idle=max(0, max_idle), idle_timeout=max(1, num(inputs.get("idle_timeout", 60), 60)))
    pool._stop_event.set()
    clock = 100.0
    workers = []
    for i, n in enumerate(lens):
        if n == 0:
            continue
        dq = pool._idle.setdefault((f"k{i}",), pl.deque())
        for _ in range(n):
            w = FakeTransport([f"k{i}"])
            clock += 1
            dq.append(pl._IdleEntry(key=(f"k{i}",), transport=w, returned_at=clock))
            workers.append(w)
    pool._active = max(0, num(inputs.get("active", 1), 1))
    return pool, workers


class FakeProc:
    def __init__(self, args, dead=False):
        self.args, self.pid, self.returncode, self.dead = args, 4242, (1 if dead else None), dead

    def poll(self):
        return 1 if self.dead else None


class FakeTransport:
    def __init__(self, args, dead=False):
        self.proc = FakeProc(args, dead)
        self.closed = 0

    def close(self):
        self.closed += 1


def idle_list(pool):
    return [e.transport for dq in pool._idle.values() for e in dq]


def judge_pool(pool, detail):
    problems = []
    idle = idle_list(pool)
    if len(idle) > pool._max_idle:
        problems.append(f"idle_count {len(idle)} > max_idle {pool._max_idle}")
    if len({id(t) for t in idle}) != len(idle):
        problems.append("a transport is idle twice")
    if any(t.closed for t in idle):
        problems.append("a closed transport is idle")
    if pool._active < 0:
        problems.append("_active < 0")
    return problems


def _pool_script(max_idle, ops):
    """Drive a real WorkerPool through its own methods only (spawning replaced by fake transports, the clock patched):
    ops = ("B", k) borrow for command k / ("R",) return the oldest held worker / ("E",) let every idle worker expire and
    reap.  Returns a problem description or ''."""
    from unittest import mock

    clock = {"t": 1000.0}
    with mock.patch.object(pl, "SubprocessTransport", lambda args, **kw: FakeTransport(list(args))), mock.patch.object(pl.time, "monotonic", lambda: clock["t"]):
        pool = pl.WorkerPool(max_idle=max_idle, idle_timeout=10.0)
        pool._stop_event.set()
        held = []
        try:
            for i, op in enumerate(ops):
                clock["t"] += 0.5
                if op[0] == "B":
                    held.append(pool._borrow((f"k{op[1]}",)))
                elif op[0] == "R":
                    if held:
                        pool._return_worker(held.pop(0), False)
                else:
                    clock["t"] += 100.0
                    pool._reap_expired()
                probs = judge_pool(pool, "")
                if any(t is h for t in idle_list(pool) for h in held):
                    probs.append("a borrowed worker is idle at the same time")
                if probs:
                    return f"max_idle={max_idle} after {list(ops[: i + 1])}: " + "; ".join(probs)
        finally:
            safe_close(pool)
    return ""


def _pool_script_limited(max_idle, ops, seconds=1.5):
    """_pool_script under a wall-clock limit: a changed loop may not terminate (termination is not part of the property)."""
    import signal

    def on_alarm(signum, frame):
        raise ReplayTimeout()

    try:
        old = signal.signal(signal.SIGALRM, on_alarm)
    except ValueError:  # not in the main thread
        return _pool_script(max_idle, ops)
    signal.setitimer(signal.ITIMER_REAL, seconds, 0.25)
    try:
        return _pool_script(max_idle, ops)
    except ReplayTimeout:
        raise SearchGaveUp() from None  # a loop that does not end: stop the whole search instead of timing out 2000 times
    finally:
        signal.setitimer(signal.ITIMER_REAL, 0)
        signal.signal(signal.SIGALRM, old)


class SearchGaveUp(Exception):
    pass


def search_pool(ob, seed=0):
    try:
        return _search_pool(ob, seed)
    except SearchGaveUp:
        return None


def _search_pool(ob, seed=0):
    """Bounded native search used when a pool unit leaves the engine's reach or loses its proof: guided scripts (fill one
    idle worker per command, expire them all in one sweep, then borrow max_idle+1 at once and return them all) and
    2000 seeded random scripts of 14 operations over 3 commands."""
    import random

    for m in (1, 2, 3):
        for cmds in (1, 2, 3):
            fill = [("B", k) for k in range(cmds)] + [("R",)] * cmds
            burst = [("B", 0)] * (m + 1) + [("R",)] * (m + 1)
            for script in (fill + [("E",)] + burst, fill + burst + [("E",)] + burst, fill + [("E",)] + fill + [("E",)] + burst):
                p = _pool_script_limited(m, script)
                if p:
                    return {"max_idle": m, "script": [list(o) for o in script]}, ReplayResult(True, p)
    rnd = random.Random(seed)
    for _ in range(2000):
        m = rnd.choice((0, 1, 2, 3))
        script = [rnd.choice([("B", 0), ("B", 1), ("B", 2), ("R",), ("R",), ("E",)]) for _ in range(14)]
        p = _pool_script_limited(m, script)
        if p:
            return {"max_idle": m, "script": [list(o) for o in script]}, ReplayResult(True, p)
    return None


def replay_borrow(inputs, ob):
    pool, workers = build_pool(inputs)
    try:
        if len(idle_list(pool)) > pool._max_idle:
            return ReplayResult(False, "model outside the pool invariant")
        dead = bool(inputs.get("dead", False))
        kp = inputs.get("key_pos", 0)
        key = (f"k{kp if isinstance(kp, int) else 0}",)
        dq = pool._idle.get(key)
        if dq and dead:
            dq[-1].transport.proc.dead = True
        spawned = []
        orig = pl.SubprocessTransport

        def fake_spawn(cmd, **kw):
            w = FakeTransport(list(cmd))
            spawned.append(w)
            return w

        pl.SubprocessTransport = fake_spawn
        try:
            a0 = pool._active
            t = pool._borrow(key)
        finally:
            pl.SubprocessTransport = orig
        problems = judge_pool(pool, "")
        if t in idle_list(pool):
            problems.append("the borrowed transport is still idle")
        if t.proc.poll() is not None:
            problems.append("a dead worker was handed out")
        if t.closed:
            problems.append("a closed worker was handed out")
        if pool._active != a0 + 1:
            problems.append("_active not incremented")
        for w in workers:
            if w.proc.dead and w not in idle_list(pool) and not w.closed:
                problems.append("dead worker discarded without close")
        return ReplayResult(bool(problems), f"_borrow({key}) lens={inputs.get('lens')} max_idle={pool._max_idle} dead={dead}: " + "; ".join(problems))
    finally:
        safe_close(pool)


@unit("C32.O2 _borrow", targets=["vgi_rpc/pool.py::WorkerPool._borrow"], search=search_pool, replay=limited(replay_borrow), min_obligations=20)
def borrow(S):
    M = Model(S, 1)
    v0 = M.v0
    S.inputs["n_keys"], S.inputs["total"] = v0.n, v0.total  # constants only: the model ships them without re-solving
    M.assume_invariant()
    key = M.fresh_key("key")
    out = S.outcome(pl.WorkerPool._borrow, M.me, key)
    prune_artifacts(S, out)
    v1 = M.view()
    S.oblige("O2.lock_released_on_exit", not held(S), kind="lock")
    removed = S.events("idle_remove")
    polls = S.events("poll")
    closes = S.events("close")
    spawns = S.events("spawn")
    S.inputs["dead"] = bool(polls and not polls[0][2])
    S.oblige("O2.at_most_one_entry_leaves_the_table", len(removed) <= 1 and not S.events("idle_add") and not S.events("idle_clear"), kind="trace")
    oblige_qf(S, "O2.total_tracks_the_removal", v1.total == v0.total - len(removed))
    # the table: unchanged, or the borrowed key dropped because its queue became empty
    if removed:
        p = SInt(z3.Int(S.fresh_name("kp")))
        S.inputs["key_pos"] = p
        S.assume(And(p >= 0, p < v0.n, eq(v0.D.key(p), key)))
        rel = Or(same_table(v1, v0), And(table_minus(v1, v0, p), SBool(v1.head(v0.dq(p)) == v1.tail(v0.dq(p)))))
    else:
        rel = same_table(v1, v0)
    owned1 = M.owned0
    if out.returned:
        t = out.value
        S.oblige("O2.returns_a_transport", isinstance(t, SObj) and t.kind == "Transport", kind="post")
        if not (isinstance(t, SObj) and t.kind == "Transport"):
            return
        tid = t.fields["tid"].t
        owned1 = lambda x: z3.Or(M.owned0(x), x == tid)  # noqa: E731
        S.oblige("O2.borrowed_transport_not_held_by_anyone_else", Not(SBool(M.owned0(tid))))
        S.oblige("O2.borrowed_transport_is_not_idle_afterwards", v1.not_idle(tid))
        S.oblige("O2.borrowed_transport_is_not_closed", Not(SBool(M.closed_after()(tid))))
        oblige_qf(S, "O2.active_incremented", M.field("_active") == M.active0 + 1)
        if spawns:
            S.oblige("O2.spawned_outside_the_lock", spawns[0][2] is False, kind="lock")
            S.oblige("O2.spawned_transport_is_the_result", spawns[0][1].t is tid or z3.eq(spawns[0][1].t, tid), kind="post")
        else:
            # reuse: the transport came out of the idle table and was seen alive under the lock
            S.oblige("O2.reused_transport_was_removed_from_the_table", len(removed) == 1 and z3.eq(removed[0][1].t, tid), kind="trace")
            alive = [e for e in polls if z3.eq(e[1].t, tid) and e[2] is True and e[3] is True]
            S.oblige("O2.reused_transport_polled_alive_under_lock", len(alive) >= 1, kind="trace")
    else:
        S.oblige("O2.raises_only_OSError_from_spawn", exc_is(out.exc, OSError) and len(S.events("spawn_failed")) == 1, kind="raises")
        oblige_qf(S, "O2.active_restored_when_spawn_fails", M.field("_active") == M.active0)
    # a dead idle worker is discarded: removed from the table and closed, never handed out
    for e in polls:
        if e[2] is False:
            S.oblige("O2.dead_worker_is_closed", any(z3.eq(c[1].t, e[1].t) for c in closes), kind="trace")
            if out.returned:
                S.oblige("O2.dead_worker_not_handed_out", not z3.eq(out.value.fields["tid"].t, e[1].t) if isinstance(out.value, SObj) else False, kind="trace")
    for c in closes:
        S.oblige("O2.closes_only_what_it_removed", any(z3.eq(c[1].t, r[1].t) for r in removed), kind="trace")
        S.oblige("O2.closed_transport_not_idle", v1.not_idle(c[1].t))
        S.oblige("O2.closed_transport_not_owned", Not(SBool(owned1(c[1].t))))
    check_frame_and_invariant(S, M, v1, M.slot0, M.pos0, owned1, "O2", rel)


# ------------------------------------------------------------------------------------------
# O4 _evict_oldest_locked (caller holds the lock): removes exactly one idle entry iff total > 0
# ------------------------------------------------------------------------------------------


class OptKeyShape(Shape):
    """havoc shape of `oldest_key`: None or a key tuple (one path each)"""

    def __init__(self, keyshape):
        self.keyshape = keyshape

    def fresh(self, name):
        from pyvc import values

        S = values.ctx()
        if S.choose(2, "oldest_key is None?") == 0:
            return None
        return self.keyshape.fresh(name)


def replay_evict(inputs, ob):
    pool, workers = build_pool(inputs)
    try:
        before = idle_list(pool)
        with pool._lock:
            t = pool._evict_oldest_locked()
        after = idle_list(pool)
        problems = []
        if before and (t is None or len(after) != len(before) - 1 or t in after or t not in before):
            problems.append("total > 0 but not exactly one entry removed")
        if not before and (t is not None or after):
            problems.append("nothing idle but something happened")
        return ReplayResult(bool(problems), f"_evict_oldest_locked lens={inputs.get('lens')}: " + "; ".join(problems))
    finally:
        safe_close(pool)


@unit("C32.O4 _evict_oldest_locked", targets=["vgi_rpc/pool.py::WorkerPool._evict_oldest_locked"], search=search_pool, replay=limited(replay_evict), min_obligations=10)
def evict(S):
    M = Model(S, 1)
    v0 = M.v0
    S.inputs["n_keys"], S.inputs["total"] = v0.n, v0.total  # constants only: the model ships them without re-solving
    M.assume_invariant()
    S.ghost["__held__"] = [LOCK]  # contract: the caller holds the lock

    def inv(L):
        k = L.idx
        if L.oldest_key is None:
            return [("nothing_found_so_far", And(L.oldest_time == M.INF, ForAllInt(lambda j: Implies(And(j >= 0, j < k), v0.len_at(j) == 0))))]
        return [("oldest_key_has_a_nonempty_queue", ExistsInt(lambda p: And(p >= 0, p < k, p < v0.n, eq(v0.D.key(p), L.oldest_key), v0.len_at(p) > 0)))]

    S.invariants[("WorkerPool._evict_oldest_locked", 0)] = inv
    S.loop_havoc[("WorkerPool._evict_oldest_locked", 0)] = {"oldest_key": OptKeyShape(M.keyshape), "oldest_time": IntShape}
    ev0 = M.field("_evictions_max")
    out = S.outcome(pl.WorkerPool._evict_oldest_locked, M.me)
    prune_artifacts(S, out)
    v1 = M.view()
    S.oblige("O4.raises_nothing", out.returned, kind="raises")
    if not out.returned:
        return
    removed = S.events("idle_remove")
    S.oblige("O4.nothing_added_or_closed", not S.events("idle_add") and not S.events("idle_clear") and not S.events("close"), kind="trace")
    t = out.value
    if t is None:
        S.oblige("O4.returns_None_only_when_nothing_is_idle", v0.total == 0)
        S.oblige("O4.None_changes_nothing", And(same_table(v1, v0), v1.total == v0.total, len(removed) == 0))
        rel = same_table(v1, v0)
    else:
        S.oblige("O4.returns_a_transport", isinstance(t, SObj) and t.kind == "Transport", kind="post")
        if not (isinstance(t, SObj) and t.kind == "Transport"):
            return
        tid = t.fields["tid"].t
        S.oblige("O4.exactly_one_entry_removed_and_returned", len(removed) == 1 and z3.eq(removed[0][1].t, tid), kind="trace")
        oblige_qf(S, "O4.total_decremented", v1.total == v0.total - 1)
        S.oblige("O4.evicted_transport_is_not_idle_afterwards", v1.not_idle(tid))
        S.oblige("O4.evicted_transport_was_unowned_and_open", And(Not(SBool(M.owned0(tid))), Not(SBool(M.closed0(tid)))))
        oblige_qf(S, "O4.eviction_counted", M.field("_evictions_max") == ev0 + 1)
        S.lemma("O4.evicted_entry_sat_in_a_table_queue", ExistsInt(lambda q: And(q >= 0, q < v0.n, SBool(M.slot0(tid) == v0.dq(q)))))
        p = SInt(z3.Int(S.fresh_name("kp")))  # skolem witness of the lemma just proved
        S.assume(And(p >= 0, p < v0.n, SBool(M.slot0(tid) == v0.dq(p))))
        rel = Or(same_table(v1, v0), And(table_minus(v1, v0, p), SBool(v1.head(v0.dq(p)) == v1.tail(v0.dq(p)))))
    check_frame_and_invariant(S, M, v1, M.slot0, M.pos0, M.owned0, "O4", rel)


# ------------------------------------------------------------------------------------------
# O3 _return_worker
# ------------------------------------------------------------------------------------------


def replay_return(inputs, ob):
    pool, workers = build_pool(inputs)
    try:
        if len(idle_list(pool)) > pool._max_idle:
            return ReplayResult(False, "model outside the pool invariant")
        pool._active = max(1, pool._active)
        dead, abandoned, closed = bool(inputs.get("dead")), bool(inputs.get("stream_opened")), bool(inputs.get("pool_closed"))
        t = FakeTransport(["k0"], dead=dead)
        pool._closed = closed
        a0 = pool._active
        try:
            pool._return_worker(t, abandoned)
        finally:
            pool._closed = False
        problems = judge_pool(pool, "")
        idle = idle_list(pool)
        if (dead or abandoned or closed) and (t in idle or not t.closed):
            problems.append("a dead / abandoned / late worker must be closed and not idle")
        if not (dead or abandoned or closed) and t not in idle and pool._max_idle > 0:
            problems.append("a healthy worker was not kept although max_idle > 0")
        if pool._active != a0 - 1:
            problems.append("_active not decremented")
        for w in workers:
            if w.closed and w in idle:
                problems.append("an idle worker was closed")
        return ReplayResult(
            bool(problems),
            f"WorkerPool(max_idle={pool._max_idle}) idle queue lengths {inputs.get('lens')}; _return_worker(worker, stream_opened={abandoned}) dead={dead} pool_closed={closed} -> idle_count={len(idle)}: " + "; ".join(problems),
        )
    finally:
        safe_close(pool)


@unit("C32.O3 _return_worker", targets=["vgi_rpc/pool.py::WorkerPool._return_worker"], search=search_pool, replay=limited(replay_return), min_obligations=30)
def return_worker(S):
    # proc.args a sequence (key = tuple of its strs) is explored on the keep path only; a str on all paths
    variant = S.choose(3, "args=str,pool open / args=str,pool closed / args=sequence,keep path")
    arity = 2 if variant == 2 else 1
    pool_closed = variant == 1
    M = Model(S, arity, closed_flag=pool_closed)
    v0 = M.v0
    S.inputs["n_keys"], S.inputs["total"] = v0.n, v0.total  # constants only: the model ships them without re-solving
    S.inputs["pool_closed"] = pool_closed
    M.assume_invariant()
    tid = S.int("worker")
    # precondition: the caller owns the transport (got it from _borrow, has not returned it yet)
    S.assume(SBool(M.owned0(tid.t)))
    S.assume(Not(SBool(M.closed0(tid.t))))
    S.assume(M.active0 >= 1)
    S.lemma("O3.an_owned_transport_is_not_idle", v0.not_idle(tid.t))
    owned1 = lambda x: z3.And(M.owned0(x), x != tid.t)  # noqa: E731  ownership is given up by the call
    M.owned_now = owned1
    t = M.transport(tid)
    stream_opened = S.bool("stream_opened")
    if arity == 2:
        S.assume(And(Not(stream_opened), M.max_idle > v0.total))  # plain keep path: no eviction needed
        M.always_alive = True
    mid = {}

    def evict_contract(S, me_):
        """_evict_oldest_locked by contract (proved in O4)."""
        S.oblige("O3.evict_called_with_lock_held", held(S), kind="lock")
        vm = M.view()
        S.assume(vm.sum_facts())
        if not S.fork(vm.total > 0):
            mid["view"] = vm
            return None
        q = SInt(z3.Int(S.fresh_name("evq")))
        S.assume(And(q >= 0, q < vm.n, vm.len_at(q) > 0))
        d = vm.D.val(q)
        e = S.handlers[f"{DEQ}.popleft"](S, d)
        if S.fork(SBool(M.head(d.t) == M.tail(d.t))):
            M.cur_D().items.pop_at(q)
        me_.fields["_evictions_max"] = me_.fields["_evictions_max"] + 1
        mid["view"] = M.view()
        return e.fields["transport"]

    S.handlers["WorkerPool._evict_oldest_locked"] = evict_contract
    out = S.outcome(pl.WorkerPool._return_worker, M.me, t, stream_opened)
    prune_artifacts(S, out)
    v1 = M.view()
    polls, closes, adds, removed = S.events("poll"), S.events("close"), S.events("idle_add"), S.events("idle_remove")
    dead = bool(polls) and polls[0][2] is False
    S.inputs["dead"] = dead
    S.oblige("O3.lock_released_on_exit", not held(S), kind="lock")
    S.oblige("O3.health_checked_first", len(polls) == 1 and z3.eq(polls[0][1].t, tid.t), kind="trace")
    if out.raised:
        # only an unsuppressed transport.close() of the discarded worker may fail (caught by _PooledTransport.close, O7)
        S.oblige("O3.raises_only_from_closing_the_discarded_worker", exc_is(out.exc, OSError) and any(c[3] is False and z3.eq(c[1].t, tid.t) for c in closes), kind="raises")
    oblige_qf(S, "O3.active_decremented", M.field("_active") == M.active0 - 1)
    own_closes = [c for c in closes if z3.eq(c[1].t, tid.t)]
    slot1, pos1 = M.slot0, M.pos0
    if adds:
        S.oblige("O3.only_the_returned_worker_becomes_idle", len(adds) == 1 and z3.eq(adds[0][1].t, tid.t), kind="trace")
        oblige_qf(S, "O3.kept_only_if_alive_at_message_boundary_and_pool_open", And(Not(stream_opened), not dead, not pool_closed))
        S.oblige("O3.kept_worker_is_not_closed", len(own_closes) == 0, kind="trace")
        d_add, a_add = adds[0][3].t, adds[0][4].t
        slot1 = lambda x: z3.If(x == tid.t, d_add, M.slot0(x))  # noqa: E731
        pos1 = lambda x: z3.If(x == tid.t, a_add, M.pos0(x))  # noqa: E731
        S.oblige("O3.kept_worker_sits_in_a_table_queue", ExistsInt(lambda i: And(i >= 0, i < v1.n, SBool(v1.dq(i) == d_add))))
    else:
        # (helper contract, from the code: a healthy worker is kept whenever the pool may keep anything at all)
        oblige_qf(S, "O3.discarded_only_if_dead_abandoned_pool_closed_or_no_room_at_all", Or(stream_opened, dead, pool_closed, M.max_idle == 0))
        S.oblige("O3.discarded_worker_is_closed", len(own_closes) >= 1, kind="trace")
        S.oblige("O3.discarded_worker_is_not_idle", v1.not_idle(tid.t))
    oblige_qf(S, "O3.abandoned_dead_or_late_worker_never_becomes_idle", Implies(Or(stream_opened, dead, pool_closed), len(adds) == 0))
    S.oblige("O3.at_most_one_eviction", len(removed) <= 1 and not S.events("idle_clear"), kind="trace")
    for c in closes:
        if not z3.eq(c[1].t, tid.t):
            S.oblige("O3.closes_only_the_worker_or_the_evicted_one", any(z3.eq(c[1].t, r[1].t) for r in removed), kind="trace")
    # table: keys are only dropped by the eviction contract (empty queue, O4), only added with a fresh empty queue
    news = [e[1].t for e in S.events("new_deque")]
    vm = mid.get("view", v0)

    def appended(nd):
        return And(v1.n == vm.n + 1, ForAllInt(lambda i: Implies(And(i >= 0, i < vm.n), eq(v1.D.items.get(i), vm.D.items.get(i)))), SBool(v1.dq(vm.n) == nd))

    rel = Or(same_table(v1, vm), *[appended(nd) for nd in news])
    check_frame_and_invariant(S, M, v1, slot1, pos1, owned1, "O3", rel)


# ------------------------------------------------------------------------------------------
# O7 _PooledTransport.close: abandoned-stream detection, idempotent single return
# ------------------------------------------------------------------------------------------


def replay_pooled_close(inputs, ob):
    class Sess:
        def __init__(self, c):
            self._closed = c

    calls = []

    class FakePool:
        def _return_worker(self, inner, abandoned):
            calls.append(abandoned)
            if inputs.get("return_raises"):
                raise RuntimeError("boom")

    inner = FakeTransport(["w"])
    pt = pl._PooledTransport(inner, FakePool())
    pt._stream_opened = bool(inputs.get("stream_opened"))
    ls = inputs.get("last_session")
    pt._last_stream_session = None if ls is None else Sess(bool(ls == "closed"))
    pt.close()
    pt.close()
    want = bool(inputs.get("stream_opened")) and (ls is None or ls != "closed")
    problems = []
    if calls != [want]:
        problems.append(f"_return_worker calls {calls}, wanted exactly [{want}]")
    if inputs.get("return_raises") and not inner.closed:
        problems.append("worker leaked after a failed return")
    return ReplayResult(bool(problems), f"_PooledTransport.close() twice with {inputs}: " + "; ".join(problems))


@unit("C32.O7 _PooledTransport.close", targets=["vgi_rpc/pool.py::_PooledTransport.close"], replay=limited(replay_pooled_close), min_obligations=8)
def pooled_close(S):
    opened = S.bool("stream_opened")
    ls_mode = ["none", "closed", "open"][S.choose(3, "last session")]
    sess_closed = None
    if ls_mode == "none":
        last = None
    else:
        sess_closed = ls_mode == "closed"
        last = SObj(None, kind="StreamSession", _closed=sess_closed)
    return_raises = S.choose(2, "_return_worker raises") == 1
    S.inputs.update({"last_session": None if last is None else ls_mode, "return_raises": return_raises})
    inner = SObj(None, kind="Transport", tid=S.int("worker"))
    pool = SObj(None, kind="Pool")
    shm = SObj(None, kind="Shm")

    def ret(S, p, tr_, abandoned):
        S.event("return", tr_, abandoned)
        if return_raises:
            raise PyRaise(SExc(RuntimeError, ("boom",)))

    S.handlers["Pool._return_worker"] = ret
    S.handlers["Transport.close"] = lambda S, t: S.event("close", t)
    me = SObj(pl._PooledTransport, _inner=inner, _pool=pool, _returned=False, _shm=shm, _stream_opened=opened, _last_stream_session=last)
    out = S.outcome(pl._PooledTransport.close, me)
    S.oblige("O7.never_raises", out.returned, kind="raises")
    rets = S.events("return")
    S.oblige("O7.worker_returned_exactly_once", len(rets) == 1 and rets[0][1] is inner, kind="trace")
    if len(rets) == 1:
        ab = rets[0][2]
        want = And(opened, True if last is None else (not sess_closed))
        S.oblige("O7.abandoned_iff_stream_opened_and_last_session_missing_or_not_closed", Iff(ab if isinstance(ab, (bool, SBool)) else False, want))
        S.oblige("O7.abandoned_flag_is_a_bool", isinstance(ab, (bool, SBool)), kind="post")
    S.oblige("O7.marked_returned", me.fields["_returned"] is True, kind="post")
    S.oblige("O7.shm_and_session_references_dropped", me.fields["_shm"] is None and me.fields["_last_stream_session"] is None, kind="post")
    if return_raises:
        S.oblige("O7.failed_return_closes_the_worker", len(S.events("close")) == 1 and S.events("close")[0][1] is inner, kind="trace")
    # idempotent: a second close does nothing
    n_ev = len(S.trace)
    out2 = S.outcome(pl._PooledTransport.close, me)
    S.oblige("O7.second_close_is_a_noop", out2.returned and len(S.trace) == n_ev, kind="trace")
    S.canary("O7.canary.never_abandoned", Not(rets[0][2]) if rets and isinstance(rets[0][2], SBool) else SBool(z3.BoolVal(not (rets and rets[0][2] is True))))


# ------------------------------------------------------------------------------------------
# O8 __init__ establishes the invariant
# ------------------------------------------------------------------------------------------


@unit("C32.O8 __init__ establishes the invariant", targets=["vgi_rpc/pool.py::WorkerPool.__init__"], min_obligations=5)
def init(S):
    import atexit
    import threading

    max_idle, timeout = S.int("max_idle"), S.int("idle_timeout")
    me = SObj(pl.WorkerPool)
    S.handlers[threading.Lock] = lambda S: SObj(None, kind="Lock", name=LOCK)
    S.handlers[threading.Event] = lambda S: SObj(None, kind="Event")
    S.handlers[threading.Thread] = lambda S, **kw: SObj(None, kind="Thread")
    S.handlers["Thread.start"] = lambda S, t: S.event("reaper_started")
    S.handlers[atexit.register] = lambda S, f: None
    out = S.outcome(pl.WorkerPool.__init__, me, max_idle=max_idle, idle_timeout=timeout)
    if out.raised:
        S.oblige("O8.raises_only_ValueError", exc_is(out.exc, ValueError), kind="raises")
        S.oblige("O8.raise_only_for_bad_configuration", Or(max_idle < 0, timeout <= 0))
        return
    idle = me.fields.get("_idle")
    S.oblige("O8.idle_table_starts_empty", isinstance(idle, dict) and len(idle) == 0, kind="post")
    S.oblige("O8.max_idle_nonnegative", me.fields["_max_idle"] >= 0)
    S.oblige("O8.max_idle_is_the_argument", me.fields["_max_idle"] is max_idle, kind="post")
    S.oblige("O8.idle_timeout_positive", me.fields["_idle_timeout"] > 0)
    S.oblige("O8.no_active_borrows", me.fields["_active"] == 0 and me.fields["_closed"] is False, kind="post")
    S.oblige("O8.empty_table_within_capacity", 0 <= me.fields["_max_idle"])
    S.canary("O8.canary.max_idle_positive", me.fields["_max_idle"] >= 1)


# ------------------------------------------------------------------------------------------
# O9 smoke canaries: the real code on an empty table (quantifier-free, decided at once)
# ------------------------------------------------------------------------------------------


@unit("C32.O9 smoke canaries on an empty table", targets=["vgi_rpc/pool.py::WorkerPool._return_worker", "vgi_rpc/pool.py::WorkerPool._borrow"], min_obligations=2)
def smoke(S):
    M = Model(S, 1, empty=True)
    S.assume(And(M.max_idle >= 1, M.active0 >= 1, M.v0.total == 0))
    which = S.choose(2, "return / borrow")
    if which == 0:
        tid = S.int("worker")
        M.owned_now = lambda x: z3.And(M.owned0(x), x != tid.t)  # noqa: E731
        M.always_alive = True
        out = S.outcome(pl.WorkerPool._return_worker, M.me, M.transport(tid), False)
        adds = S.events("idle_add")
        S.oblige("O9.healthy_worker_kept_in_an_empty_pool_with_room", out.returned and len(adds) == 1 and z3.eq(adds[0][1].t, tid.t), kind="trace")
        oblige_qf(S, "O9.one_idle_worker_afterwards", And(M.view().total == 1, M.view().n == 1))
        S.canary("O9.canary.never_keeps_a_worker", SBool(z3.BoolVal(not adds)))
        S.canary("O9.canary.pool_stays_empty", M.view().total == 0)
    else:
        out = S.outcome(pl.WorkerPool._borrow, M.me, M.fresh_key("key"))
        sp = S.events("spawn")
        S.oblige("O9.empty_pool_spawns_or_fails", (out.returned and len(sp) == 1) or (out.raised and len(S.events("spawn_failed")) == 1), kind="trace")
        if out.returned:
            S.canary("O9.canary.active_not_counted", M.field("_active") == M.active0)


# ------------------------------------------------------------------------------------------
# O6 close(): drains the table under the lock, closes only what it drained
# ------------------------------------------------------------------------------------------


def replay_close(inputs, ob):
    pool, workers = build_pool(inputs)
    try:
        pool.close()
        problems = []
        if idle_list(pool):
            problems.append("idle workers left after close()")
        if any(not w.closed for w in workers):
            problems.append("a drained worker was not closed")
        if not pool._closed:
            problems.append("_closed not set")
        return ReplayResult(bool(problems), f"close() with idle queue lengths {inputs.get('lens')}: " + "; ".join(problems))
    finally:
        pool._closed = True


@unit("C32.O6 close", targets=["vgi_rpc/pool.py::WorkerPool.close"], search=search_pool, replay=limited(replay_close), min_obligations=10)
def pool_close(S):
    import atexit

    already = S.choose(2, "already closed") == 1
    M = Model(S, 1, closed_flag=already)
    v0 = M.v0
    S.inputs["n_keys"], S.inputs["total"] = v0.n, v0.total
    M.assume_invariant()
    M.me.fields["_stop_event"] = SObj(None, kind="Event")
    M.me.fields["_reaper"] = SObj(None, kind="Thread")
    S.handlers[atexit.unregister] = lambda S, f: S.event("atexit_unregister")
    S.handlers["Event.set"] = lambda S, e: S.event("reaper_stop")
    S.handlers["Thread.join"] = lambda S, t, timeout=None: S.event("reaper_join", held(S))
    S.handlers[pl._stderr_open] = lambda S: True  # only guards logging
    sample = M.transport(S.int("sample"))
    shape = shape_of(sample)

    def drained_ok(lst):
        """every collected transport was idle in the pre-state (so: not owned, not closed)"""
        if isinstance(lst, list):
            return And(*[And(Not(SBool(M.owned0(x.fields["tid"].t))), Not(SBool(M.closed0(x.fields["tid"].t)))) for x in lst])
        return ForAllInt(lambda e: Implies(And(e >= 0, SBool(e.t < lst.length)), And(Not(SBool(M.owned0(lst.get(e).fields["tid"].t))), Not(SBool(M.closed0(lst.get(e).fields["tid"].t))))))

    def inv0(L):
        k = L.idx
        vc = M.view()
        lst = L.all_idle
        return [
            ("queues_ahead_are_untouched", ForAllInt(lambda j: Implies(And(j >= k, j < v0.n), And(SBool(vc.head(v0.dq(j)) == v0.head(v0.dq(j))), SBool(vc.tail(v0.dq(j)) == v0.tail(v0.dq(j))))))),
            ("collected_transports_were_idle", drained_ok(lst)),
            ("table_not_replaced", M.cur_D() is M.D),
        ]

    S.invariants[("WorkerPool.close", 0)] = inv0
    S.loop_havoc[("WorkerPool.close", 0)] = {"all_idle": ListShape(shape)}
    S.loop_ghost[("WorkerPool.close", 0)] = ["head", "tail", "total"]
    S.invariants[("WorkerPool.close", 1)] = lambda L: [("table_stays_empty", SInt(M.cur_D().length) == 0)]
    out = S.outcome(pl.WorkerPool.close, M.me)
    prune_artifacts(S, out)
    S.oblige("O6.raises_nothing", out.returned, kind="raises")
    S.oblige("O6.lock_released_on_exit", not held(S), kind="lock")
    if not out.returned:
        return
    v1 = M.view()
    if already:
        S.oblige("O6.second_close_is_a_noop", untouched(v1, v0) and not S.trace, kind="trace")
        return
    S.oblige("O6.marks_pool_closed", M.field("_closed") is True, kind="post")
    S.oblige("O6.reaper_joined_before_taking_the_lock", [e[1] for e in S.events("reaper_join")] == [False], kind="lock")
    S.oblige("O6.table_is_empty_afterwards", v1.n == 0)
    muts = [e for e in S.trace if e[0] in ("idle_remove", "idle_add", "idle_clear")]
    S.oblige("O6.lock.queues_mutated_only_under_lock", all(e[2] is True for e in muts), kind="lock")
    S.oblige("O6.nothing_becomes_idle", not S.events("idle_add"), kind="trace")
    # the table is empty, so the sum of its queue lengths is 0 by definition (whatever the dropped queue
    # objects still hold): no frame condition on the ghost total is needed here
    oblige_qf(S, "O6.I.idle_at_most_max_idle", 0 <= M.max_idle)
    oblige_qf(S, "O6.I.active_nonnegative", M.field("_active") >= 0)
    S.oblige("O6.I.max_idle_unchanged", M.field("_max_idle") is M.max_idle, kind="post")
    # with an empty table every quantified part of I is vacuous and total = 0 by definition of the sum
    S.oblige("O6.I.invariant_on_the_empty_table", And(v1.WF(), v1.DR(), v1.ND(M.slot0, M.pos0), v1.none(M.owned0), v1.none(M.closed_after())))


# ------------------------------------------------------------------------------------------
# O5 _reap_expired: only removes (from the left of each queue), closes only what it removed
# ------------------------------------------------------------------------------------------


def replay_reap(inputs, ob):
    pool, workers = build_pool(inputs)
    try:
        before = idle_list(pool)
        pool._idle_timeout = 1.0
        orig = pl.time.monotonic
        # a clock reading after which about half of the idle workers are expired
        cut = 100.0 + len(before) / 2 + 1.0
        pl.time.monotonic = lambda: cut
        try:
            pool._reap_expired()
        finally:
            pl.time.monotonic = orig
        after = idle_list(pool)
        problems = judge_pool(pool, "")
        if any(t not in before for t in after):
            problems.append("reaping added an idle worker")
        if any(w.closed and w in after for w in workers):
            problems.append("an idle worker was closed")
        return ReplayResult(bool(problems), f"_reap_expired with idle queue lengths {inputs.get('lens')}: {len(before)} -> {len(after)} idle; " + "; ".join(problems))
    finally:
        safe_close(pool)


@unit("C32.O5 _reap_expired", targets=["vgi_rpc/pool.py::WorkerPool._reap_expired"], search=search_pool, replay=limited(replay_reap), min_obligations=20)
def reap(S):
    M = Model(S, 1)
    v0 = M.v0
    S.inputs["n_keys"], S.inputs["total"] = v0.n, v0.total
    M.assume_invariant()
    M.forbid_add = "O5"
    sample = M.transport(S.int("sample"))
    Q = "WorkerPool._reap_expired"
    K = z3.Int("k_loop0")  # iterations of the outer loop done (engine's name for loop 0's counter)

    def expired_ok(lst, vc):
        """every collected transport was idle (not owned, not closed) and now lies left of its queue's head"""

        def one(x):
            t = x.fields["tid"].t
            return And(Not(SBool(M.owned0(t))), Not(SBool(M.closed0(t))), SBool(M.pos0(t) < vc.head(M.slot0(t))))

        if isinstance(lst, list):
            return And(*[one(x) for x in lst])
        return ForAllInt(lambda e: Implies(And(e >= 0, SBool(e.t < lst.length)), one(lst.get(e))))

    def heap_inv(L, k, strict):
        vc = M.view()
        lo = (lambda j: j > k) if strict else (lambda j: j >= k)
        return [
            ("queues_ahead_untouched", ForAllInt(lambda j: Implies(And(lo(j), j < v0.n), SBool(vc.head(v0.dq(j)) == v0.head(v0.dq(j)))))),
            ("queues_well_formed", vc.WF()),
            ("no_transport_idle_twice", vc.ND(M.slot0, M.pos0)),
            ("no_idle_transport_owned_or_closed", And(vc.none(M.owned0), vc.none(M.closed0))),
            ("total_never_grows", vc.total <= v0.total),
            ("collected_transports_left_the_table", expired_ok(L.expired, vc)),
        ]

    calls = {"n": 0, "snap": None}

    def inv0(L):
        calls["n"] += 1
        k = L.idx
        vc = M.view()
        m = vc.n - (v0.n - k)
        out = [
            ("table_is_kept_part_plus_unvisited_suffix", And(m >= 0, ForAllInt(lambda j: Implies(And(j >= k, j < v0.n), eq(vc.D.items.get(m + (j - k)), v0.D.items.get(j)))))),
            ("table_keys_and_queues_distinct", And(vc.D.distinct_keys(), vc.DR())),
            ("table_not_replaced", M.cur_D() is M.D),
        ] + heap_inv(L, k, False)
        if calls["n"] == 2:
            calls["snap"] = (vc, m)  # state at the loop head of this iteration
        if calls["n"] == 3:
            sv, sm = calls["snap"]
            dropped_empty = And(table_minus(vc, sv, sm), SBool(vc.head(sv.dq(sm)) == vc.tail(sv.dq(sm))))
            out.append(("frame.key_dropped_only_with_empty_queue", Or(same_table(vc, sv), dropped_empty)))
        return out

    S.invariants[(Q, 0)] = inv0
    S.invariants[(Q, 1)] = lambda L: heap_inv(L, SInt(K), True)
    S.invariants[(Q, 2)] = lambda L: [("table_not_replaced", M.cur_D() is M.D)]
    S.loop_havoc[(Q, 0)] = {"expired": ListShape(shape_of(sample))}
    S.loop_ghost[(Q, 0)] = ["head", "total"]
    S.loop_ghost[(Q, 1)] = ["head", "total"]
    out = S.outcome(pl.WorkerPool._reap_expired, M.me)
    prune_artifacts(S, out)
    S.oblige("O5.raises_nothing", out.returned, kind="raises")
    S.oblige("O5.lock_released_on_exit", not held(S), kind="lock")
    if not out.returned:
        return
    v1 = M.view()
    S.oblige("O5.I.table_well_formed", And(v1.WF(), v1.DR(), v1.D.distinct_keys()))
    S.oblige("O5.I.no_transport_idle_twice", v1.ND(M.slot0, M.pos0))
    S.oblige("O5.I.no_idle_transport_is_owned_or_closed", And(v1.none(M.owned0), v1.none(M.closed0)))
    oblige_qf(S, "O5.I.idle_at_most_max_idle", v1.total <= M.max_idle)
    oblige_qf(S, "O5.I.active_unchanged", M.field("_active") is M.active0, kind="post")
    S.oblige("O5.I.max_idle_unchanged", M.field("_max_idle") is M.max_idle, kind="post")


# ------------------------------------------------------------------------------------------
# O10  "not after ... a call interrupted by a client-side exception": the message-boundary side of reuse.
# _PooledTransport.close() only knows about streams; for a unary call the boundary is kept by the client's reader:
# whatever makes _read_unary_response fail, the response stream has been consumed (or the transport itself failed)
# before the exception reaches the borrower, so the worker that goes back to the pool has nothing left to say.
# ------------------------------------------------------------------------------------------

import vgi_rpc.rpc._wire as _wire  # noqa: E402
from vgi_rpc.rpc._common import RpcError as _RpcError  # noqa: E402

READ_OUTCOMES = ["batch", "rpc_error", "client_callback_raised", "resolve_failed", "transport_failed"]


class ClientSideError(Exception):
    """Stands for whatever the client's own code (on_log, result resolution) may raise."""


def replay_unary_boundary(inputs, ob):
    """Real pipe: a unary method that logs before answering, an on_log callback that raises, then a second call."""
    import threading
    from typing import Protocol

    from vgi_rpc.log import Level
    from vgi_rpc.rpc import CallContext, RpcConnection, RpcServer, make_pipe_pair

    class P(Protocol):
        def tagged(self, tag: str) -> str: ...

    class Impl:
        def tagged(self, tag: str, ctx: CallContext) -> str:
            ctx.client_log(Level.INFO, f"working on {tag}")
            return f"done-{tag}"

    ct, st = make_pipe_pair()
    th = threading.Thread(target=lambda: RpcServer(P, Impl()).serve(st), daemon=True)
    th.start()
    seen, res = [], {}

    def on_log(msg):
        seen.append(msg.message)
        if len(seen) == 1:
            raise ClientSideError("client-side failure in on_log")

    def client():
        with RpcConnection(P, ct, on_log=on_log) as c:
            try:
                c.tagged(tag="ALICE")
                res["first"] = "returned"
            except ClientSideError:
                res["first"] = "ClientSideError"
            except BaseException as e:  # noqa: BLE001
                res["first"] = type(e).__name__
            try:
                res["second"] = c.tagged(tag="BOB")
            except BaseException as e:  # noqa: BLE001
                res["second"] = f"raised {type(e).__name__}: {e}"

    t = threading.Thread(target=client, daemon=True)
    t.start()
    t.join(8)
    bad = t.is_alive() or res.get("second") != "done-BOB"
    return ReplayResult(bad, f"first call (on_log raises) -> {res.get('first')}; next call on the same connection -> {'HUNG' if t.is_alive() else res.get('second')}")


@unit(
    "C32.O10 _read_unary_response: whatever interrupts a unary call on the client side, the response has been consumed before the borrower sees the exception",
    targets=["vgi_rpc/rpc/_wire.py::_read_unary_response"],
    replay=replay_unary_boundary,
    min_obligations=8,
)
def unary_boundary(S):
    mode = READ_OUTCOMES[S.choose(len(READ_OUTCOMES))]
    S.inputs["read_outcome"] = mode
    reader = SObj(None, kind="Reader", ipc_validation="full")
    ab = SObj(None, kind="AB", batch=SObj(None, kind="Batch"), custom_metadata=None)
    raised = {}

    def read_check(S, r, on_log=None, external_config=None, shm=None):
        S.event("read")
        if mode == "batch":
            return ab
        cls = {"rpc_error": _RpcError, "client_callback_raised": ClientSideError, "resolve_failed": RuntimeError, "transport_failed": BrokenPipeError}[mode]
        raised["exc"] = SExc(cls, ("ServerError", "boom", "") if cls is _RpcError else ("failed",))
        raise PyRaise(raised["exc"])

    def drain(S, r, *a):
        S.event("drained")
        if mode == "transport_failed" or S.choose(2) == 1:
            S.event("drain_failed")
            raise PyRaise(SExc(BrokenPipeError if mode == "transport_failed" else RuntimeError, ("drain failed",)))

    S.handlers["_read_batch_with_log_check"] = read_check
    S.handlers["_drain_stream"] = drain
    S.handlers["AB.release"] = lambda S, a: S.event("released")
    S.handlers["Batch.column"] = lambda S, b, k: SObj(None, kind="Column")
    S.handlers["Column.__getitem__"] = lambda S, c, i: SObj(None, kind="Scalar")
    S.handlers["Scalar.as_py"] = lambda S, sc: (S.opaque("result_value", "PyVal?") if S.choose(2) == 0 else (_ for _ in ()).throw(PyRaise(SExc(OverflowError, ("value out of range",)))))
    S.handlers["_validate_result"] = lambda S, *a: None if S.choose(2) == 0 else (_ for _ in ()).throw(PyRaise(SExc(TypeError, ("result does not match",))))
    S.handlers["_deserialize_value"] = lambda S, v, *a: v
    info = SObj(None, kind="Info", name="m", has_return=(S.choose(2) == 0), result_type=SObj(None, kind="Hint"))
    out = S.outcome(_wire._read_unary_response, reader, info, None, None, shm=None)
    names = [e[0] for e in S.trace]
    # the response stream was read to its end (a failing drain means the transport itself is gone: nothing is left to misread)
    if mode != "transport_failed":  # a dead transport has nothing left to misread; draining it is optional
        S.oblige("O10.response_consumed_on_every_outcome", "drained" in names, kind="trace", witness=mode + (":raised" if out.raised else ":returned"))
    if mode != "batch":
        S.oblige("O10.an_interrupted_call_raises", out.raised, kind="raises", witness=mode)
        if "drain_failed" not in names:
            S.oblige("O10.the_interrupting_exception_reaches_the_borrower_unchanged", out.raised and out.exc is raised.get("exc"), kind="raises", witness=mode)
    if mode == "batch":
        S.oblige("O10.response_region_released", "released" in names, kind="trace")
    S.canary("O10.canary.never_raises", SBool(z3.BoolVal(not out.raised)))


# ------------------------------------------------------------------------------------------
# O11  the stream caller keeps _PooledTransport's two flags truthful for close() (O7): once a stream request is on the
# wire the borrow is "stream opened", and until this call has a session of its own no earlier session vouches for it -
# whatever interrupts the call afterwards (a header read failing on the client side included).
# ------------------------------------------------------------------------------------------

import vgi_rpc.rpc._client as _client  # noqa: E402


def replay_second_stream(inputs, ob):
    """Real pool, real subprocess worker: first stream consumed and closed cleanly, second (header + log) stream
    interrupted by a raising on_log; the worker must not be idle afterwards."""
    import sys
    from pathlib import Path

    try:
        import tests
        from tests._fixture_service import RpcFixtureService
    except Exception as e:  # the scratch copy used by selftest has no tests package
        return ReplayResult(False, f"fixture service unavailable: {e}")
    from vgi_rpc import WorkerPool

    cmd = [sys.executable, str(Path(tests.__file__).parent / "serve_fixture_pipe.py")]
    armed = {"on": False}

    def on_log(msg):
        if armed["on"]:
            raise ClientSideError("client callback refuses")

    with WorkerPool(max_idle=2) as pool:
        try:
            with pool.connect(RpcFixtureService, cmd, on_log=on_log) as svc:
                list(svc.generate(count=2))
                armed["on"] = True
                svc.generate_with_header_and_log(count=2)
        except ClientSideError:
            pass
        idle = pool.metrics.idle
    return ReplayResult(idle != 0, f"first stream closed cleanly, second stream interrupted in its header read: idle workers afterwards = {idle}")


@unit(
    "C32.O11 stream caller: after the request is sent the borrow is 'stream opened' and no earlier session vouches for the new call",
    targets=["vgi_rpc/rpc/_client.py::_RpcProxy._make_stream_caller"],
    replay=replay_second_stream,
    min_obligations=6,
)
def stream_caller(S):
    earlier = ["none", "closed_session"][S.choose(2)]
    outcome = ["send_fails", "header_read_interrupted", "session_built"][S.choose(3)]
    with_header = outcome == "header_read_interrupted" or S.choose(2) == 1
    S.inputs.update({"earlier_stream": earlier, "outcome": outcome, "header": with_header})
    old_session = SObj(None, kind="Session", _closed=True) if earlier == "closed_session" else None
    transport = SObj(None, kind="PooledTransport", _stream_opened=(earlier != "none"), _last_stream_session=old_session, writer=SObj(None, kind="W"), reader=SObj(None, kind="R"))
    info = SObj(None, kind="Info", name="m", header_type=(SObj(None, kind="HeaderType") if with_header else None))
    proxy = SObj(_client._RpcProxy, _transport=transport, _on_log=None, _external_config=None, _ipc_validation="full", _shm=None, _protocol_version=None)

    def send(S, writer, info_, kwargs, shm=None, protocol_version=None):
        S.event("request_sent")
        if outcome == "send_fails":
            raise PyRaise(SExc(BrokenPipeError, ("peer gone",)))

    def read_header(S, reader, header_type, ipc_validation, on_log=None, ext_cfg=None):
        if outcome == "header_read_interrupted":
            raise PyRaise(SExc(ClientSideError, ("on_log raised",)))
        return SObj(None, kind="Header")

    new_session = SObj(None, kind="Session", _closed=False)
    S.handlers["_send_request"] = send
    S.handlers["_read_stream_header"] = read_header
    S.handlers[_client.StreamSession] = lambda S, *a, **k: new_session
    S.handlers["Logger.isEnabledFor"] = lambda S, *a: False
    made = S.outcome(_client._RpcProxy._make_stream_caller, proxy, info)
    S.oblige("O11.caller_is_built", made.returned, kind="raises")
    if not made.returned:
        return
    out = S.outcome(made.value)
    sent = bool(S.events("request_sent"))
    opened, last = transport.fields["_stream_opened"], transport.fields["_last_stream_session"]
    if outcome == "session_built":
        S.oblige("O11.returns_the_new_session_and_remembers_it", out.returned and out.value is new_session and last is new_session and opened is True, kind="post")
    else:
        S.oblige("O11.an_interrupted_stream_call_raises", out.raised, kind="raises")
        if sent and outcome == "header_read_interrupted":
            # what close() (O7) will see: stream opened, and no session - least of all an earlier, closed one
            S.oblige("O11.interrupted_after_the_request_was_sent_leaves_the_borrow_marked_abandoned", opened is True and last is None, kind="post", witness=f"earlier={earlier}")
    S.canary("O11.canary.never_builds_a_session", SBool(z3.BoolVal(last is not new_session)))
