"""C35 Sensitive claim values never reach access logs (DESIGN §5 C35).

Under contract: ``redact_claims`` (+ the helpers it recurses through), ``apply_claim_redaction``,
the live ``_DEFAULT_CLAIM_REDACT_RE`` and the claims arm of ``_emit_access_log``.

Spec (from the property statement), over JSON-like values (objects / lists / scalars):
``clean(v)`` <=> for every object nested anywhere in ``v`` (through objects and lists) and every key
``k`` of it that is *sensitive*, the value is the ``REDACTED`` constant; the key set of every object is
preserved.  ``sensitive(k)`` = the live regex ``search``es ``k`` (membership of ``k`` in the SMT
translation of the live pattern with ``search`` semantics); lemma L1 ties the live pattern to the
statement's own list (every listed name, in any ASCII case, as a substring).
"""

from __future__ import annotations

import ast
import logging
import re

import z3

import vgi_rpc.logging_utils as lu
import vgi_rpc.rpc._server as srv
from pyvc import regex
from pyvc.api import *  # noqa: F403
from pyvc.api import BoundedResult, PyRaise, ReplayResult, bounded, unit
from pyvc.source import parse_file
from vgi_rpc.rpc._common import AuthContext

MANIFEST = {
    "level_text": "Deductive proof on the real redact_claims / apply_claim_redaction / _emit_access_log code: (L1) the live sensitivity pattern fully matches every name the statement lists in any ASCII case (language inclusion per keyword, regex translated by CPython's own parser incl. IGNORECASE folding and the per-alternative ^name$ anchors); (O1) structural induction on JSON depth - the step units execute redact_claims and every helper it recurses through on an object / list whose children are abstract values, with the recursive calls taken by contract at strictly smaller measure, and prove that every sensitive key (the live regex searches it) holds REDACTED, every other child is the recursively cleaned child and the key set is preserved; cross-checked by executing the real code on eight concrete nesting shapes (objects in objects, in lists, lists in lists, 4 levels) with symbolic keys and symbolic leaves; (O2) apply_claim_redaction returns exactly the installed redactor's result, or {} when it raises any Exception, and nothing escapes; (O3) _emit_access_log puts into the emitted record (logger or deferred sink) only what apply_claim_redaction returned for auth.claims, drops the field when that is empty, and no symbol of the raw claims occurs anywhere else in the record. Tests use flat claim dictionaries only.",
    "level_note": "Induction step and shapes use objects/lists of width <= 2 (the engine has no symbolic-length comprehension; items are processed independently by one comprehension); depth is unbounded by the induction. 'search hits a key that contains a fully matched substring' is the definition of re.search (bounded native cross-check). Strings range over code points <= U+2FFFF. _emit_access_log is executed whole with the unrelated context variables at their defaults plus a syntactic scan that no statement outside the claims arm reads .claims or writes extra['claims']; what formatters/handlers do with the record afterwards is outside. BaseException-only classes (KeyboardInterrupt, SystemExit) are not 'a failing redactor'. Engine + z3/cvc5 trusted.",
    "technique": "contract-based deductive verification: structural induction by depth with by-contract recursive calls, regex-language inclusion, exceptional postconditions, dependency (symbol-set) obligations on the emitted record; VCs by pyvc, z3 then cvc5",
    "design_ref": "DESIGN.md §5 C35",
}
EXPLANATION = MANIFEST["level_text"]
TRUSTED = [
    "pyvc VC generator; regex translation (re._parser -> SMT regex, IGNORECASE sets read from CPython's matcher)",
    "z3 5.1.0 / cvc5 1.4.0",
    "re.search succeeds on every string containing a substring the pattern fully matches (definition of search; bounded native cross-check L1b)",
    "logging: the record's `claims` attribute is exactly the `extra['claims']` object handed to Logger.info / appended to the deferred sink",
]
ASSUMPTIONS = [
    "claims are JSON-like: str-keyed objects, lists, scalars (what a JWT / introspection payload decodes to); keys of one object are pairwise distinct",
    "width <= 2 per object/list in the step and shape units; depth unbounded (induction on (depth, call rank))",
    "strings range over code points 0..0x2FFFF (z3 character range)",
    "custom redactor = arbitrary user code: returns any object or raises any Exception subclass",
    "_emit_access_log: context variables unrelated to claims are taken at their defaults; their independence from the claims arm is the syntactic frame obligation O3.frame",
]

# the statement's list: "token, secret, key, password, authorization, email, phone, address, birthdate, gender,
# name fields and the other listed OIDC claims" (OIDC standard claims that are personal data)
SUBSTRING_NAMES = [
    "password", "token", "secret", "key", "authorization", "email", "phone", "address", "birthdate", "gender",
    "given_name", "family_name", "middle_name", "nickname", "preferred_username", "picture", "profile", "website",
]  # fmt: skip
EXACT_NAMES = ["name"]

P = getattr(lu, "_DEFAULT_CLAIM_REDACT_RE", None)
# The contracts define "sensitive" through the live pattern object.  A tree that decides sensitivity some other way is
# outside what they can express: every deductive unit then reports Unsupported, and the units that have one fall back to
# their bounded native search through the real redact_claims (labelled bounded, never counted as proved).
LIVE_PATTERN_MISSING = P is None
if LIVE_PATTERN_MISSING:
    P = re.compile("|".join(SUBSTRING_NAMES) + "|^name$", re.IGNORECASE)  # placeholder so that the module loads
RED = lu.REDACTED

_pyvc_unit = unit


def unit(*a, **kw):  # noqa: F811
    import functools

    from pyvc.values import Unsupported

    def deco(f):
        @functools.wraps(f)
        def guarded(S):
            if LIVE_PATTERN_MISSING:
                raise Unsupported("vgi_rpc.logging_utils no longer has _DEFAULT_CLAIM_REDACT_RE: sensitivity is decided by code these contracts do not describe")
            return f(S)

        return _pyvc_unit(*a, **kw)(guarded)

    return deco


def search_cover(ob, seed):
    """Bounded native stand-in for L1 when there is no live pattern: every listed name, in several ASCII casings and
    embedded in a longer key, must be redacted by the real redact_claims at the top level and one level down."""
    for w in SUBSTRING_NAMES + EXACT_NAMES:
        casings = {w, w.upper(), w.title(), w.capitalize(), w.swapcase(), "".join(c.upper() if i % 2 else c for i, c in enumerate(w)), "".join(c.upper() if i % 2 == 0 else c for i, c in enumerate(w))}
        for v in sorted(casings):
            keys = [v] if w in EXACT_NAMES else [v, "x_" + v, v + "_x", "x" + v + "x"]
            for k in keys:
                for claims in ({k: "leak"}, {"ctx": {k: "leak"}}, {"items": [{k: "leak"}]}):
                    try:
                        out = lu.redact_claims(claims)
                    except Exception as e:  # noqa: BLE001
                        return {"variant": k}, ReplayResult(True, f"redact_claims({claims!r}) raised {type(e).__name__}: {e}")
                    if "leak" in repr(out):
                        return {"variant": k}, ReplayResult(True, f"redact_claims({claims!r}) -> {out!r}: the value of the listed name {w!r} (spelled {k!r}) is kept")
    return None


L_SEARCH = regex.language(P, "search")
L_FULL = regex.language(P, "fullmatch")



def sens(k):
    """sensitive(k): the live pattern searches k."""
    if isinstance(k, str):
        return P.search(k) is not None
    return SBool(z3.InRe(strterm(k), L_SEARCH))


def ascii_ci(word):
    parts = []
    for c in word:
        if c.isalpha():
            parts.append(z3.Union(z3.Re(z3.StringVal(c.lower())), z3.Re(z3.StringVal(c.upper()))))
        else:
            parts.append(z3.Re(z3.StringVal(c)))
    return z3.Concat(*parts) if len(parts) > 1 else parts[0]


def stmt_sensitive_py(k: str) -> bool:
    low = "".join(c.lower() if c.isascii() else c for c in k)
    return any(w in low for w in SUBSTRING_NAMES) or low in EXACT_NAMES


# --------------------------------------------------------------------------------------
# L1: the live pattern covers the statement's list
# --------------------------------------------------------------------------------------


def replay_cover(inputs, ob):
    w = inputs.get("variant", "")
    hit = P.search(w) is not None
    return ReplayResult(not hit, f"{P.pattern[:40]}... .search({w!r}) -> {'match' if hit else 'None'} (a listed sensitive name)")


@unit("C35.L1 the live pattern fully matches every listed name in any ASCII case", targets=["vgi_rpc/logging_utils.py::_DEFAULT_CLAIM_REDACT_RE"], replay=replay_cover, search=search_cover, min_obligations=19)
def covers(S):
    words = SUBSTRING_NAMES + EXACT_NAMES
    i = S.choose(len(words))
    w = words[i]
    v = S.str("variant")
    S.inputs["word"] = w
    S.assume(SBool(z3.InRe(v.t, ascii_ci(w))))
    # fully matched by one alternative of the live pattern; a key containing v (for the exact names: equal to v)
    # is then hit by `search` (definition of search: trusted, cross-checked natively in L1b)
    S.oblige(f"L1.covers[{w}]", SBool(z3.InRe(v.t, L_FULL)))
    if i == 0:
        S.canary("L1.canary.matches_only_lowercase", eq(v, w))


@bounded("L1b search hits every key that embeds a listed name (native re.search)", bound="18 names x 40 random ASCII-case variants x 25 random prefixes/suffixes (incl. newlines, non-ASCII)", tiers=("quick", "thorough"))
def search_embeds(tier, seed):
    import random

    rnd = random.Random(seed)
    alphabet = "abXY_-. \néK09"
    n = 0
    fails = []
    for w in SUBSTRING_NAMES:
        for _ in range(40):
            var = "".join(c.upper() if rnd.random() < 0.5 else c for c in w)
            for _ in range(25):
                pre = "".join(rnd.choice(alphabet) for _ in range(rnd.randrange(4)))
                post = "".join(rnd.choice(alphabet) for _ in range(rnd.randrange(4)))
                n += 1
                if P.search(pre + var + post) is None:
                    fails.append(f"search({pre + var + post!r}) is None")
    for w in EXACT_NAMES:
        for bits in range(2 ** len(w)):
            var = "".join(c.upper() if bits >> i & 1 else c for i, c in enumerate(w))
            n += 1
            if P.search(var) is None:
                fails.append(f"search({var!r}) is None")
    return BoundedResult(n, fails)


# --------------------------------------------------------------------------------------
# the spec: clean(out), keys_preserved(inp, out)
# --------------------------------------------------------------------------------------


def is_redacted(v):
    if isinstance(v, (str, SStr)):
        return eq(v, RED)
    return False


def clean(out):
    """No object nested anywhere in `out` holds anything but REDACTED under a sensitive key."""
    if isinstance(out, dict):
        return And(*[Or(And(sens(k), is_redacted(v)), And(Not(sens(k)), clean(v))) for k, v in out.items()])
    if isinstance(out, (list, tuple)):
        return And(*[clean(x) for x in out])
    if isinstance(out, SObj):
        return out.fields.get("cleaned_from") is not None  # an abstract value: clean iff it is an induction-hypothesis result
    return True


def same_keys(a: dict, b: dict):
    if len(a) != len(b):
        return False
    return And(*[Or(*[True if ka is kb else eq(ka, kb) for kb in b]) if not any(ka is kb for kb in b) else True for ka in a])


def entry_for(out: dict, k):
    for kb, vb in out.items():
        if kb is k:
            return vb
    return None


def keys_preserved(inp, out):
    """Every object keeps its key set (through non-sensitive keys and lists, where the structure is kept)."""
    if isinstance(inp, dict):
        if not isinstance(out, dict):
            return False
        parts = [same_keys(inp, out)]
        for k, v in inp.items():
            ov = entry_for(out, k)
            if ov is None:
                # keys are matched by value: any out entry with an equal key must preserve the child
                parts.append(And(*[Implies(And(eq(k, kb), Not(sens(k))), keys_preserved(v, vb)) for kb, vb in out.items()]))
            else:
                parts.append(Implies(Not(sens(k)), keys_preserved(v, ov)))
        return And(*parts)
    if isinstance(inp, (list, tuple)):
        if not isinstance(out, (list, tuple)) or len(out) != len(inp):
            return False
        return And(*[keys_preserved(a, b) for a, b in zip(inp, out)])
    return True


# ---- native twins (replay judges) ----------------------------------------------------------


def py_sens(k) -> bool:
    return isinstance(k, str) and (P.search(k) is not None or stmt_sensitive_py(k))


def py_unclean(out, path="$"):
    """First violation of clean() in a native value, or None."""
    if isinstance(out, dict):
        for k, v in out.items():
            if py_sens(k):
                if v != RED:
                    return f"{path}.{k!r} is sensitive but holds {v!r}"
            else:
                r = py_unclean(v, f"{path}.{k!r}")
                if r:
                    return r
    elif isinstance(out, (list, tuple)):
        for i, x in enumerate(out):
            r = py_unclean(x, f"{path}[{i}]")
            if r:
                return r
    return None


def py_keys_lost(inp, out, path="$"):
    if isinstance(inp, dict):
        if not isinstance(out, dict) or set(inp) != set(out):
            return f"{path}: keys {sorted(map(repr, inp))} became {sorted(map(repr, out)) if isinstance(out, dict) else type(out).__name__}"
        for k, v in inp.items():
            if not py_sens(k):
                r = py_keys_lost(v, out[k], f"{path}.{k!r}")
                if r:
                    return r
    elif isinstance(inp, list):
        if not isinstance(out, (list, tuple)) or len(out) != len(inp):
            return f"{path}: list of {len(inp)} became {out!r}"
        for i, (a, b) in enumerate(zip(inp, out)):
            r = py_keys_lost(a, b, f"{path}[{i}]")
            if r:
                return r
    return None


# --------------------------------------------------------------------------------------
# O1 (cross-check): the real redact_claims on concrete nesting shapes, symbolic keys and leaves
# --------------------------------------------------------------------------------------


def O(*children):
    return ("obj", children)


def Ls(*children):
    return ("list", children)


SHAPES = [
    ("flat", O("s", "i")),
    ("null_leaf", O("n")),
    ("obj_in_obj", O(O("s"), "s")),
    ("list_of_objs", O(Ls(O("s"), "s", O("s")))),
    ("obj_in_list_in_obj", O(O(Ls(O("s"))))),
    ("list_in_list", O(Ls(Ls(O("s"))))),
    ("four_levels", O(O(O(O("s"))))),
    ("mixed", O(Ls("s", O("s", Ls(O("s")))))),
]


def build(S, shape, counter):
    """-> (engine value, descriptor registered as the replay input)."""
    if shape == "s":
        counter["v"] += 1
        v = S.str(f"v{counter['v']}")
        return v, ("leaf", v)
    if shape == "i":
        counter["v"] += 1
        v = S.int(f"v{counter['v']}")
        return v, ("leaf", v)
    if shape == "n":
        return None, ("leaf", None)
    kind, children = shape
    if kind == "list":
        built = [build(S, c, counter) for c in children]
        return [b[0] for b in built], ("list", [b[1] for b in built])
    d, desc, keys = {}, [], []
    for c in children:
        counter["k"] += 1
        k = S.str(f"k{counter['k']}")
        for other in keys:
            S.assume(Not(eq(k, other)))  # keys of one object are pairwise distinct
        keys.append(k)
        val, vd = build(S, c, counter)
        d[k] = val
        desc.append((k, vd))
    return d, ("obj", desc)


def to_native(desc):
    kind, body = desc[0], desc[1]
    if kind == "leaf":
        return body
    if kind == "list":
        return [to_native(x) for x in body]
    return {k: to_native(v) for k, v in body}


def replay_redact(inputs, ob):
    if not isinstance(inputs.get("claims"), (tuple, list)):  # the solver's model did not cover the claims: hunt natively
        found = search_redact(ob, 0) if ob is not None else None
        return found[1] if found else ReplayResult(False, "no usable model and the native search found no failing input")
    claims = to_native(inputs["claims"])
    try:
        out = lu.redact_claims(claims)
    except Exception as e:
        return ReplayResult(True, f"redact_claims({claims!r}) raised {type(e).__name__}: {e}")
    bad = py_unclean(out) or py_keys_lost(claims, out)
    return ReplayResult(bad is not None, f"redact_claims({claims!r}) -> {out!r}: {bad or 'clean'}")


def fill(shape, keys, counter):
    if shape in ("s", "i", "n"):
        return ("leaf", {"s": "leaf-value", "i": 7, "n": None}[shape])
    kind, children = shape
    if kind == "list":
        return ("list", [fill(c, keys, counter) for c in children])
    desc = []
    for c in children:
        counter[0] += 1
        desc.append((keys[counter[0] - 1], fill(c, keys, counter)))
    return ("obj", desc)


def search_redact(ob, seed):
    """Native hunt for a failing input of the obligation's shape (used when the solver gave no model)."""
    import itertools

    m = re.search(r"\[(\w+)\]", ob.name)
    shape = dict(SHAPES).get(m.group(1)) if m else None
    if shape is None:
        return None
    pool = ["sub", "Password", "xKEYx", "name", "ctx", "e-mail", "Email"]
    for combo in itertools.product(pool, repeat=5):
        if len(set(combo)) < len(combo):
            continue
        inputs = {"shape": m.group(1), "claims": fill(shape, list(combo), [0])}
        rr = replay_redact(inputs, ob)
        if rr.confirmed:
            return inputs, rr
    return None


@unit(
    "C35.O1 redact_claims on concrete nesting shapes (depth 0..3, symbolic keys and leaves)",
    targets=["vgi_rpc/logging_utils.py::redact_claims"],
    replay=replay_redact,
    search=search_redact,
    min_obligations=40,
)
def shapes(S):
    S.abstract_regex = True  # path pruning treats regex atoms as opaque booleans (obligations keep the real ones)
    S.inline.add("*")  # the helpers redact_claims recurses through are executed, not assumed
    name, shape = SHAPES[S.choose(len(SHAPES))]
    claims, desc = build(S, shape, {"k": 0, "v": 0})
    S.inputs["shape"] = name
    S.inputs["claims"] = desc
    out = S.outcome(lu.redact_claims, claims)
    S.oblige(f"O1.returns[{name}]", out.returned, kind="raises")
    if not out.returned:
        return
    S.oblige(f"O1.clean[{name}]", clean(out.value))
    S.oblige(f"O1.keys_preserved[{name}]", keys_preserved(claims, out.value))
    S.oblige(f"O1.result_is_a_new_object[{name}]", out.value is not claims, kind="post")
    if name == "four_levels" and isinstance(out.value, dict) and not any(isinstance(v, str) for v in out.value.values()):
        S.canary("O1.canary.everything_redacted", And(*[is_redacted(v) for v in out.value.values()]) if isinstance(out.value, dict) else False)


# --------------------------------------------------------------------------------------
# O1 (induction): one step of the structural induction on (depth, call rank)
# --------------------------------------------------------------------------------------


def recursive_helpers() -> list[str]:
    """Module-level functions of logging_utils reachable from redact_claims through calls (its recursion)."""
    _, tree = parse_file(lu.__file__)
    defs = {n.name: n for n in tree.body if isinstance(n, ast.FunctionDef)}
    seen, todo = [], ["redact_claims"]
    while todo:
        f = todo.pop()
        if f in seen or f not in defs:
            continue
        seen.append(f)
        for n in ast.walk(defs[f]):
            if isinstance(n, ast.Call) and isinstance(n.func, ast.Name) and n.func.id in defs:
                todo.append(n.func.id)
    return seen


HELPERS = recursive_helpers()


def child(S, name):
    c = SObj(None, kind="JsonValue", name=name, jkind=None)
    return c


def install_hypothesis(S, top: str, node, children):
    """Induction hypothesis: every function of the recursion satisfies the contract on strictly smaller
    measure (depth of the value, then call rank: helper(v) > redact_claims(v))."""

    def isinstance_h(S, v, cls):
        if v.fields["jkind"] is None:
            v.fields["jkind"] = ["scalar", "obj", "list"][S.choose(3)]
        return issubclass({"scalar": str, "obj": dict, "list": list}[v.fields["jkind"]], cls)

    S.handlers["JsonValue.__isinstance__"] = isinstance_h

    def mk(fname):
        def h(S, value, *a, **kw):
            is_child = any(value is c for c in children)
            lower_rank = value is node and fname == "redact_claims" and top != "redact_claims"
            S.oblige(f"O1.step.measure_decreases[{top}->{fname}]", is_child or lower_rank, kind="pre")
            if fname == "redact_claims":
                known_obj = isinstance(value, dict) or (isinstance(value, SObj) and value.fields.get("jkind") == "obj")
                S.oblige(f"O1.step.pre_object[{top}->{fname}]", known_obj, kind="pre")
            S.event("rec", fname, value)
            return SObj(None, kind="JsonValue", name="cleaned", jkind=None, cleaned_from=value)

        return h

    for f in HELPERS:
        S.handlers[f] = mk(f)


def step_rel(inp, out):
    """out is the cleaned image of inp, given the hypothesis for strictly smaller values."""
    if isinstance(out, SObj) and out.fields.get("cleaned_from") is inp and inp is not None:
        return True
    if isinstance(inp, SObj):
        return False  # an abstract child must have gone through the recursion
    if isinstance(inp, dict):
        if not isinstance(out, dict):
            return False
        parts = [same_keys(inp, out)]
        for k, v in inp.items():
            ov = entry_for(out, k)
            if ov is None:
                return False
            parts.append(Or(And(sens(k), is_redacted(ov)), And(Not(sens(k)), step_rel(v, ov))))
        return And(*parts)
    if isinstance(inp, list):
        if not isinstance(out, (list, tuple)) or len(out) != len(inp):
            return False
        return And(*[step_rel(a, b) for a, b in zip(inp, out)])
    return not isinstance(out, (dict, list, tuple, SObj)) or out is inp


def make_node(S, kind, width):
    children = [child(S, f"c{i}") for i in range(width)]
    if kind == "obj":
        node, keys = {}, []
        for i, c in enumerate(children):
            k = S.str(f"k{i + 1}")
            for o in keys:
                S.assume(Not(eq(k, o)))
            keys.append(k)
            node[k] = c
        return node, children
    if kind == "list":
        return list(children), children
    return S.str("scalar"), []


def replay_step(inputs, ob):
    # The step's children are abstract, so its counter-models have no direct native twin: the refutation is
    # replayed on concrete instances of the node whose children are small nested values holding one sensitive
    # entry at depth 1..3 (a child that skipped the recursion, or was only cleaned one level deep, shows up).
    secret = {"password": "p"}
    fillers = [secret, {"ctx": secret}, [secret], [[secret]], {"a": [{"b": secret}]}, {"a": {"b": {"c": secret}}}]
    keys = [inputs[k] for k in sorted(inputs) if re.fullmatch(r"k\d+", k) and isinstance(inputs[k], str)]
    keys = [k for k in keys if not py_sens(k)] or ["ctx"]
    kind = inputs.get("node_kind")
    last = "no instance tried"
    for f in fillers:
        import copy

        claims = {k: copy.deepcopy(f) for k in keys} if kind == "obj" else {"items": [copy.deepcopy(f) for _ in range(max(1, inputs.get("width") or 1))]}
        try:
            out = lu.redact_claims(claims)
        except Exception as e:
            return ReplayResult(True, f"redact_claims({claims!r}) raised {type(e).__name__}: {e}")
        bad = py_unclean(out) or py_keys_lost(claims, out)
        last = f"redact_claims({claims!r}) -> {out!r}: {bad or 'clean'}"
        if bad:
            return ReplayResult(True, last)
    return ReplayResult(False, last)


@unit(
    "C35.O1 induction step: redact_claims and its recursion on a node with abstract children",
    targets=["vgi_rpc/logging_utils.py::redact_claims (+ helpers it recurses through)"],
    replay=replay_step,
    min_obligations=12,
)
def step(S):
    S.abstract_regex = True
    fi = S.choose(len(HELPERS))
    fname = HELPERS[fi]
    fn = getattr(lu, fname)
    kinds = ["obj"] if fname == "redact_claims" else ["obj", "list", "scalar"]
    kind = kinds[S.choose(len(kinds))]
    width = 0 if kind == "scalar" else S.choose(3)
    node, children = make_node(S, kind, width)
    S.inputs.update({"function": fname, "node_kind": kind, "width": width})
    install_hypothesis(S, fname, node, children)
    out = S.outcome(fn, node)
    S.oblige(f"O1.step.returns[{fname}:{kind}]", out.returned, kind="raises")
    if not out.returned:
        return
    S.oblige(f"O1.step.cleaned[{fname}:{kind}]", step_rel(node, out.value))
    S.oblige(f"O1.step.clean_by_definition[{fname}:{kind}]", clean(out.value))
    if fname == "redact_claims" and width == 1:
        S.canary("O1.step.canary.recursion_never_used", SBool(z3.BoolVal(not S.events("rec"))))


# --------------------------------------------------------------------------------------
# O2: apply_claim_redaction fails closed
# --------------------------------------------------------------------------------------


class _RedactorBug(Exception):
    pass


RAISES = [Exception, ValueError, TypeError, KeyError, AttributeError, RuntimeError, RecursionError, UnicodeDecodeError, _RedactorBug]


def replay_apply(inputs, ob):
    mode = inputs["mode"]
    claims = {"email": "a@b", "ctx": {"password": "p"}}
    marker = {"ok": 1}

    def redactor(c):
        if mode == "returns":
            return marker
        cls = RAISES[inputs["exc_index"]]
        raise cls("utf-8", b"x", 0, 1, "boom") if cls is UnicodeDecodeError else cls("boom")

    prev = lu._claim_redactor
    lu.set_claim_redactor(redactor)
    root = logging.getLogger("vgi_rpc")
    old = root.disabled
    root.disabled = True
    try:
        try:
            out = lu.apply_claim_redaction(claims)
        except BaseException as e:
            return ReplayResult(True, f"apply_claim_redaction let {type(e).__name__} escape (redactor mode {mode})")
    finally:
        root.disabled = old
        lu.set_claim_redactor(prev)
    bad = (out is not marker) if mode == "returns" else (out != {} or out is claims)
    return ReplayResult(bad, f"redactor {mode}: apply_claim_redaction -> {out!r}")


@unit("C35.O2 apply_claim_redaction returns the redactor's result or {} when it raises", targets=["vgi_rpc/logging_utils.py::apply_claim_redaction"], replay=replay_apply, min_obligations=20)
def apply(S):
    claims, _ = build(S, O("s", O("s")), {"k": 0, "v": 0})
    mode = ["returns", "raises"][S.choose(2)]
    ei = S.choose(len(RAISES)) if mode == "raises" else 0
    S.inputs.update({"mode": mode, "exc_index": ei})
    result = SObj(None, kind="RedactorResult")

    def redactor(S, c, *a, **kw):
        S.event("redactor", c)
        if mode == "raises":
            raise PyRaise(SExc(RAISES[ei], ("boom",)))
        return result

    S.handlers[lu._claim_redactor] = redactor  # whatever is installed: arbitrary user code
    S.handlers["Logger.warning"] = lambda S, *a, **kw: S.event("log", a, kw)
    S.handlers["Logger.exception"] = lambda S, *a, **kw: S.event("log", a, kw)
    S.handlers["Logger.error"] = lambda S, *a, **kw: S.event("log", a, kw)
    out = S.outcome(lu.apply_claim_redaction, claims)
    calls = S.events("redactor")
    S.oblige(f"O2.nothing_escapes[{mode}]", out.returned, kind="raises")
    S.oblige("O2.redactor_gets_the_claims_once", len(calls) == 1 and calls[0][1] is claims, kind="trace")
    if not out.returned:
        return
    if mode == "returns":
        S.oblige("O2.returns_the_redactors_result", out.value is result, kind="post")
    else:
        S.oblige(f"O2.failing_redactor_drops_claims[{RAISES[ei].__name__}]", isinstance(out.value, dict) and len(out.value) == 0 and out.value is not claims, kind="post")
        for e in S.events("log"):
            S.oblige("O2.failure_log_carries_no_claims", not mentions(e[1:], claims), kind="trace")
    S.canary("O2.canary.always_empty", SBool(z3.BoolVal(isinstance(out.value, dict) and len(out.value) == 0)))


# --------------------------------------------------------------------------------------
# O3: _emit_access_log puts claims into the record only through apply_claim_redaction
# --------------------------------------------------------------------------------------


def symbols(v, acc=None, objs=None):
    """(z3 constant names occurring in v, ids of containers reachable from v)."""
    acc = set() if acc is None else acc
    objs = set() if objs is None else objs
    if isinstance(v, (SStr, SInt, SBool, SBytes, SFloat, SOpaque)):
        stack = [v.t]
        seen = set()
        while stack:
            x = stack.pop()
            if x.get_id() in seen:
                continue
            seen.add(x.get_id())
            if z3.is_const(x) and x.decl().kind() == z3.Z3_OP_UNINTERPRETED:
                acc.add(x.decl().name())
            stack.extend(x.children())
    elif isinstance(v, dict):
        objs.add(id(v))
        for k, x in v.items():
            symbols(k, acc, objs)
            symbols(x, acc, objs)
    elif isinstance(v, (list, tuple, set, frozenset)):
        objs.add(id(v))
        for x in v:
            symbols(x, acc, objs)
    elif isinstance(v, SObj):
        objs.add(id(v))
    return acc, objs


def mentions(v, claims) -> bool:
    cs, co = symbols(claims)
    vs, vo = symbols(v)
    return bool(cs & vs) or bool(co & vo)


def _leaf_strings(v):
    if isinstance(v, dict):
        for x in v.values():
            yield from _leaf_strings(x)
    elif isinstance(v, (list, tuple)):
        for x in v:
            yield from _leaf_strings(x)
    elif isinstance(v, str):
        yield v


def frame_scan():
    """Syntactic dependency check on _emit_access_log: `.claims` is read only as the redaction argument or in a
    truthiness test, and extra['claims'] is assigned only the redaction result."""
    _, tree = parse_file(srv.__file__)
    fn = next(n for n in ast.walk(tree) if isinstance(n, ast.FunctionDef) and n.name == "_emit_access_log")
    parents = {}
    for p in ast.walk(fn):
        for c in ast.iter_child_nodes(p):
            parents[id(c)] = p
    redacted_names = set()
    for n in ast.walk(fn):
        if isinstance(n, ast.Assign) and isinstance(n.value, ast.Call) and isinstance(n.value.func, ast.Name) and n.value.func.id == "apply_claim_redaction":
            redacted_names |= {t.id for t in n.targets if isinstance(t, ast.Name)}
    reads, stores = [], []
    for n in ast.walk(fn):
        if isinstance(n, ast.Attribute) and n.attr == "claims":
            p = parents.get(id(n))
            ok = (isinstance(p, ast.Call) and isinstance(p.func, ast.Name) and p.func.id == "apply_claim_redaction" and p.args == [n]) or (isinstance(p, ast.If) and p.test is n)
            reads.append((n.lineno, ast.unparse(p)[:80] if p is not None else "?", ok))
        if isinstance(n, ast.Assign):
            for t in n.targets:
                if isinstance(t, ast.Subscript) and isinstance(t.slice, ast.Constant) and t.slice.value == "claims":
                    ok = isinstance(n.value, ast.Name) and n.value.id in redacted_names
                    stores.append((n.lineno, ast.unparse(n)[:80], ok))
    return reads, stores


def replay_emit(inputs, ob):
    claims = to_native(inputs["claims"]) if inputs.get("claims_present") else {}
    mode = inputs["redaction"]
    marker = {"r": "redactor-output"}
    records = []
    if claims and mode == "fails" and not any(len(x) >= 3 for x in _leaf_strings(claims)):
        # the model leaves the values unconstrained (often ""): give them recognisable text so a quote of them shows
        claims = {"email": "LEAKMARK1@example.com", "n": {"token": "LEAKMARK2"}, "l": [{"phone": "LEAKMARK3"}]}

    class H(logging.Handler):
        def emit(self, record):
            records.append(record)

    def redactor(c):
        if mode == "fails":
            raise RuntimeError(f"cannot redact {c!r}")  # as real redactors do: the message quotes what they choked on
        return marker

    logger = logging.getLogger("vgi_rpc.access")
    h = H()
    old_level, old_disabled = logger.level, logger.disabled
    prev = lu._claim_redactor
    lu.set_claim_redactor(redactor)
    root = logging.getLogger("vgi_rpc")
    root_disabled = root.disabled
    logger.addHandler(h)
    logger.setLevel(logging.INFO)
    sink = [] if inputs.get("sink") else None
    tok = srv._current_access_sink.set(sink)
    try:
        auth = AuthContext(domain="jwt", authenticated=True, principal="alice", claims=claims)
        srv._emit_access_log("P", "m", "unary", "srv", auth, {}, 1.0, "ok")
    finally:
        srv._current_access_sink.reset(tok)
        logger.removeHandler(h)
        logger.setLevel(old_level)
        logger.disabled = old_disabled
        root.disabled = root_disabled
        lu.set_claim_redactor(prev)
    extras = [e for _, e in sink] if sink is not None else [r.__dict__ for r in records]
    if len(extras) != 1:
        return ReplayResult(True, f"{len(extras)} records emitted")
    got = extras[0].get("claims", "<absent>")
    want = marker if (claims and mode == "returns") else "<absent>"
    leaked = [k for k, v in extras[0].items() if k != "claims" and claims and (v is claims or v == claims)]
    leaves = [x for x in _leaf_strings(claims) if len(x) >= 3]
    leaked += [f"{k} (quotes claim value {x!r})" for k, v in extras[0].items() if k != "claims" and isinstance(v, (str, bytes, list, dict, tuple)) for x in leaves if x in repr(v)]
    bad = got != want or bool(leaked) or (got is claims and bool(claims))
    return ReplayResult(bad, f"claims={claims!r} redactor {mode}: record.claims={got!r} (wanted {want!r}) leaked_in={leaked}")


@unit(
    "C35.O3 _emit_access_log: claims reach the record only through apply_claim_redaction",
    targets=["vgi_rpc/rpc/_server.py::_emit_access_log"],
    replay=replay_emit,
    min_obligations=20,
)
def emit(S):
    present = S.choose(2) == 0
    if present:
        claims, desc = build(S, O("s", O("s"), Ls(O("s"))), {"k": 0, "v": 0})
    else:
        claims, desc = {}, ("obj", [])
    redaction = ["returns", "fails"][S.choose(2)] if present else "returns"
    use_sink = S.choose(2) == 1
    info_on = S.choose(2) == 0
    S.inputs.update({"claims": desc, "claims_present": present, "redaction": redaction, "sink": use_sink, "info_enabled": info_on})
    principal = S.str("principal")
    auth = SObj(AuthContext, domain="jwt", authenticated=True, principal=principal, claims=claims)
    result = {"r": S.str("redactor_output")}

    # apply_claim_redaction runs user redactor code over the raw claims: besides its return value, anything it can write
    # to (a mutable argument the caller hands in) may come back carrying text derived from them - e.g. the message of
    # the exception the redactor died with
    side = S.str("text_derived_from_the_raw_claims")

    def apply_h(S, c, *a, **kw):
        S.event("redact", c)
        for v in list(a) + list(kw.values()):
            if isinstance(v, list):
                v.append(side)
            elif isinstance(v, dict):
                v["detail"] = side
        return result if redaction == "returns" else {}

    S.handlers["apply_claim_redaction"] = apply_h  # by contract (O2): the redactor's result, or {} when it raised

    def enabled(S, level):
        return info_on if level == logging.INFO else False

    S.handlers["Logger.isEnabledFor"] = enabled
    S.handlers["_access_logger.info"] = S.handlers["Logger.info"] = lambda S, *a, **kw: S.event("record", a, kw.get("extra"))
    sink = SObj(None, kind="Sink")
    S.handlers["Sink.append"] = lambda S, me, item: S.event("record", (item[0],), item[1])
    S.handlers[srv._current_access_sink.get] = lambda S, *a: sink if use_sink else None
    S.handlers["_current_trace_context"] = lambda S: ("", "")
    out = S.outcome(srv._emit_access_log, "P", "m", "unary", "srv", auth, {}, 1.0, "ok")
    S.oblige("O3.emission_never_raises", out.returned, kind="raises")
    recs = S.events("record")
    calls = S.events("redact")
    S.oblige("O3.one_record_iff_enabled", len(recs) == (1 if info_on else 0), kind="trace")
    S.oblige("O3.redaction_applied_to_auth_claims_only", all(c[1] is claims for c in calls) and len(calls) <= 1, kind="trace")
    for _, args, extra in recs:
        S.oblige("O3.record_has_extra", isinstance(extra, dict), kind="trace")
        if not isinstance(extra, dict):
            continue
        if "claims" in extra:
            S.oblige("O3.claims_field_is_the_redaction_result", len(calls) == 1 and extra["claims"] is result and present and redaction == "returns", kind="trace")
        else:
            S.oblige("O3.claims_absent_only_when_empty_or_dropped", (not present) or redaction == "fails", kind="trace")
        rest = {k: v for k, v in extra.items() if k != "claims"}
        S.oblige("O3.no_raw_claim_symbol_elsewhere_in_record", not mentions(rest, claims) and not mentions(args, claims), kind="trace")
        S.oblige("O3.nothing_derived_from_the_raw_claims_besides_the_redaction_result", not mentions(rest, [side]) and not mentions(args, [side]), kind="trace", witness="side channel of apply_claim_redaction")
        if present and redaction == "fails":
            S.oblige("O3.failed_redaction_drops_claims_entirely", "claims" not in extra, kind="trace")
    if info_on and present and redaction == "returns":
        S.canary("O3.canary.claims_never_logged", SBool(z3.BoolVal(all("claims" not in (e or {}) for _, _, e in recs))))


@unit("C35.O3 frame: no other statement of _emit_access_log touches the claims", targets=["vgi_rpc/rpc/_server.py::_emit_access_log (syntactic scan)"], min_obligations=3)
def frame(S):
    reads, stores = frame_scan()
    for line, text, ok in reads:
        S.cur_site = f"_emit_access_log:{line}: {text}"
        S.oblige("O3.frame.claims_read_only_for_redaction", ok, kind="trace", witness=f"read:{text}")
    for line, text, ok in stores:
        S.cur_site = f"_emit_access_log:{line}: {text}"
        S.oblige("O3.frame.claims_field_written_only_from_redaction", ok, kind="trace", witness=f"store:{text}")
    S.oblige("O3.frame.claims_arm_found", len(reads) >= 2 and len(stores) >= 1, kind="trace")
    S.canary("O3.frame.canary.no_reads", len(reads) == 0)
