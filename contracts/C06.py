"""C06 Methods run only with contract-conforming arguments (DESIGN §5 C06)."""

from __future__ import annotations

import z3

import vgi_rpc.rpc._wire as wire
from pyvc.api import *  # noqa: F403
from pyvc.api import PyRaise, ReplayResult, unit
from vgi_rpc.rpc import _common

MANIFEST = {
    "level_text": "Deductive proof, for every declared signature (any number of parameters, any names/Arrow types/nullability/defaults) and every request (any column list, any keyword set, any None positions): _validate_call_signature returns normally only when the request schema equals the declared one field by field (name, type, nullability, order, count), no undeclared keyword is present and every required one is; _validate_params returns normally only when no non-optional parameter is None; both reject with TypeError only. The dispatch sites are covered by trace obligations: the implementation is invoked only after both validators returned, and an exception raised by the implementation is never mapped to a request error.",
    "level_note": "Dispatch order on the socket path is C05.O3; the HTTP dispatch sites (_run_unary_sync, _run_stream_init_sync) are units O3-O5 from C06_http.py. Assumes: Arrow Field name/type/nullable attribute access and type equality are pure (opaque types with equality); _is_optional_type is an arbitrary but fixed function of the annotation; the request schema recorded by _read_request is the schema the kwargs were read from; engine + z3/cvc5 trusted.",
    "technique": "contract-based deductive verification: loop invariant over the zipped schemas, set-algebra on symbolic keyword sets, ghost-trace ordering at dispatch sites; VCs by pyvc, z3/cvc5",
    "design_ref": "DESIGN.md §5 C06",
}
EXPLANATION = MANIFEST["level_text"]
TRUSTED = ["pyvc VC generator (ordered dicts as item sequences, sets as membership predicates)", "z3 5.1.0 / cvc5 1.4.0", "pyarrow Field/Schema attribute semantics"]
ASSUMPTIONS = [
    "Arrow types are opaque values with equality; field.name/type/nullable are pure attribute reads",
    "_is_optional_type(annotation) is a pure function of the annotation (modelled uninterpreted)",
    "termination of the loops is not verified",
]

FIELD = RecShape("Field", name=StrShape, type=OpaqueShape("ArrowType"), nullable=BoolShape)
VAL = OpaqueShape("PyVal?")
HINT = OpaqueShape("TypeHint")
NULLABLE = z3.Function("annotation_is_optional", opaque_sort("TypeHint"), z3.BoolSort())


def schema_equal(R, D):
    """The property's notion: same count, and per position same name, Arrow type and nullability."""
    n = SInt(D.length)
    return And(
        SInt(R.length) == n,
        ForAllInt(
            lambda i: Implies(
                And(i >= 0, i < n),
                And(eq(R.get(i).fields["name"], D.get(i).fields["name"]), eq(R.get(i).fields["type"], D.get(i).fields["type"]), eq(R.get(i).fields["nullable"], D.get(i).fields["nullable"])),
            )
        ),
    )


def keys_ok(kwargs, ptypes, pdefaults):
    """kwargs ⊆ declared ∪ {ctx}  ∧  declared ∖ defaulted ⊆ kwargs."""
    return And(
        ForAllStr(lambda k: Implies(kwargs.has(k), Or(ptypes.has(k), eq(k, "ctx")))),
        ForAllStr(lambda k: Implies(And(ptypes.has(k), Not(pdefaults.has(k))), kwargs.has(k))),
    )


class _F:
    def __init__(self, name, type_, nullable):
        self.name, self.type, self.nullable = name, type_, nullable


def replay_signature(inputs, ob):
    def fields(xs):
        return [_F(x["name"], x["type"], x["nullable"]) for x in xs]

    kwargs = {k: None for k, _ in inputs.get("kwargs", [])}
    ptypes = {k: object for k, _ in inputs.get("ptypes", [])}
    pdef = {k: None for k, _ in inputs.get("pdefaults", [])}
    decl = fields(inputs.get("declared", []))
    req = fields(inputs["request"]) if inputs.get("has_request_schema") else None
    tok = _common._current_request_param_schema.set(req)
    try:
        try:
            wire._validate_call_signature("m", kwargs, ptypes, pdef, decl)
            accepted = True
        except TypeError:
            accepted = False
        except Exception as e:
            return ReplayResult(True, f"raised {type(e).__name__}: {e}")
    finally:
        _common._current_request_param_schema.reset(tok)
    ok_keys = set(kwargs) <= set(ptypes) | {"ctx"} and set(ptypes) - set(pdef) <= set(kwargs)
    ok_schema = req is None or (len(req) == len(decl) and all((a.name, a.type, a.nullable) == (b.name, b.type, b.nullable) for a, b in zip(req, decl)))
    want = ok_keys and ok_schema
    return ReplayResult(accepted and not want, f"accepted={accepted} keys_ok={ok_keys} schema_ok={ok_schema}")


def search_signature_sequences(ob, seed=0):
    """Bounded native search (used when the unit leaves the engine's reach or loses its proof): a real RpcServer on one
    connection is first sent a conforming request, then requests whose columns are retyped within the same Arrow type
    family, across families, renamed, reordered, dropped, added or nullability-flipped.  The method may run only for
    the conforming ones - also when the server has seen a conforming request of that method before."""
    import contextlib
    from io import BytesIO
    from typing import Protocol

    import pyarrow as pa
    from vgi_rpc.metadata import REQUEST_VERSION, REQUEST_VERSION_KEY, RPC_METHOD_KEY
    from vgi_rpc.rpc import PipeTransport, RpcServer, rpc_methods

    class Svc(Protocol):
        def f(self, xs: list[int], name: str, n: int) -> int: ...

    class Impl:
        def __init__(self):
            self.calls = []

        def f(self, xs, name, n):
            self.calls.append((xs, name, n))
            return 0

    declared = rpc_methods(Svc)["f"].params_schema
    good = {"xs": [[1, 2]], "name": ["a"], "n": [3]}

    def req(schema, data):
        buf = BytesIO()
        batch = pa.RecordBatch.from_pydict(data, schema=schema)
        with pa.ipc.new_stream(buf, schema) as w:
            w.write_batch(batch, custom_metadata=pa.KeyValueMetadata({RPC_METHOD_KEY: b"f", REQUEST_VERSION_KEY: REQUEST_VERSION}))
        return buf.getvalue()

    def with_field(i, field):
        return pa.schema([field if j == i else declared.field(j) for j in range(len(declared))])

    variants = {
        "list<double> for list<int64>": (with_field(0, pa.field("xs", pa.list_(pa.float64()), nullable=declared.field(0).nullable)), {"xs": [[1.5]], "name": ["a"], "n": [3]}),
        "list<int32> for list<int64>": (with_field(0, pa.field("xs", pa.list_(pa.int32()), nullable=declared.field(0).nullable)), good),
        "large_string for string": (with_field(1, pa.field("name", pa.large_string(), nullable=declared.field(1).nullable)), good),
        "int32 for int64": (with_field(2, pa.field("n", pa.int32(), nullable=declared.field(2).nullable)), good),
        "nullability flipped": (with_field(2, pa.field("n", pa.int64(), nullable=not declared.field(2).nullable)), good),
        "renamed column": (with_field(2, pa.field("m", pa.int64(), nullable=declared.field(2).nullable)), {"xs": [[1]], "name": ["a"], "m": [3]}),
        "reordered columns": (pa.schema([declared.field(1), declared.field(0), declared.field(2)]), good),
        "missing column": (pa.schema([declared.field(0), declared.field(1)]), {"xs": [[1]], "name": ["a"]}),
        "extra column": (pa.schema([*declared, pa.field("z", pa.int64())]), {**good, "z": [1]}),
    }
    for warm in (False, True):
        for label, (schema, data) in variants.items():
            impl = Impl()
            server = RpcServer(Svc, impl)
            stream = (req(declared, good) if warm else b"") + req(schema, data)
            transport = PipeTransport(BytesIO(stream), BytesIO())
            with contextlib.suppress(Exception):
                if warm:
                    server.serve_one(transport)
                server.serve_one(transport)
            want = 1 if warm else 0
            if len(impl.calls) != want:
                return {"variant": label, "after_a_conforming_call": warm}, ReplayResult(True, f"request with {label}{' sent after a conforming request on the same server' if warm else ''}: the method ran {len(impl.calls) - want} time(s) on it (arguments {impl.calls[-1]!r})")
    return None


@unit("C06.O1 _validate_call_signature", targets=["vgi_rpc/rpc/_wire.py::_validate_call_signature"], replay=replay_signature, search=search_signature_sequences, min_obligations=6)
def call_signature(S):
    kwargs = SODict.fresh("kwargs", StrShape, VAL)
    ptypes = SODict.fresh("ptypes", StrShape, HINT)
    pdefaults = SODict.fresh("pdefaults", StrShape, VAL)
    declared = S.list("declared", FIELD)
    request = S.list("request", FIELD)
    for nm, d in (("kwargs", kwargs), ("ptypes", ptypes), ("pdefaults", pdefaults)):
        S.inputs[nm] = d.items
    has_req = S.choose(2) == 0
    S.inputs["has_request_schema"] = has_req
    S.handlers[(_common._current_request_param_schema, "get")] = lambda S, *a: request if has_req else None
    D0, R0 = declared.snapshot(), request.snapshot()

    def inv(L):
        i = L.idx
        return [
            ("prefix_equal", ForAllInt(lambda j: Implies(And(j >= 0, j < i), And(eq(R0.get(j).fields["name"], D0.get(j).fields["name"]), eq(R0.get(j).fields["type"], D0.get(j).fields["type"]), eq(R0.get(j).fields["nullable"], D0.get(j).fields["nullable"]))))),
            ("same_length", SInt(R0.length) == SInt(D0.length)),
        ]

    S.invariants[("_validate_call_signature", 0)] = inv
    out = S.outcome(wire._validate_call_signature, S.str("method_name"), kwargs, ptypes, pdefaults, declared)
    if out.raised:
        S.oblige("O1.rejects_with_TypeError_only", exc_is(out.exc, TypeError), kind="raises")
        S.canary("O1.canary.rejects_only_on_schema_length", Not(SInt(R0.length) == SInt(D0.length)) if has_req else False)
        return
    S.oblige("O1.accept_implies_no_undeclared_and_no_missing_keyword", keys_ok(kwargs, ptypes, pdefaults))
    if has_req:
        S.oblige("O1.accept_implies_request_schema_equals_declared", schema_equal(R0, D0))
    S.canary("O1.canary.accepts_only_empty_schemas", SInt(D0.length) == 0)


def replay_params(inputs, ob):
    return ReplayResult(False, "covered by the symbolic proof; concrete replay needs real annotations")


@unit("C06.O2 _validate_params", targets=["vgi_rpc/rpc/_wire.py::_validate_params"], min_obligations=4)
def validate_params(S):
    kwargs = SODict.fresh("kwargs", StrShape, VAL)
    ptypes = SODict.fresh("ptypes", StrShape, HINT)
    K0 = kwargs.snapshot()
    IS_NONE_F = z3.Function("is_none_PyVal", opaque_sort("PyVal?"), z3.BoolSort())

    def is_optional(S, ptype):
        return (ptype, SBool(NULLABLE(ptype.t)))

    S.handlers["_is_optional_type"] = is_optional

    def bad(j):
        """declared, non-optional parameter j of the request is None"""
        k, v = K0.key(j), K0.val(j)
        return And(SBool(IS_NONE_F(v.t)), ExistsInt(lambda q: And(q >= 0, SBool(q.t < ptypes.length), eq(ptypes.key(q), k), Not(SBool(NULLABLE(ptypes.val(q).t))))))

    def inv(L):
        i = L.idx
        return [("no_bad_param_so_far", ForAllInt(lambda j: Implies(And(j >= 0, j < i), Not(bad(j)))))]

    S.invariants[("_validate_params", 0)] = inv
    out = S.outcome(wire._validate_params, S.str("method_name"), kwargs, ptypes)
    n = SInt(K0.length)
    if out.raised:
        S.oblige("O2.rejects_with_TypeError_only", exc_is(out.exc, TypeError), kind="raises")
        S.oblige("O2.rejects_only_when_a_nonoptional_param_is_None", ExistsInt(lambda j: And(j >= 0, j < n, bad(j))))
        return
    S.oblige("O2.accept_implies_every_nonoptional_param_is_not_None", ForAllInt(lambda j: Implies(And(j >= 0, j < n), Not(bad(j)))))
    S.canary("O2.canary.accepts_only_without_None", ForAllInt(lambda j: Implies(And(j >= 0, j < n), Not(SBool(IS_NONE_F(K0.val(j).t))))))


# ------------------------------------------------------------------------------------------
# HTTP dispatch sites (units O3-O5 live in C06_http.py; importing it registers them here)
# ------------------------------------------------------------------------------------------
import C06_http  # noqa: E402,F401


# ------------------------------------------------------------------------------------------
# O6 carrier obligation: the schema _read_request records for _validate_call_signature is the schema of the very batch
# the arguments are read from (inline batch, or what a shared-memory pointer resolves to) - otherwise O1 validates
# one schema while the method receives values decoded under another
# ------------------------------------------------------------------------------------------


def _load_c05():
    import importlib.util
    import os
    import sys

    from pyvc import api

    api.begin_registry()
    try:
        spec = importlib.util.spec_from_file_location("contracts_C05_as_library", os.path.join(os.path.dirname(os.path.abspath(__file__)), "C05.py"))
        mod = importlib.util.module_from_spec(spec)
        sys.modules[spec.name] = mod
        spec.loader.exec_module(mod)
    finally:
        api.end_registry()
    return mod


def replay_recorded_schema(inputs, ob):
    """Real server on a pipe with a shared-memory segment: a pointer request whose inline (0-row) batch has the declared
    schema while the payload in the segment carries a retyped / reordered / nullable-flipped column.  The method must not run."""
    import contextlib
    from io import BytesIO
    from typing import Protocol

    import pyarrow as pa
    from vgi_rpc.metadata import REQUEST_VERSION, REQUEST_VERSION_KEY, RPC_METHOD_KEY
    from vgi_rpc.rpc import PipeTransport, RpcServer, ShmPipeTransport, rpc_methods
    from vgi_rpc.shm import ShmSegment, make_shm_pointer_batch

    class Calc(Protocol):
        def scale(self, value: int, factor: int) -> int: ...

    class Impl:
        def __init__(self):
            self.calls = []

        def scale(self, value, factor):
            self.calls.append((value, factor))
            return 0

    declared = rpc_methods(Calc)["scale"].params_schema
    variants = {
        "retyped": pa.RecordBatch.from_pydict({"value": [2.5], "factor": [7]}, schema=pa.schema([pa.field("value", pa.float64(), nullable=False), declared.field("factor")])),
        "narrowed": pa.RecordBatch.from_pydict({"value": [6], "factor": [7]}, schema=pa.schema([declared.field("value"), pa.field("factor", pa.int32(), nullable=False)])),
        "reordered": pa.RecordBatch.from_pydict({"factor": [7], "value": [6]}, schema=pa.schema([declared.field("factor"), declared.field("value")])),
        "nullable": pa.RecordBatch.from_pydict({"value": [6], "factor": [7]}, schema=pa.schema([pa.field("value", pa.int64(), nullable=True), declared.field("factor")])),
    }
    hits = []
    for label, inner in variants.items():
        seg = ShmSegment.create(1 << 20)
        try:
            placed = seg.allocate_and_write(inner)
            if placed is None:
                continue
            ptr_batch, ptr_cm = make_shm_pointer_batch(declared, placed[0], placed[1])
            md = {RPC_METHOD_KEY: b"scale", REQUEST_VERSION_KEY: REQUEST_VERSION, **dict(ptr_cm.items())}
            buf = BytesIO()
            with pa.ipc.new_stream(buf, ptr_batch.schema) as w:
                w.write_batch(ptr_batch, custom_metadata=pa.KeyValueMetadata(md))
            impl = Impl()
            with contextlib.suppress(Exception):
                RpcServer(Calc, impl).serve_one(ShmPipeTransport(PipeTransport(BytesIO(buf.getvalue()), BytesIO()), seg))
            if impl.calls:
                hits.append(f"{label} payload behind a conforming pointer: scale ran with {impl.calls[0]}")
        finally:
            with contextlib.suppress(Exception):
                seg.close()
            with contextlib.suppress(Exception):
                seg.unlink()
    return ReplayResult(bool(hits), "; ".join(hits) or "every non-conforming shm payload was refused before the method ran")


@unit(
    "C06.O6 _read_request records the schema of the batch the arguments are read from (inline or shm-resolved)",
    targets=["vgi_rpc/rpc/_wire.py::_read_request", "vgi_rpc/shm.py::resolve_shm_batch"],
    replay=replay_recorded_schema,
    min_obligations=10,
    max_paths=40000,
)
def recorded_schema(S):
    K = _load_c05()

    def extra(S, out, info):
        if not out.returned:
            return
        reads = S.events("column_read")
        store = info["store"]
        rec = store.get(_common._current_request_param_schema)
        S.oblige("O6.a_schema_is_recorded_for_every_accepted_request", rec is not None, kind="trace")
        for e in reads:
            S.oblige("O6.recorded_schema_is_the_schema_of_the_batch_the_arguments_come_from", rec is e[1].fields["schema"], kind="trace", witness="shm_payload" if e[1] is info["payload"] else "inline")
        S.oblige("O6.arguments_are_read_from_one_batch", len({id(e[1]) for e in reads}) <= 1, kind="trace")
        S.canary("O6.canary.arguments_never_come_from_a_shm_payload", SBool(z3.BoolVal(not any(e[1] is info["payload"] for e in reads))))

    K.read_request(S, extra=extra)


# ------------------------------------------------------------------------------------------
# O7 enum-typed parameters: the request carries the member's *name*; what reaches the method is a member of the declared
# enum - an unknown name is a rejected request (the dispatch sites answer it before the method runs: O3-O5, C05.O3),
# for required, optional and Annotated declarations alike.
# ------------------------------------------------------------------------------------------

import enum as _enum  # noqa: E402
from typing import Annotated as _Annotated  # noqa: E402
from typing import Optional as _Optional  # noqa: E402


class Mode(_enum.Enum):
    FAST = "f"
    SLOW = "s"
    TURBO = "f"  # an alias: value differs from name, two names share a value


ENUM_HINTS = {
    "Mode": Mode,
    "Mode | None": Mode | None,
    "Optional[Mode]": _Optional[Mode],
    "Annotated[Mode, 'doc']": _Annotated[Mode, "doc"],
    "Annotated[Mode | None, 'doc']": _Annotated[Mode | None, "doc"],
}


def replay_enum(inputs, ob):
    hint = ENUM_HINTS.get(inputs.get("hint", "Mode"), Mode)
    v = inputs.get("value", "NOPE")
    v = v if isinstance(v, str) else "NOPE"
    kwargs = {"mode": v}
    try:
        wire._deserialize_params(kwargs, {"mode": hint})
        got = kwargs["mode"]
        bad = not isinstance(got, Mode) or got.name not in (v, Mode[v].name if v in Mode.__members__ else "")
        return ReplayResult(bad, f"mode: {inputs.get('hint')} = {v!r}: accepted, the method would receive {got!r}")
    except (KeyError, TypeError, ValueError) as e:
        return ReplayResult(v in Mode.__members__, f"mode: {inputs.get('hint')} = {v!r}: rejected with {type(e).__name__}")
    except Exception as e:  # noqa: BLE001
        return ReplayResult(True, f"mode: {inputs.get('hint')} = {v!r}: raised {type(e).__name__}: {e}")


def search_enum(ob, seed=0):
    for h in ENUM_HINTS:
        for v in ("FAST", "SLOW", "TURBO", "NOPE", "fast", "f", ""):
            rr = replay_enum({"hint": h, "value": v}, ob)
            if rr.confirmed:
                return {"hint": h, "value": v}, rr
    return None


@unit("C06.O7 _deserialize_params: an enum parameter reaches the method as a member of the declared enum, an unknown name is rejected", targets=["vgi_rpc/rpc/_wire.py::_deserialize_params", "vgi_rpc/rpc/_wire.py::_deserialize_value"], replay=replay_enum, search=search_enum, min_obligations=10)
def enum_params(S):
    names = list(ENUM_HINTS)
    hname = names[S.choose(len(names))]
    hint = ENUM_HINTS[hname]
    v = S.str("value")
    S.inputs.update({"hint": hname})
    kwargs = {"mode": v}
    S.inline.update({"_deserialize_value", "_is_optional_type", "_unwrap_annotated"})
    out = S.outcome(wire._deserialize_params, kwargs, {"mode": hint})
    known = Or(*[eq(v, nm) for nm in Mode.__members__])
    if out.raised:
        S.oblige("O7.rejects_only_an_unknown_member_name", Not(known), kind="raises", witness=hname)
        S.oblige("O7.rejection_is_an_ordinary_exception_the_dispatch_sites_answer", exc_is(out.exc, KeyError, TypeError, ValueError), kind="raises", witness=hname)
        return
    got = kwargs["mode"]
    S.oblige("O7.the_method_receives_a_member_of_the_declared_enum", isinstance(got, Mode), kind="post", witness=hname)
    if isinstance(got, Mode):
        S.oblige("O7.the_member_is_the_one_named_in_the_request", eq(v, got.name) if got.name in Mode.__members__ and Mode[got.name] is got and not any(Mode[n] is got and n != got.name for n in Mode.__members__) else Or(*[eq(v, n) for n in Mode.__members__ if Mode[n] is got]), witness=hname)
    S.canary("O7.canary.every_name_is_accepted", SBool(z3.BoolVal(False)))
