"""C05 Malformed requests never silently kill or hang a connection (DESIGN §5 C05)."""

from __future__ import annotations

import pyarrow as pa
import z3

import vgi_rpc.rpc._server as srv
import vgi_rpc.shm as shm
from lib_server import CONNECTION_ENDING, World, method_info, raise_
from pyvc.api import *  # noqa: F403
from pyvc.api import PyRaise, ReplayResult, unit
from vgi_rpc.metadata import SHM_OFFSET_KEY, SHM_SEGMENT_NAME_KEY, SHM_SEGMENT_SIZE_KEY
from vgi_rpc.rpc._common import MethodType, RpcError, TransportKind, VersionError

MANIFEST = {
    "level_text": "Deductive proof over every path of the real RpcServer.serve_one (and of the shm-attach helpers it runs inline) for any request pyarrow delivered — any method name, any metadata values for the shared-memory keys (absent, malformed, non-UTF-8, naming a segment that does not exist), any validator outcome: the call either writes exactly one response / typed error stream and returns, or — only when the bytes were not valid Arrow IPC — writes an error stream and raises the connection-ending ArrowInvalid. No other exception escapes, so the serve loop keeps the connection.",
    "level_note": "Assumes: pyarrow's reader raises ArrowInvalid (only) on non-IPC bytes; SharedMemory(name=...) raises FileNotFoundError/ValueError/OSError for names that do not exist or are malformed; _read_request, _serve_unary, _serve_stream used by contract (their own obligations are in C04/C29/C34); peer alive (writes succeed); the byte-level claim about truncated/corrupted streams is inside pyarrow and not reduced.",
    "technique": "contract-based deductive verification: exceptional postconditions (raises-clauses) + ghost trace of response events over all paths of the real serve_one; VCs by pyvc, z3",
    "design_ref": "DESIGN.md §5 C05",
}
EXPLANATION = MANIFEST["level_text"]
TRUSTED = ["pyvc VC generator (exception forks at every raise site)", "z3 5.1.0", "pyarrow IPC reader/writer contracts (lib_server.py)", "multiprocessing.shared_memory raises only OSError-family / ValueError on bad names"]
ASSUMPTIONS = [
    "well-framed request: pyarrow delivered a batch (or raised ArrowInvalid)",
    "_read_request / _serve_unary / _serve_stream are used through their contracts",
    "peer is alive: response writes do not fail (C04 covers failing writes)",
]

KEYS = {"name": SHM_SEGMENT_NAME_KEY, "size": SHM_SEGMENT_SIZE_KEY, "offset": SHM_OFFSET_KEY}


def make_md(S):
    """Request metadata: for each shm key, absent or an arbitrary byte string."""
    vals = {}
    for tag, key in KEYS.items():
        present = S.choose(2) == 1
        S.inputs["md_" + tag + "_present"] = present
        vals[key] = S.bytes("md_" + tag) if present else None
    md = SObj(None, kind="KVMeta")

    def get(S, m, key, default=None):
        if key in vals:
            return vals[key]
        return None  # other framework keys are handled by the callees used by contract

    S.handlers["KVMeta.get"] = get
    return md, vals


def replay_serve_one(inputs, ob):
    """Drive a real RpcServer over an in-memory pipe with the model's shm metadata."""
    import io
    import threading
    from typing import Protocol

    from vgi_rpc.metadata import REQUEST_VERSION, REQUEST_VERSION_KEY, RPC_METHOD_KEY
    from vgi_rpc.rpc import RpcServer
    from vgi_rpc.utils import empty_batch

    class P(Protocol):
        def ping(self) -> int: ...

    class Impl:
        def ping(self) -> int:
            return 1

    server = RpcServer(P, Impl())
    md = {RPC_METHOD_KEY: b"ping", REQUEST_VERSION_KEY: REQUEST_VERSION}
    for tag, key in KEYS.items():
        if inputs.get("md_" + tag + "_present"):
            md[key] = inputs.get("md_" + tag, b"")
    buf = io.BytesIO()
    schema = pa.schema([])
    with pa.ipc.new_stream(buf, schema) as w:
        w.write_batch(pa.RecordBatch.from_arrays([], schema=schema), custom_metadata=md)

    class T:
        def __init__(self):
            self.reader = io.BytesIO(buf.getvalue())
            self.writer = io.BytesIO()

    t = T()
    cache = srv._ConnectionShm() if inputs.get("use_cache") else None
    try:
        server.serve_one(t, shm_cache=cache)
    except CONNECTION_ENDING as e:
        return ReplayResult(False, f"connection-ending {type(e).__name__}")
    except BaseException as e:
        return ReplayResult(True, f"serve_one let {type(e).__name__}: {e} escape for metadata {md!r}; bytes written to the client: {len(t.writer.getvalue())}")
    return ReplayResult(len(t.writer.getvalue()) == 0, f"returned; response bytes={len(t.writer.getvalue())}")


@unit("C05.O1 serve_one answers every well-framed request", targets=["vgi_rpc/rpc/_server.py::RpcServer.serve_one", "vgi_rpc/rpc/_server.py::_maybe_attach_shm", "vgi_rpc/rpc/_server.py::_ConnectionShm.refresh"], replay=replay_serve_one, min_obligations=40, max_paths=20000)
def serve_one(S):
    W = World(S)
    md, vals = make_md(S)
    S.inline.update({"_ConnectionShm.refresh", "_ConnectionShm.close"})
    kind = TransportKind.PIPE
    use_cache = S.choose(2) == 1
    S.inputs["use_cache"] = use_cache
    declares_version = S.choose(2) == 1
    me = SObj(
        srv.RpcServer,
        _ipc_validation="full",
        _external_config=None,
        _transport_kind=kind,
        _server_id="srv",
        _server_version="1",
        _protocol_hash="h",
        _protocol_version_parts=((1, 2, 3) if declares_version else None),
        _methods=SObj(None, kind="Methods"),
    )
    transport = SObj(None, kind="Transport", reader=SObj(None, kind="RawReader"), writer=SObj(None, kind="RawWriter"))
    S.handlers["Transport.__isinstance__"] = lambda S, o, c: False
    cache = SObj(srv._ConnectionShm, segment=None, name=None) if use_cache else None

    # _maybe_attach_shm by contract (proved in C05.O2 for every metadata value and every OS outcome):
    # returns a segment or None, raises nothing
    def maybe_attach_contract(S, req_md, transport_kind):
        S.event("maybe_attach")
        return SObj(None, kind="Segment") if S.choose(2) == 1 else None

    S.handlers["_maybe_attach_shm"] = maybe_attach_contract
    S.handlers["Segment.close"] = lambda S, seg: None

    # _read_request by contract: not IPC -> ArrowInvalid; bad envelope -> VersionError/RpcError;
    # a shm-pointer request makes it call attach_shm(metadata) and lets that call's exception out
    outcome = {"k": None}
    mname = {"v": None}

    def read_request(S, reader, ipc_validation=None, external_config=None, shm=None, attach_shm=None):
        k = S.choose(5)
        outcome["k"] = k
        if k == 0:
            raise_(pa.ArrowInvalid, "not an IPC stream")
        S.event("request_consumed")
        srv._current_request_metadata.set  # noqa: B018  (context variables live in ghost state)
        S.interp.models.call_concrete_method(S.interp, srv._current_request_metadata, "set", None, [md], {})
        if k == 1:
            raise_(VersionError, "bad request_version")
        if k == 2:
            raise_(RpcError, "ProtocolError", "missing method", "")
        if k == 3 and shm is None and attach_shm is not None:
            # request batch routed through shm: the segment named in the metadata is attached here
            seg = S.interp.call_value(attach_shm, [md], {})
            if seg is not None:
                S.interp.call_value(S.interp.getattr_value(seg, "close"), [], {})
        mname["v"] = S.str("method_name")
        return (mname["v"], {})

    S.handlers["_read_request"] = read_request
    info_k = {"k": None}

    def methods_get(S, m, name, default=None):
        k = S.choose(3)
        info_k["k"] = k
        if k == 0:
            return None
        return method_info("m", MethodType.UNARY if k == 1 else MethodType.STREAM)

    S.handlers["Methods.get"] = methods_get
    S.handlers["Methods.keys"] = lambda S, m: ["m"]

    def check_version(S, me_, value):
        S.event("version_checked")
        if S.choose(2) == 1:
            from vgi_rpc.rpc._common import ProtocolVersionError

            raise_(ProtocolVersionError, "mismatch")

    S.handlers["RpcServer._check_protocol_version"] = check_version
    for nm in ("_deserialize_params", "_validate_call_signature", "_validate_params"):

        def validator(S, *a, _nm=nm, **k):
            S.event("validated", _nm)
            if S.choose(2) == 1:
                raise_(KeyError if _nm == "_deserialize_params" else TypeError, "bad request")

        S.handlers[nm] = validator

    def dispatch(tag):
        def h(S, me_, transport_, info, kwargs, stats=None, shm=None):
            S.event("dispatch", tag)
            S.event("stream_open", transport_.fields["writer"], "dispatched-response")

        return h

    S.handlers["RpcServer._serve_unary"] = dispatch("unary")
    S.handlers["RpcServer._serve_stream"] = dispatch("stream")

    out = S.outcome(srv.RpcServer.serve_one, me, transport, shm_cache=cache)
    consumed = bool(S.events("request_consumed"))
    resp = W.responses()
    if out.raised:
        S.oblige("O1.only_connection_ending_exceptions_escape", exc_is(out.exc, *CONNECTION_ENDING), kind="raises", witness=f"{exc_class(out.exc).__name__} at {getattr(out.exc, 'site', '')[:90]}")
        S.oblige("O1.escape_only_for_non_ipc_bytes", outcome["k"] == 0, kind="raises", witness=f"{exc_class(out.exc).__name__} at {getattr(out.exc, 'site', '')[:90]}")
        S.oblige("O1.error_stream_written_before_ending_the_connection", len(resp) == 1, kind="trace")
        return
    if consumed:
        S.oblige("O2.exactly_one_response_per_consumed_request", len(resp) == 1, kind="trace")
    disp = S.events("dispatch")
    if disp:
        names = [e[0] for e in S.trace]
        S.oblige("O3.dispatch_only_after_all_validators", names.count("validated") == 3 and max(i for i, n in enumerate(names) if n == "validated") < names.index("dispatch"), kind="trace")
        if declares_version:
            gated = "version_checked" in names and names.index("version_checked") < names.index("dispatch")
            S.oblige("O3.dispatch_only_after_version_gate_except_describe", Or(eq(mname["v"], "__describe__"), SBool(z3.BoolVal(gated))), kind="trace")
    S.canary("O1.canary.never_dispatches", SBool(z3.BoolVal(not disp)))


def replay_maybe_attach(inputs, ob):
    md = {}
    for tag, key in KEYS.items():
        if inputs.get("md_" + tag + "_present"):
            md[key] = inputs.get("md_" + tag, b"")
    try:
        seg = srv._maybe_attach_shm(pa.KeyValueMetadata(md), TransportKind.PIPE)
    except BaseException as e:
        return ReplayResult(True, f"_maybe_attach_shm({md!r}) raised {type(e).__name__}: {e}")
    if seg is not None:
        seg.close()
    return ReplayResult(False, f"returned {seg!r}")


@unit("C05.O2 _maybe_attach_shm tolerates any metadata values", targets=["vgi_rpc/rpc/_server.py::_maybe_attach_shm"], replay=replay_maybe_attach, min_obligations=6)
def maybe_attach(S):
    md, vals = make_md(S)
    kind = [TransportKind.PIPE, TransportKind.HTTP, None][S.choose(3)]

    # SharedMemory-backed attach: any outcome the OS can produce for a client-chosen name
    def attach(S, name, size, track=True):
        import struct

        S.event("attach", name, size)
        k = S.choose(5)
        S.inputs["attach_outcome"] = ["ok", "FileNotFoundError", "ValueError", "OSError", "struct.error"][k]
        if k == 1:
            raise_(FileNotFoundError, "no such segment")
        if k == 2:
            raise_(ValueError, "bad segment name / header")
        if k == 3:
            raise_(OSError, "shm_open failed")
        if k == 4:
            raise_(struct.error, "segment shorter than the header")
        return SObj(None, kind="Segment")

    S.handlers["ShmSegment.attach"] = attach
    out = S.outcome(srv._maybe_attach_shm, md if S.choose(2) == 0 else None, kind)
    S.oblige("O2.unusable_segment_advertisements_are_ignored_not_raised", out.returned, kind="raises", witness=(exc_class(out.exc).__name__ if out.raised else ""))
    ev = S.events("attach")
    if kind is TransportKind.HTTP:
        S.oblige("O2.never_attaches_over_http", not ev, kind="trace")
    for _, name, size in ev:
        S.oblige("O2.attach_gets_the_decoded_name_and_numeric_size", isinstance(name, (SStr, str)) and isinstance(size, (SInt, int)), kind="post")
    S.canary("O2.canary.never_attaches", SBool(z3.BoolVal(not ev)))
