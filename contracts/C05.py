"""C05 Malformed requests never silently kill or hang a connection (DESIGN §5 C05)."""

from __future__ import annotations

import pyarrow as pa
import z3

import vgi_rpc.rpc._server as srv
import vgi_rpc.shm as shm
from lib_server import CONNECTION_ENDING, World, method_info, raise_
from pyvc.api import *  # noqa: F403
from pyvc.api import PyRaise, ReplayResult, unit
from vgi_rpc.metadata import SHM_OFFSET_KEY, SHM_SEGMENT_NAME_KEY, SHM_SEGMENT_SIZE_KEY
from vgi_rpc.rpc._common import MethodType, RpcError, TransportKind, VersionError

MANIFEST = {
    "level_text": "Deductive proof over every path of the real RpcServer.serve_one (and of the shm-attach helpers it runs inline) for any request pyarrow delivered — any method name, any metadata values for the shared-memory keys (absent, malformed, non-UTF-8, naming a segment that does not exist), any validator outcome: the call either writes exactly one response / typed error stream and returns, or — only when the bytes were not valid Arrow IPC — writes an error stream and raises the connection-ending ArrowInvalid. No other exception escapes, so the serve loop keeps the connection.",
    "level_note": "Assumes: pyarrow's reader raises ArrowInvalid (only) on non-IPC bytes; SharedMemory(name=...) raises FileNotFoundError/ValueError/OSError for names that do not exist or are malformed; _read_request, _serve_unary, _serve_stream used by contract (their own obligations are in C04/C29/C34); peer alive (writes succeed); the byte-level claim about truncated/corrupted streams is inside pyarrow and not reduced.",
    "technique": "contract-based deductive verification: exceptional postconditions (raises-clauses) + ghost trace of response events over all paths of the real serve_one; VCs by pyvc, z3",
    "design_ref": "DESIGN.md §5 C05",
}
EXPLANATION = MANIFEST["level_text"]
TRUSTED = ["pyvc VC generator (exception forks at every raise site)", "z3 5.1.0", "pyarrow IPC reader/writer contracts (lib_server.py)", "multiprocessing.shared_memory raises only OSError-family / ValueError on bad names"]
ASSUMPTIONS = [
    "well-framed request: pyarrow delivered a batch (or raised ArrowInvalid)",
    "_read_request / _serve_unary / _serve_stream are used through their contracts",
    "peer is alive: response writes do not fail (C04 covers failing writes)",
]

KEYS = {"name": SHM_SEGMENT_NAME_KEY, "size": SHM_SEGMENT_SIZE_KEY, "offset": SHM_OFFSET_KEY}


def make_md(S):
    """Request metadata: for each shm key, absent or an arbitrary byte string."""
    vals = {}
    for tag, key in KEYS.items():
        present = S.choose(2) == 1
        S.inputs["md_" + tag + "_present"] = present
        vals[key] = S.bytes("md_" + tag) if present else None
    md = SObj(None, kind="KVMeta")

    def get(S, m, key, default=None):
        if key in vals:
            return vals[key]
        return None  # other framework keys are handled by the callees used by contract

    S.handlers["KVMeta.get"] = get
    return md, vals


def replay_serve_one(inputs, ob):
    """Drive a real RpcServer over an in-memory pipe with the model's shm metadata."""
    import io
    import threading
    from typing import Protocol

    from vgi_rpc.metadata import REQUEST_VERSION, REQUEST_VERSION_KEY, RPC_METHOD_KEY
    from vgi_rpc.rpc import RpcServer
    from vgi_rpc.utils import empty_batch

    class P(Protocol):
        def ping(self) -> int: ...

    class Impl:
        def ping(self) -> int:
            return 1

    server = RpcServer(P, Impl())
    md = {RPC_METHOD_KEY: b"ping", REQUEST_VERSION_KEY: REQUEST_VERSION}
    for tag, key in KEYS.items():
        if inputs.get("md_" + tag + "_present"):
            md[key] = inputs.get("md_" + tag, b"")
    buf = io.BytesIO()
    schema = pa.schema([])
    with pa.ipc.new_stream(buf, schema) as w:
        w.write_batch(pa.RecordBatch.from_arrays([], schema=schema), custom_metadata=md)

    class T:
        def __init__(self):
            self.reader = io.BytesIO(buf.getvalue())
            self.writer = io.BytesIO()

    t = T()
    cache = srv._ConnectionShm() if inputs.get("use_cache") else None
    try:
        server.serve_one(t, shm_cache=cache)
    except CONNECTION_ENDING as e:
        return ReplayResult(False, f"connection-ending {type(e).__name__}")
    except BaseException as e:
        return ReplayResult(True, f"serve_one let {type(e).__name__}: {e} escape for metadata {md!r}; bytes written to the client: {len(t.writer.getvalue())}")
    return ReplayResult(len(t.writer.getvalue()) == 0, f"returned; response bytes={len(t.writer.getvalue())}")


def search_serve_sequences(ob, seed):
    """Native hunt: short sequences of well-framed requests fed to a real serve() loop over in-memory pipes;
    every request must get its own response stream (none swallowed, none unanswered)."""
    import io
    from dataclasses import dataclass
    from typing import Protocol

    from vgi_rpc import ProducerState, Stream, StreamState
    from vgi_rpc.metadata import REQUEST_VERSION, REQUEST_VERSION_KEY, RPC_METHOD_KEY
    from vgi_rpc.rpc import RpcServer

    @dataclass
    class _Gen(ProducerState):
        def produce(self, out, ctx):  # type: ignore[no-untyped-def]
            out.finish()

    ns = {"Stream": Stream, "StreamState": StreamState}
    exec("from typing import Protocol\nclass P(Protocol):\n    def add(self, a: int) -> int: ...\n    def gen(self, count: int) -> Stream[StreamState]: ...\n", ns)
    P = ns["P"]

    class Impl:
        def add(self, a: int) -> int:
            return a + 1

        def gen(self, count: int):  # type: ignore[no-untyped-def]
            return Stream(output_schema=pa.schema([]), state=_Gen())

    def req(method, cols, md_extra=None, version=REQUEST_VERSION):
        md = {RPC_METHOD_KEY: method, REQUEST_VERSION_KEY: version}
        md.update(md_extra or {})
        arrays = [pa.array([v]) for _, v in cols]
        schema = pa.schema([pa.field(n, a.type, nullable=False) for (n, _), a in zip(cols, arrays)])
        buf = io.BytesIO()
        with pa.ipc.new_stream(buf, schema) as w:
            w.write_batch(pa.RecordBatch.from_arrays(arrays, schema=schema), custom_metadata=md)
        return buf.getvalue()

    good = req(b"add", [("a", 1)])
    rejected = [
        ("stream request with a mistyped parameter", req(b"gen", [("count", "x")])),
        ("stream request with a misnamed parameter", req(b"gen", [("cnt", 1)])),
        ("unknown method", req(b"nope", [])),
        ("bad request_version", req(b"add", [("a", 1)], version=b"9")),
        ("unary request with duplicate column names", req(b"add", [("a", 1), ("a", 2)])),
        ("non-UTF-8 traceparent", req(b"add", [("a", 1)], {b"traceparent": b"\xff"})),
        ("unary with wrong type", req(b"add", [("a", "s")])),
    ]
    for label, bad in rejected:
        for seq_label, seq in ((f"[{label}, add]", [bad, good]), (f"[add, {label}, add, add]", [good, bad, good, good])):
            class T:
                def __init__(self, data):
                    self.reader = io.BytesIO(data)
                    self.writer = io.BytesIO()

            t = T(b"".join(seq))
            server = RpcServer(P, Impl())
            try:
                server.serve(t)
            except BaseException as e:
                return {"sequence": seq_label}, ReplayResult(True, f"serve() raised {type(e).__name__}: {str(e)[:100]} on {seq_label}")
            out = io.BytesIO(t.writer.getvalue())
            kinds = []
            try:
                while out.tell() < len(out.getvalue()):
                    r = pa.ipc.open_stream(out)
                    kind = "empty"
                    while True:
                        try:
                            b, cm = r.read_next_batch_with_custom_metadata()
                        except StopIteration:
                            break
                        if b.num_rows == 1:
                            kind = "result"
                        elif cm is not None and cm.get(b"vgi_rpc.log_level") == b"EXCEPTION" and kind != "result":
                            kind = "error"
                    kinds.append(kind)
            except Exception:
                pass
            want = ["result" if q is good else "error" for q in seq]
            # (after the last request the in-memory pipe is at EOF; the server may write one more error stream then)
            if kinds[: len(seq)] != want:
                return {"sequence": seq_label}, ReplayResult(True, f"requests {seq_label}: expected responses {want}, the client would read {kinds}")
    return None


@unit("C05.O1 serve_one answers every well-framed request", targets=["vgi_rpc/rpc/_server.py::RpcServer.serve_one", "vgi_rpc/rpc/_server.py::_maybe_attach_shm", "vgi_rpc/rpc/_server.py::_ConnectionShm.refresh"], replay=replay_serve_one, search=search_serve_sequences, min_obligations=40, max_paths=20000)
def serve_one(S):
    W = World(S)
    md, vals = make_md(S)
    S.inline.update({"_ConnectionShm.refresh", "_ConnectionShm.close"})
    kind = TransportKind.PIPE
    use_cache = S.choose(2) == 1
    S.inputs["use_cache"] = use_cache
    declares_version = S.choose(2) == 1
    me = SObj(
        srv.RpcServer,
        _ipc_validation="full",
        _external_config=None,
        _transport_kind=kind,
        _server_id="srv",
        _server_version="1",
        _protocol_hash="h",
        _protocol_version_parts=((1, 2, 3) if declares_version else None),
        _methods=SObj(None, kind="Methods"),
    )
    transport = SObj(None, kind="Transport", reader=SObj(None, kind="RawReader"), writer=SObj(None, kind="RawWriter"))
    S.handlers["Transport.__isinstance__"] = lambda S, o, c: False
    cache = SObj(srv._ConnectionShm, segment=None, name=None) if use_cache else None

    # _maybe_attach_shm by contract (proved in C05.O2 for every metadata value and every OS outcome):
    # returns a segment or None, raises nothing
    def maybe_attach_contract(S, req_md, transport_kind):
        S.event("maybe_attach")
        return SObj(None, kind="Segment") if S.choose(2) == 1 else None

    S.handlers["_maybe_attach_shm"] = maybe_attach_contract
    S.handlers["Segment.close"] = lambda S, seg: None

    # _read_request by contract: not IPC -> ArrowInvalid; bad envelope -> VersionError/RpcError;
    # a shm-pointer request makes it call attach_shm(metadata) and lets that call's exception out
    outcome = {"k": None}
    mname = {"v": None}

    def read_request(S, reader, ipc_validation=None, external_config=None, shm=None, attach_shm=None):
        # contract of _read_request (proved in C05.O3): ArrowInvalid *before* anything is recorded only for
        # bytes that are not an IPC stream; every other exception leaves after the request stream was drained
        # and the batch recorded in _current_request_batch
        k = S.choose(7)
        outcome["k"] = k
        if k == 0:
            raise_(pa.ArrowInvalid, "not an IPC stream")
        S.event("request_consumed")
        S.interp.models.call_concrete_method(S.interp, srv._current_request_batch, "set", None, [SObj(None, kind="Batch")], {})
        if k == 5:
            raise_(pa.ArrowInvalid, "value cannot be converted")  # well-framed, unusable contents
        if k == 6:
            raise_(KeyError, "duplicate column / bad metadata / malformed pointer")  # any other Exception
        srv._current_request_metadata.set  # noqa: B018  (context variables live in ghost state)
        S.interp.models.call_concrete_method(S.interp, srv._current_request_metadata, "set", None, [md], {})
        if k == 1:
            raise_(VersionError, "bad request_version")
        if k == 2:
            raise_(RpcError, "ProtocolError", "missing method", "")
        if k == 3 and shm is None and attach_shm is not None:
            # request batch routed through shm: the segment named in the metadata is attached here
            seg = S.interp.call_value(attach_shm, [md], {})
            if seg is not None:
                S.interp.call_value(S.interp.getattr_value(seg, "close"), [], {})
        mname["v"] = S.str("method_name")
        return (mname["v"], {})

    S.handlers["_read_request"] = read_request
    info_k = {"k": None}

    def methods_get(S, m, name, default=None):
        k = S.choose(3)
        info_k["k"] = k
        if k == 0:
            return None
        return method_info("m", MethodType.UNARY if k == 1 else MethodType.STREAM)

    S.handlers["Methods.get"] = methods_get
    S.handlers["Methods.keys"] = lambda S, m: ["m"]

    def check_version(S, me_, value):
        S.event("version_checked")
        if S.choose(2) == 1:
            from vgi_rpc.rpc._common import ProtocolVersionError

            raise_(ProtocolVersionError, "mismatch")

    S.handlers["RpcServer._check_protocol_version"] = check_version
    for nm in ("_deserialize_params", "_validate_call_signature", "_validate_params"):

        def validator(S, *a, _nm=nm, **k):
            S.event("validated", _nm)
            if S.choose(2) == 1:
                raise_(KeyError if _nm == "_deserialize_params" else TypeError, "bad request")

        S.handlers[nm] = validator

    def dispatch(tag):
        def h(S, me_, transport_, info, kwargs, stats=None, shm=None):
            S.event("dispatch", tag)
            S.event("stream_open", transport_.fields["writer"], "dispatched-response")

        return h

    S.handlers["RpcServer._serve_unary"] = dispatch("unary")
    S.handlers["RpcServer._serve_stream"] = dispatch("stream")

    out = S.outcome(srv.RpcServer.serve_one, me, transport, shm_cache=cache)
    consumed = bool(S.events("request_consumed"))
    resp = W.responses()
    if out.raised:
        S.oblige("O1.only_connection_ending_exceptions_escape", exc_is(out.exc, *CONNECTION_ENDING), kind="raises", witness=f"{exc_class(out.exc).__name__} at {getattr(out.exc, 'site', '')[:90]}")
        S.oblige("O1.escape_only_for_non_ipc_bytes", outcome["k"] == 0, kind="raises", witness=f"{exc_class(out.exc).__name__} at {getattr(out.exc, 'site', '')[:90]}")
        S.oblige("O1.error_stream_written_before_ending_the_connection", len(resp) == 1, kind="trace")
        return
    if consumed:
        S.oblige("O2.exactly_one_response_per_consumed_request", len(resp) == 1, kind="trace")
    disp = S.events("dispatch")
    if disp:
        names = [e[0] for e in S.trace]
        S.oblige("O3.dispatch_only_after_all_validators", names.count("validated") == 3 and max(i for i, n in enumerate(names) if n == "validated") < names.index("dispatch"), kind="trace")
        if declares_version:
            gated = "version_checked" in names and names.index("version_checked") < names.index("dispatch")
            S.oblige("O3.dispatch_only_after_version_gate_except_describe", Or(eq(mname["v"], "__describe__"), SBool(z3.BoolVal(gated))), kind="trace")
    S.canary("O1.canary.never_dispatches", SBool(z3.BoolVal(not disp)))


def replay_maybe_attach(inputs, ob):
    md = {}
    for tag, key in KEYS.items():
        if inputs.get("md_" + tag + "_present"):
            md[key] = inputs.get("md_" + tag, b"")
    try:
        seg = srv._maybe_attach_shm(pa.KeyValueMetadata(md), TransportKind.PIPE)
    except BaseException as e:
        return ReplayResult(True, f"_maybe_attach_shm({md!r}) raised {type(e).__name__}: {e}")
    if seg is not None:
        seg.close()
    return ReplayResult(False, f"returned {seg!r}")


@unit("C05.O2 _maybe_attach_shm tolerates any metadata values", targets=["vgi_rpc/rpc/_server.py::_maybe_attach_shm"], replay=replay_maybe_attach, min_obligations=6)
def maybe_attach(S):
    md, vals = make_md(S)
    kind = [TransportKind.PIPE, TransportKind.HTTP, None][S.choose(3)]

    # SharedMemory-backed attach: any outcome the OS can produce for a client-chosen name
    def attach(S, name, size, track=True):
        import struct

        S.event("attach", name, size)
        k = S.choose(5)
        S.inputs["attach_outcome"] = ["ok", "FileNotFoundError", "ValueError", "OSError", "struct.error"][k]
        if k == 1:
            raise_(FileNotFoundError, "no such segment")
        if k == 2:
            raise_(ValueError, "bad segment name / header")
        if k == 3:
            raise_(OSError, "shm_open failed")
        if k == 4:
            raise_(struct.error, "segment shorter than the header")
        return SObj(None, kind="Segment")

    S.handlers["ShmSegment.attach"] = attach
    out = S.outcome(srv._maybe_attach_shm, md if S.choose(2) == 0 else None, kind)
    S.oblige("O2.unusable_segment_advertisements_are_ignored_not_raised", out.returned, kind="raises", witness=(exc_class(out.exc).__name__ if out.raised else ""))
    ev = S.events("attach")
    if kind is TransportKind.HTTP:
        S.oblige("O2.never_attaches_over_http", not ev, kind="trace")
    for _, name, size in ev:
        S.oblige("O2.attach_gets_the_decoded_name_and_numeric_size", isinstance(name, (SStr, str)) and isinstance(size, (SInt, int)), kind="post")
    S.canary("O2.canary.never_attaches", SBool(z3.BoolVal(not ev)))


# ------------------------------------------------------------------------------------------
# C05.O3  _read_request: whatever a well-framed request carries, only the exceptions serve_one
#          answers (VersionError / RpcError) or the connection-ending ones leave it
# ------------------------------------------------------------------------------------------

from vgi_rpc.metadata import REQUEST_VERSION_KEY, RPC_METHOD_KEY, SHM_LENGTH_KEY, TRACEPARENT_KEY, TRACESTATE_KEY  # noqa: E402
import vgi_rpc.rpc._wire as wire  # noqa: E402

RR_KEYS = {"method": RPC_METHOD_KEY, "version": REQUEST_VERSION_KEY, "traceparent": TRACEPARENT_KEY, "tracestate": TRACESTATE_KEY, "shm_offset": SHM_OFFSET_KEY, "shm_length": SHM_LENGTH_KEY}


def _real_request_bytes(inputs, n_cols, dup_names, num_rows, bad_value):
    import io

    md = {}
    for tag, key in RR_KEYS.items():
        if inputs.get("rr_" + tag + "_present"):
            md[key] = inputs.get("rr_" + tag, b"")
    names = ["a", "a"][:n_cols] if dup_names else ["a", "b"][:n_cols]
    if bad_value:
        # a value pyarrow cannot turn into a Python object: timestamp far outside datetime's range
        arrays = [pa.array([2**62] * num_rows, type=pa.timestamp("s")) for _ in names]
    else:
        arrays = [pa.array([1] * num_rows, type=pa.int64()) for _ in names]
    schema = pa.schema([pa.field(n, a.type) for n, a in zip(names, arrays)])
    batch = pa.RecordBatch.from_arrays(arrays, schema=schema)
    buf = io.BytesIO()
    with pa.ipc.new_stream(buf, schema) as w:
        w.write_batch(batch, custom_metadata=md)
    return buf.getvalue(), md


def replay_read_request(inputs, ob):
    """Real serve_one on a request built from the model: metadata values, duplicate names, rows, unconvertible value."""
    import io
    from typing import Protocol

    from vgi_rpc.rpc import RpcServer

    class P(Protocol):
        def ping(self) -> int: ...

    class Impl:
        def ping(self) -> int:
            return 1

    server = RpcServer(P, Impl())
    n_cols = inputs.get("n_cols", 0)
    rows = inputs.get("num_rows", 1)
    if not isinstance(rows, int) or rows < 0 or rows > 3:
        rows = 1
    data, md = _real_request_bytes(inputs, n_cols, inputs.get("dup_names", False), rows, inputs.get("as_py_raises", False))

    class T:
        def __init__(self):
            self.reader = io.BytesIO(data)
            self.writer = io.BytesIO()

    t = T()
    try:
        server.serve_one(t)
    except CONNECTION_ENDING as e:
        return ReplayResult(False, f"connection-ending {type(e).__name__}")
    except BaseException as e:
        return ReplayResult(True, f"serve_one let {type(e).__name__}: {str(e)[:120]} escape for metadata {md!r}, {n_cols} column(s) dup={inputs.get('dup_names')} rows={rows}; reply bytes={len(t.writer.getvalue())}")
    return ReplayResult(len(t.writer.getvalue()) == 0, f"answered with {len(t.writer.getvalue())} bytes")


def search_read_request(ob, seed):
    """Native hunt over the request shapes the model distinguishes."""
    import itertools

    vals = {"traceparent": [None, b"\xff\xfe", b"00-abc"], "tracestate": [None, b"\xff"], "method": [b"ping", b"\xff"], "version": [b"1"]}
    for tp, ts, m, v, n_cols, dup, rows, bad in itertools.product(vals["traceparent"], vals["tracestate"], vals["method"], vals["version"], [0, 1, 2], [False, True], [0, 1, 2], [False, True]):
        if dup and n_cols < 2:
            continue
        inputs = {"n_cols": n_cols, "dup_names": dup, "num_rows": rows, "as_py_raises": bad}
        for tag, val in (("traceparent", tp), ("tracestate", ts), ("method", m), ("version", v)):
            inputs["rr_" + tag + "_present"] = val is not None
            if val is not None:
                inputs["rr_" + tag] = val
        rr = replay_read_request(inputs, ob)
        if rr.confirmed:
            return inputs, rr
    return None


@unit("C05.O3 _read_request lets only answerable or connection-ending exceptions out", targets=["vgi_rpc/rpc/_wire.py::_read_request", "vgi_rpc/shm.py::resolve_shm_batch", "vgi_rpc/shm.py::is_shm_pointer_batch"], replay=replay_read_request, search=search_read_request, min_obligations=40, max_paths=40000)
def read_request(S, extra=None):
    """extra(S, out, info): further obligations over the same run (C06 states its carrier obligation this way)."""
    import pyarrow.ipc as ipc
    from vgi_rpc.utils import ValidatedReader

    W = World(S)
    S.syntactic_pruning = True if hasattr(S, "syntactic_pruning") else None
    vals = {}
    tags = {key: tag for tag, key in RR_KEYS.items()}

    def md_get(S, m, key, default=None):
        # each key is absent or an arbitrary byte string; decided lazily, at the first read of that key
        if key not in tags:
            return None
        if key not in vals:
            present = S.choose(2) == 1
            S.inputs["rr_" + tags[key] + "_present"] = present
            vals[key] = S.bytes("rr_" + tags[key]) if present else None
        return vals[key]

    md_present = S.choose(2) == 1
    md = SObj(None, kind="KVMeta")
    S.handlers["KVMeta.get"] = md_get
    S.handlers["KVMeta.__getitem__"] = lambda S, m, key: md_get(S, m, key)
    S.handlers["KVMeta.__bool__"] = lambda S, m: True
    # the request batch: 0..2 columns with arbitrary (possibly equal) names, arbitrary row count
    n_cols = S.choose(3)
    S.inputs["n_cols"] = n_cols
    names = [S.str(f"col{i}") for i in range(n_cols)]
    dup = n_cols == 2 and S.choose(2) == 1
    S.inputs["dup_names"] = dup
    if n_cols == 2:
        S.assume(eq(names[0], names[1]) if dup else Not(eq(names[0], names[1])))
    fields = [SObj(None, kind="Field", name=nm) for nm in names]
    schema = SObj(None, kind="Schema", fields=fields, names=list(names))
    S.handlers["Schema.__len__"] = lambda S, sc: len(sc.fields["fields"])
    S.handlers["Schema.__iter__"] = lambda S, sc: list(sc.fields["fields"])
    num_rows = S.int("num_rows")
    S.assume(num_rows >= 0)
    batch = SObj(None, kind="Batch", schema=schema, num_rows=num_rows)
    # what a shared-memory pointer request resolves to: another batch object with its own schema object (same shape)
    schema_p = SObj(None, kind="Schema", fields=[SObj(None, kind="Field", name=nm) for nm in names], names=list(names))
    num_rows_p = S.int("num_rows_payload")
    S.assume(num_rows_p >= 0)
    payload = SObj(None, kind="Batch", schema=schema_p, num_rows=num_rows_p)
    as_py_raises = S.choose(2) == 1
    S.inputs["as_py_raises"] = as_py_raises

    def column(S, b, key):
        if isinstance(key, (SStr, str)):
            # pyarrow: a name that occurs more than once (or not at all) is a KeyError
            hits = [i for i, nm in enumerate(names) if nm is key or (n_cols == 2 and dup)]
            if n_cols == 2 and dup:
                raise PyRaise(SExc(KeyError, ("Field exists 2 times in schema",)))
            S.event("column_read", b)
            return SObj(None, kind="Column")
        S.event("column_read", b)
        return SObj(None, kind="Column")

    S.handlers["Batch.column"] = column
    S.handlers["Column.__getitem__"] = lambda S, c, i: SObj(None, kind="Scalar")

    def as_py(S, sc):
        if as_py_raises:
            raise PyRaise(SExc(pa.ArrowInvalid, ("value out of range for a Python object",))) if S.choose(2) == 0 else PyRaise(SExc(OverflowError, ("date value out of range",)))
        return S.opaque("param_value", "PyVal?")

    S.handlers["Scalar.as_py"] = as_py
    reader_mode = S.choose(3)

    def open_stream(S, src):
        return SObj(None, kind="RawIpcReader")

    S.handlers[ipc.open_stream] = open_stream
    S.handlers[ValidatedReader] = lambda S, raw, validation=None: SObj(None, kind="Reader")

    def read_next(S, r):
        if reader_mode == 1:
            S.event("not_ipc")
            raise_(pa.ArrowInvalid, "not an IPC stream")
        if reader_mode == 2:
            S.event("empty_stream")
            raise_(StopIteration)
        S.event("batch_read")
        return (batch, md if md_present else None)

    S.handlers["Reader.read_next_batch_with_custom_metadata"] = read_next
    S.handlers["_drain_stream"] = lambda S, r, *a: S.event("drained")
    S.handlers["fmt_batch"] = lambda S, *a: ""
    S.handlers["fmt_metadata"] = lambda S, *a: ""
    S.handlers["fmt_schema"] = lambda S, *a: ""
    S.handlers["fmt_kwargs"] = lambda S, *a: ""
    S.handlers["resolve_external_location"] = lambda S, b, cm, cfg, **k: (b, cm)
    S.inline.update({"resolve_shm_batch", "is_shm_pointer_batch"})
    # a static shm segment may be present: its read/deserialize are assumed externals that may fail on garbage extents
    use_shm = S.choose(2) == 1
    seg = SObj(None, kind="Segment", name="seg") if use_shm else None

    def read_buffer(S, sg, offset, length):
        S.event("read_buffer", offset, length)
        if S.choose(2) == 1:
            raise_(ValueError, "extent outside the segment")
        return SObj(None, kind="Buffer")

    S.handlers["Segment.read_buffer"] = read_buffer
    S.handlers["_deserialize_from_shm"] = lambda S, buf, schema_: (raise_(pa.ArrowInvalid, "garbage in region") if S.choose(2) == 1 else payload)
    S.handlers["Segment.free"] = lambda S, sg, off: S.event("freed", off)
    S.handlers["strip_keys"] = lambda S, cm, *keys: cm
    S.handlers["merge_metadata"] = lambda S, *mds: mds[0]
    S.handlers["Segment.close"] = lambda S, sg: None
    import logging

    S.handlers["Logger.isEnabledFor"] = lambda S, *a: False
    out = S.outcome(wire._read_request, SObj(None, kind="RawReader"), "full", None, shm=seg, attach_shm=None)
    names_ev = [e[0] for e in S.trace]
    if extra is not None:
        extra(S, out, {"batch": batch, "payload": payload, "store": S.ghost.get("__ctxvars__", {})})
        return
    if out.raised:
        from vgi_rpc.rpc._common import RpcError as _RpcError
        from vgi_rpc.rpc._common import VersionError as _VersionError

        store = S.ghost.get("__ctxvars__", {})
        from vgi_rpc.rpc._common import _current_request_batch as _crb

        recorded = store.get(_crb) is not None
        wit = f"{exc_class(out.exc).__name__} @ {getattr(out.exc, 'site', '')[:70]}"
        if "not_ipc" in names_ev:
            S.oblige("O3.non_ipc_bytes_raise_ArrowInvalid_with_nothing_recorded", exc_is(out.exc, pa.ArrowInvalid) and not recorded, kind="raises", witness=wit)
        else:
            # a well-framed request: whatever is raised, the stream has been drained and the batch recorded,
            # which is what lets serve_one answer it and keep the connection (C05.O1)
            from vgi_rpc.rpc._common import RpcError as _RpcError
            from vgi_rpc.rpc._common import VersionError as _VersionError

            consumed = "drained" in names_ev or "empty_stream" in names_ev  # request stream read to its end
            if exc_is(out.exc, _RpcError, _VersionError):
                S.oblige("O3.typed_rejection_only_after_the_stream_was_consumed", consumed, kind="raises", witness=wit)
            else:
                S.oblige("O3.rejection_only_after_drain_and_record", consumed and recorded, kind="raises", witness=wit)
            S.oblige("O3.well_framed_request_never_ends_the_connection", not exc_is(out.exc, EOFError, StopIteration, OSError), kind="raises", witness=wit)
        return
    S.oblige("O3.returns_method_and_kwargs", isinstance(out.value, tuple) and len(out.value) == 2, kind="post")
    S.oblige("O3.request_stream_drained", "drained" in names_ev, kind="trace")
    S.canary("O3.canary.never_returns", False)
