"""C06 (HTTP dispatch sites) Methods run only with contract-conforming arguments (DESIGN §5 C06: O3, O4, O5).

Extra units for C06, kept in their own file so that contracts/C06.py (the validators' own contracts O1/O2) stays
untouched; to be merged by the coordinator.  Under contract: the two HTTP dispatch sites `_run_unary_sync` and
`_run_stream_init_sync`, executed from the real source through the real responders
(`_RpcResource.on_post` / `_StreamInitResource.on_post`, so that the *HTTP status* the client sees is the observable),
and the read path `_read_request` (O5).  `_validate_call_signature` / `_validate_params` / `_deserialize_params` are
used BY CONTRACT (ghost event + may raise; their contracts are C06.O1/O2).  World and native harness:
contracts/lib_httpdispatch.py.

  O3 (trace)  the implementation-invoked event is preceded on the same path by a successful deserialisation, a
              successful signature validation and a successful nullability validation *for that method's info*
              (info.name, info.param_types, info.param_defaults, info.params_schema) and for the very kwargs the
              implementation then receives (plus, at most, the injected ctx);
  O4a         an exception raised by the validation block leads to HTTP 400 and no implementation event;
  O4b         an exception raised BY the implementation call (any class, including TypeError / ArrowInvalid /
              StopIteration) leads to 200 + X-VGI-RPC-Error, never to 400;
  O5          the request-parameter-schema context variable is set by the read path before validation:
              (dispatch sites) precondition of the signature validator, (read path) every normal return of the real
              `_read_request` has set `_current_request_param_schema` to the schema of the batch the kwargs were read
              from, and kwargs has exactly that schema's field names.
"""

from __future__ import annotations

import logging

import pyarrow as pa
import z3
from pyarrow import ipc

import vgi_rpc.rpc._wire as wire
from lib_httpdispatch import HttpDispatchWorld, drive_init, drive_unary, get_ctxvar, make_replay
from lib_server import UserError, raise_
from pyvc.api import *  # noqa: F403
from pyvc.api import ReplayResult, unit
from vgi_rpc.metadata import REQUEST_VERSION, REQUEST_VERSION_KEY, RPC_METHOD_KEY
from vgi_rpc.rpc import _common
from vgi_rpc.rpc._common import RpcError, VersionError

MANIFEST = {
    "level_text": "Deductive proof over every path of the real HTTP dispatch sites _run_unary_sync and _run_stream_init_sync (run through their real responders, so the observable is the HTTP status and the X-VGI-RPC-Error header), for every outcome of the read path, of the protocol-version gate and of the three validators (used by contract: C06.O1/O2) and for arbitrary user code: the service method is invoked only after _deserialize_params, _validate_call_signature and _validate_params returned normally for that method's own name / param_types / param_defaults / params_schema and for exactly the keyword arguments it then receives (plus the injected ctx); an exception from the validation block is answered 400 with no invocation; an exception raised by the method itself - whatever its class, TypeError, ArrowInvalid and StopIteration included - is answered 200 with the error marker and never 400. The read path is covered on the real _read_request: on every normal return the request-parameter-schema context variable holds the schema of the batch the kwargs were read from (after external-location resolution) and kwargs has exactly its field names, so the 'request schema absent' hole of C06.O1 is closed at both HTTP sites (precondition discharged where the signature validator is called).",
    "level_note": "By contract: the three validators (C06.O1/O2 in contracts/C06.py), pyarrow's IPC reader (returns a batch / ArrowInvalid / StopIteration at any read), resolve_external_location (returns an inner batch or raises), telemetry, token sealing and the producer turn. Server-implementation faults (non-Stream result, missing header, unserialisable state) are outside the statement. The socket dispatch site serve_one is C05.O3. Engine + z3/cvc5 trusted.",
    "technique": "contract-based deductive verification: ghost-trace ordering and argument-identity obligations at the two HTTP dispatch sites, status/header postconditions per path, precondition discharge for the by-contract validator, postcondition on the real read path with an abstract IPC reader; VCs by pyvc, z3 then cvc5",
    "design_ref": "DESIGN.md §5 C06 (O3, O4, O5)",
}
EXPLANATION = MANIFEST["level_text"]
TRUSTED = [
    "pyvc VC generator (exception forks, try/except/finally, ContextVar model, generator-based context managers)",
    "z3 5.1.0 / cvc5 1.4.0",
    "falcon / pyarrow contracts listed in contracts/C15.py (TRUSTED)",
]
ASSUMPTIONS = [
    "_validate_call_signature / _validate_params return or raise TypeError (C06.O1/O2); _deserialize_params returns or raises KeyError / ValueError / TypeError / ArrowInvalid",
    "the service implementation is arbitrary user code: returns or raises any Exception",
    "a stream method returns a well-formed Stream (server-side faults are outside the statement)",
    "O5 read path: Arrow batch / schema / column access are pure; `as_py()` returns a value or raises ArrowInvalid; shared-memory resolution is not used over HTTP (shm=None, attach_shm=None at both call sites - checked: the call sites pass neither)",
    "termination of _drain_stream is not verified",
]

VALIDATION_DEFECTS = {"malformed_ipc", "bad_metadata", "version_rejected", "bad_params"}


def dispatch_site_obligations(S, W: HttpDispatchWorld, site: str) -> None:
    out, resp, info = W.out, W.resp, W.info
    S.cur_site = site
    names = [e[0] for e in S.trace]
    invoked = S.events("impl_invoked")
    status = resp.fields["status"] if out.returned else None
    marker = W.marker(resp) if out.returned else None
    S.oblige("O3.implementation_invoked_at_most_once", len(invoked) <= 1, kind="trace")
    if invoked:
        i_impl = names.index("impl_invoked")
        got_info, got_kwargs = invoked[0][1], invoked[0][2]
        ok_events = {}
        for nm in ("deserialized", "signature_validated", "params_validated"):
            evs = [(i, e) for i, e in enumerate(S.trace) if e[0] == nm]
            ok_events[nm] = evs
            S.oblige(f"O3.{nm}_successfully_before_the_implementation_runs", len(evs) >= 1 and all(i < i_impl for i, _ in evs) and all(e[-1] in (True, "ok") for _, e in evs), kind="trace", witness=nm)
        sig = [e for _, e in ok_events["signature_validated"]]
        par = [e for _, e in ok_events["params_validated"]]
        des = [e for _, e in ok_events["deserialized"]]
        if sig and par and des:
            s, p, d = sig[-1], par[-1], des[-1]
            # ("signature_validated", name, kwargs, param_types, param_defaults, params_schema, ok)
            S.oblige(
                "O3.signature_validated_against_this_methods_info",
                s[1] == info.fields["name"] and s[3] is info.fields["param_types"] and s[4] is info.fields["param_defaults"] and s[5] is info.fields["params_schema"],
                kind="trace",
                witness="signature-info",
            )
            S.oblige("O3.params_validated_against_this_methods_info", p[1] == info.fields["name"] and p[3] is info.fields["param_types"], kind="trace", witness="params-info")
            S.oblige("O3.deserialized_with_this_methods_param_types", d[1] is info.fields["param_types"], kind="trace", witness="deserialize-info")
            same_kwargs = s[2] is W.kwargs and p[2] is W.kwargs
            S.oblige("O3.validated_kwargs_are_the_request_kwargs", same_kwargs, kind="trace", witness="kwargs-identity")
            passed = {k: v for k, v in got_kwargs.items() if k != "ctx"}
            S.oblige("O3.implementation_receives_exactly_the_validated_kwargs", passed.keys() == {k for k in W.kwargs if k != "ctx"} and all(passed[k] is W.kwargs[k] for k in passed), kind="trace", witness="kwargs-passed")
        S.oblige("O3.invoked_implementation_is_this_methods", got_info is info, kind="trace")
        S.oblige("O3.invoked_only_without_a_validation_failure", not (set(W.defects) & VALIDATION_DEFECTS), kind="trace", witness=",".join(W.defects))
        S.oblige("O3.invoked_only_when_url_and_metadata_name_the_same_method", Not(W.name_mismatch), kind="trace", witness="method-name")
        # O4b: whatever the method raises is the call's failure, never a request error
        raised = S.events("impl_raised")
        if raised:
            S.oblige("O4.method_exception_is_never_reported_as_400", out.returned and status != "400", kind="post", witness=f"{raised[0][1]} -> {status}")
            S.oblige("O4.method_exception_is_200_with_the_error_marker", out.returned and status == "200" and marker is True, kind="post", witness=f"{raised[0][1]} -> {status} marker={marker}")
    else:
        failed_validation = set(W.defects) & VALIDATION_DEFECTS
        if failed_validation:
            # O4a: the validation block raised: 400, and the method did not run (no impl event on this path)
            S.oblige("O4.validation_failure_is_answered_400", out.returned and status == "400" and marker is False, kind="post", witness=f"{sorted(failed_validation)} -> {status} marker={marker}")
        elif out.returned and status == "400" and not W.defects:
            S.oblige("O4.400_without_a_decided_defect_only_for_a_method_name_mismatch", W.name_mismatch, kind="post", witness="400 name-mismatch")
    if W.read_outcome == "returns" and not invoked and out.returned and status == "200" and not marker and not S.events("describe_answered"):
        S.oblige("O3.a_successful_answer_comes_from_the_implementation", False, kind="trace", witness="200 without invocation")


@unit(
    "C06_http.O3/O4/O5 _run_unary_sync: invoked only after validation; validation errors 400; method errors 200+marker",
    targets=["vgi_rpc/http/server/_app_unary.py::_run_unary_sync", "vgi_rpc/http/server/_resources.py::_RpcResource.on_post"],
    replay=make_replay("unary"),
    min_obligations=300,
    max_paths=3000,
)
def unary_site(S):
    W = drive_unary(S, judge=False)
    dispatch_site_obligations(S, W, "_run_unary_sync")
    if W.knobs.get("impl_outcome") == "returns" or W.defects == ["bad_params"]:
        S.canary("canary.unary.implementation_always_invoked", SBool(z3.BoolVal(bool(S.events("impl_invoked")))))


@unit(
    "C06_http.O3/O4/O5 _run_stream_init_sync: invoked only after validation; validation errors 400; method errors 200+marker",
    targets=["vgi_rpc/http/server/_app_stream.py::_run_stream_init_sync", "vgi_rpc/http/server/_resources.py::_StreamInitResource.on_post"],
    replay=make_replay("init"),
    min_obligations=300,
    max_paths=3000,
)
def init_site(S):
    W = drive_init(S, judge=False)
    dispatch_site_obligations(S, W, "_run_stream_init_sync")
    if W.knobs.get("impl_outcome") == "raises_TypeError":
        S.canary("canary.init.method_typeerror_is_a_400", SBool(z3.BoolVal(W.resp.fields["status"] == "400")))


# ------------------------------------------------------------------------------------------------------------
# O5  the read path records the schema the kwargs came off
# ------------------------------------------------------------------------------------------------------------

READ_CONTRACT = (pa.ArrowInvalid, StopIteration, RpcError, VersionError)


class _Fld:
    def __init__(self, name):
        self.name = name


def replay_read_request(inputs, ob):
    import io

    n = int(inputs.get("n_fields", 1))
    schema = pa.schema([pa.field(f"p{i}", pa.int64()) for i in range(n)])
    batch = pa.RecordBatch.from_pydict({f"p{i}": [i] for i in range(n)}, schema=schema)
    buf = io.BytesIO()
    with ipc.new_stream(buf, schema) as w:
        w.write_batch(batch, custom_metadata=pa.KeyValueMetadata({RPC_METHOD_KEY: b"m", REQUEST_VERSION_KEY: REQUEST_VERSION}))
    tok = _common._current_request_param_schema.set(None)
    try:
        name, kwargs = wire._read_request(io.BytesIO(buf.getvalue()))
        got = _common._current_request_param_schema.get()
    except Exception as e:
        return ReplayResult(True, f"_read_request raised {type(e).__name__}: {e} on a well-formed request")
    finally:
        _common._current_request_param_schema.reset(tok)
    bad = got is None or got != schema or list(kwargs) != schema.names
    return ReplayResult(bad, f"well-formed request with {n} parameter column(s): recorded schema={None if got is None else got.names} kwargs={list(kwargs)}")


@unit(
    "C06_http.O5 _read_request records the request parameter schema before returning",
    targets=["vgi_rpc/rpc/_wire.py::_read_request", "vgi_rpc/rpc/_wire.py::_drain_stream"],
    replay=replay_read_request,
    min_obligations=12,
)
def read_path(S):
    from vgi_rpc.utils import ValidatedReader

    H = S.handlers
    knobs = {}

    def knob(name, options):
        v = options[S.choose(len(options))]
        knobs[name] = v
        S.inputs[name] = v if isinstance(v, (str, int, bool, type(None))) else repr(v)
        return v

    def fields(n, tag):
        return [SObj(None, kind="Field", name=f"{tag}{i}") for i in range(n)]

    def mk_batch(tag):
        n = knob(f"n_fields_{tag}" if tag != "outer" else "n_fields", [0, 2])
        b = SObj(None, kind="RBatch", schema=fields(n, tag), num_rows=S.int(f"num_rows_{tag}"), tag=tag)
        return b

    def open_stream(S, src):
        if knob("open", ["ok", "ArrowInvalid"]) == "ArrowInvalid":
            raise_(pa.ArrowInvalid, "not an IPC stream")
        return SObj(None, kind="RawReader")

    H[ipc.open_stream] = open_stream
    H[ValidatedReader] = lambda S, raw, validation=None: SObj(None, kind="VReader")
    md = SObj(None, kind="RMeta")
    H["RMeta.__bool__"] = lambda S, m: True
    md_vals = {}

    def md_get(S, m, key, default=None):
        if key not in md_vals:
            if key == RPC_METHOD_KEY:
                md_vals[key] = SObj(None, kind="MethodBytes") if knob("method_key_present", [True, False]) else None
            elif key == REQUEST_VERSION_KEY:
                md_vals[key] = knob("request_version", ["current", "absent", "other"])
                md_vals[key] = {"current": REQUEST_VERSION, "absent": None, "other": b"\xff-not-the-version"}[md_vals[key]]
            else:
                md_vals[key] = None  # trace headers etc.: absent
        return md_vals[key]

    H["RMeta.get"] = md_get

    def decode(S, b, *a):
        if knob("method_name_is_utf8", [True, False]):
            return S.str("method_name")
        raise PyRaise(UnicodeDecodeError("utf-8", b"\xff", 0, 1, "invalid start byte"))

    H["MethodBytes.decode"] = decode
    outer = {}

    def read_first(S, r):
        k = knob("first_read", ["batch", "ArrowInvalid", "StopIteration"])
        if k == "ArrowInvalid":
            raise_(pa.ArrowInvalid, "corrupt batch")
        if k == "StopIteration":
            raise_(StopIteration)
        outer["b"] = mk_batch("outer")
        return (outer["b"], md if knob("metadata_present", [True, False]) else None)

    def read_more(S, r):
        k = knob("drain_read", ["StopIteration", "batch", "ArrowInvalid"])
        if k == "ArrowInvalid":
            raise_(pa.ArrowInvalid, "corrupt trailing bytes")
        if k == "StopIteration":
            raise_(StopIteration)
        return SObj(None, kind="RBatch", tag="trailing")

    H["VReader.read_next_batch_with_custom_metadata"] = read_first
    H["VReader.read_next_batch"] = read_more
    S.invariants[("_drain_stream", 0)] = lambda L: []  # the loop only consumes input: nothing to maintain
    S.inline.add("_drain_stream")
    H["_record_input"] = lambda S, *a, **k: None
    H["fmt_schema"] = lambda S, schema: "<schema>"  # diagnostics only
    H[(wire.wire_request_logger, "isEnabledFor")] = lambda S, level: False
    inner = {}

    def resolve_external(S, batch, cm, config, *a, **k):
        """Contract of resolve_external_location: the batch itself (not a pointer), the fetched inner batch, or an exception."""
        k_ = knob("external", ["not_a_pointer", "fetched", "fetch_fails"])
        if k_ == "fetch_fails":
            raise_(UserError, "external location could not be fetched")
        if k_ == "fetched":
            inner["b"] = mk_batch("inner")
            return (inner["b"], cm)
        return (batch, cm)

    H["resolve_external_location"] = resolve_external
    values = []

    def column(S, b, i):
        return SObj(None, kind="Column", of=b, index=i)

    def col_item(S, c, j):
        return SObj(None, kind="Scalar", col=c)

    def as_py(S, sc):
        if knob("as_py", ["value", "ArrowInvalid"]) == "ArrowInvalid":
            raise_(pa.ArrowInvalid, "invalid UTF-8 in a string column")
        values.append(sc.fields["col"])
        return S.opaque("param_value", "PyVal?")

    H["RBatch.column"] = column
    H["Column.__getitem__"] = col_item
    H["Scalar.as_py"] = as_py
    cfg = SObj(None, kind="ExtCfg") if knob("external_config", [False, True]) else None
    tok0 = get_ctxvar(S, _common._current_request_param_schema)
    out = S.outcome(wire._read_request, SObj(None, kind="RequestStream"), "full", cfg)
    recorded = get_ctxvar(S, _common._current_request_param_schema)
    if out.raised:
        if knobs.get("external") == "fetch_fails":
            S.oblige("O5.external_fetch_failure_is_passed_on", exc_is(out.exc, UserError), kind="raises")
        else:
            S.oblige("O5.read_path_raises_only_the_classes_of_its_contract", exc_is(out.exc, *READ_CONTRACT), kind="raises", witness=exc_class(out.exc).__name__)
        return
    name, kwargs = out.value
    src = inner.get("b") or outer["b"]
    S.oblige("O5.param_schema_context_variable_is_set_on_every_normal_return", recorded is not None and recorded is not tok0, kind="post")
    S.oblige("O5.recorded_schema_is_the_schema_the_kwargs_were_read_from", recorded is src.fields["schema"], kind="post", witness="schema-identity")
    S.oblige("O5.kwargs_have_exactly_the_recorded_schemas_field_names", isinstance(kwargs, dict) and list(kwargs) == [f.fields["name"] for f in src.fields["schema"]], kind="post")
    S.oblige("O5.values_are_read_from_the_recorded_batch", all(c.fields["of"] is src for c in values) and len(values) == len(src.fields["schema"]), kind="post")
    if len(src.fields["schema"]) > 0:
        S.oblige("O5.non_empty_request_has_exactly_one_row", src.fields["num_rows"] == 1, kind="post")
    S.oblige("O5.accepted_only_with_method_and_current_request_version", knobs.get("metadata_present") is True and knobs.get("method_key_present") is True and knobs.get("request_version") == "current", kind="post")
    S.canary("canary.read_path.never_returns_parameters", SBool(z3.BoolVal(len(kwargs) == 0)))
