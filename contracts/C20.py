"""C20 Authentication precedes every dispatch (DESIGN §5 C20)."""

from __future__ import annotations

import ast
import types
import warnings
from typing import Any, Protocol

import falcon
import z3

import vgi_rpc.http.server._factory as fac
import vgi_rpc.http.server._middleware as mw
from pyvc import slicing
from pyvc.api import *  # noqa: F403
from pyvc.api import PyRaise, ReplayResult, unit
from vgi_rpc.http._oauth import OAuthResourceMetadata
from vgi_rpc.http._unauthorized import AuthFailure, AuthReason, AuthUnavailableError
from vgi_rpc.rpc import AuthContext, RpcServer
from vgi_rpc.rpc._common import _ANONYMOUS

MANIFEST = {
    "level_text": "Deductive proof on the real _AuthMiddleware.process_request for every request (symbolic HTTP verb and path) and every behaviour of the authenticate callback (returns / ValueError / AuthFailure / PermissionError / AuthUnavailableError / other exception) and of the failure hook: the callback is skipped only for OPTIONS, paths under /.well-known/, the exact health endpoint (when enabled) and paths under {prefix}/_oauth/ (when PKCE is active); a rejection always leaves process_request by raising (401), so falcon dispatches nothing; the anonymous context is installed only on those bypass paths and otherwise exactly the callback's return value. The exempt list is the real one: read from the live middleware of real make_wsgi_app(...) calls for 14 configurations (prefix '', '/vgi', '/a/b' x health on/off x no OAuth / PKCE, plus OAuth metadata without client_id), and for a SYMBOLIC prefix by interpreting the backward slice of make_wsgi_app that builds the _AuthMiddleware(...) call and the add_route(...) calls. A string lemma over the real route table (falcon's compiled router / the sliced add_route calls) shows that no route template other than the health, OAuth-flow and well-known-metadata resources can match a bypassed path for any service method name, the literal health route being the only overlap.",
    "level_note": "Assumes (falcon): an exception raised in process_request stops dispatch; a URI template matches exactly the paths obtained by substituting one non-empty '/'-free segment per {field}; a literal route wins over a {field} route; routing and the middleware see the same req.path. Service method names are Python identifiers not starting with '_' (rpc_methods skips those) plus '__describe__'; a {method} segment that is not a registered method runs no service code. The prefix is '' or '/seg(/seg)*' without braces and not under /.well-known. With PKCE the configured callback is wrapped by chain_authenticate(callback, cookie variant of the same callback): the wrapper is treated as the callback. Middleware order (auth before sticky/PKCE middleware and responders) is falcon's list order, read but not proved. Engine + z3/cvc5 trusted.",
    "technique": "contract-based deductive verification: path-wise trace obligations (ghost authenticate/install events) on the real middleware, executed backward slice of make_wsgi_app, string lemma over route templates; VCs by pyvc, z3 then cvc5",
    "design_ref": "DESIGN.md §5 C20",
}
EXPLANATION = MANIFEST["level_text"]
TRUSTED = [
    "pyvc VC generator, slicer (pyvc/slicing.py) and string encoding",
    "z3 5.1.0 / cvc5 1.4.0",
    "falcon: an exception in process_request prevents dispatch; URI-template matching = one non-empty slash-free segment per field; literal segments take precedence over fields; middleware runs in list order",
]
ASSUMPTIONS = [
    "the authenticate callback and the on_auth_failure hook are arbitrary user code: any return value, any exception",
    "_build_transport_metadata(req) only reads the request (by contract: returns an opaque metadata value)",
    "service method names: Python identifiers not starting with '_' (vgi_rpc.rpc._types.rpc_methods) or '__describe__'; dispatch of an unregistered name runs no service code",
    "URL prefix: '' or a sequence of '/segment' without '/', '{', '}' in segments, not under /.well-known (an operator mounting the service under /.well-known/ exempts it by the property's own wording)",
    "PKCE: the chain_authenticate(callback, cookie-callback) wrapper installed by make_wsgi_app is treated as 'the callback'",
    "slice of make_wsgi_app: executions that complete normally (configuration errors raise before an app exists)",
]


# ======================================================================================
# the spec, transcribed from the property statement
# ======================================================================================


def starts(s: Any, p: Any) -> Any:
    if isinstance(s, str) and isinstance(p, str):
        return s.startswith(p)
    return SBool(z3.PrefixOf(strterm(p), strterm(s)))


def bypass_clauses(http_method: Any, path: Any, prefix: Any, health: bool, pkce: bool) -> dict[str, Any]:
    """Only OPTIONS requests, paths under /.well-known/, the exact health endpoint and the OAuth
    browser-flow endpoints ({prefix}/_oauth/*, PKCE active) bypass authentication."""
    clauses = {"OPTIONS": eq(http_method, "OPTIONS"), "well_known": starts(path, "/.well-known/")}
    if health:
        clauses["health"] = eq(path, prefix + "/health")
    if pkce:
        clauses["oauth_flow"] = starts(path, prefix + "/_oauth/")
    return clauses


def spec_bypass(http_method: Any, path: Any, prefix: Any, health: bool, pkce: bool) -> Any:
    return Or(*bypass_clauses(http_method, path, prefix, health, pkce).values())


def py_spec_bypass(http_method: str, path: str, prefix: str, health: bool, pkce: bool) -> bool:
    return (
        http_method == "OPTIONS"
        or path.startswith("/.well-known/")
        or (health and path == prefix + "/health")
        or (pkce and path.startswith(prefix + "/_oauth/"))
    )


# ======================================================================================
# real apps (native): the exempt list and the route table are never re-typed
# ======================================================================================


class _P(Protocol):
    def u(self) -> int: ...


class _Impl:
    def u(self) -> int:
        return 1


class _Provider:
    def generate_upload_url(self, *a: Any, **k: Any) -> Any:  # pragma: no cover - never called
        raise NotImplementedError


PREFIXES = ["", "/vgi", "/a/b"]
OAUTH = ["none", "no_client_id", "pkce"]
# prefix x health x {no OAuth, PKCE}, plus OAuth metadata without client_id (PKCE inactive) on two of them
CONFIGS = [(p, h, o) for p in PREFIXES for h in (True, False) for o in ("none", "pkce")] + [("/vgi", True, "no_client_id"), ("", False, "no_client_id")]
_APP_CACHE: dict[Any, Any] = {}


def _metadata(prefix: str, oauth: str) -> Any:
    if oauth == "none":
        return None
    return OAuthResourceMetadata(
        resource="https://svc.example" + prefix,
        authorization_servers=("https://idp.example",),
        client_id="cid" if oauth == "pkce" else None,
    )


def real_app(prefix: str, health: bool, oauth: str, authenticate: Any = None) -> Any:
    """A real falcon app from the real make_wsgi_app, every optional RPC route switched on."""
    key = (prefix, health, oauth)
    if authenticate is None and key in _APP_CACHE:
        return _APP_CACHE[key]

    def deny(req: Any) -> Any:
        raise ValueError("denied")

    with warnings.catch_warnings():
        warnings.simplefilter("ignore")
        app = fac.make_wsgi_app(
            RpcServer(_P, _Impl()),
            prefix=prefix,
            authenticate=authenticate or deny,
            token_key=b"k" * 32,
            enable_health_endpoint=health,
            oauth_resource_metadata=_metadata(prefix, oauth),
            enable_sticky=True,
            upload_url_provider=_Provider(),
            introspect_resolver=lambda token: None,
            introspect_principals=["proxy"],
        )
    if authenticate is None:
        _APP_CACHE[key] = app
    return app


def live_auth_middleware(app: Any) -> Any:
    found = [m for m in app._unprepared_middleware if isinstance(m, mw._AuthMiddleware)]
    if len(found) != 1:
        raise Unsupported(f"expected exactly one _AuthMiddleware in the app, found {len(found)}")
    return found[0]


def live_routes(app: Any) -> list[tuple[str, type]]:
    out: list[tuple[str, type]] = []

    def walk(nodes: Any) -> None:
        for n in nodes:
            if n.resource is not None:
                out.append((n.uri_template, type(n.resource)))
            walk(n.children)

    walk(app._router._roots)
    return out


# resources that the property allows to be reachable without authentication
def open_resources() -> set[type]:
    import vgi_rpc.http._oauth as oa
    import vgi_rpc.http._oauth_pkce as pk
    import vgi_rpc.http.server._resources as rs

    return {rs._HealthResource, oa._OAuthResourceMetadataResource, pk._OAuthCallbackResource, pk._OAuthLogoutResource, pk._OAuthTokenProxyResource}


# ======================================================================================
# the request / callback model and the obligations on process_request
# ======================================================================================

AUTH_MODES = ["returns", "ValueError", "AuthFailure", "PermissionError", "AuthUnavailableError", "RuntimeError"]
HOOK_MODES = ["absent", "returns", "raises"]
REJECTIONS = ("ValueError", "AuthFailure", "PermissionError")


def drive(S: Any, me: Any, prefix: Any, health: bool, pkce: bool, canaries: bool = True) -> None:
    """Run the real process_request on a symbolic request; state C20.O1 / C20.O2."""
    http_method = S.str("http_method")
    path = S.str("path")
    st = {"mode": None, "hook": "absent"}
    S.inputs.update({"auth_mode": "ValueError", "hook_mode": "absent", "health": health, "pkce": pkce})
    ctx = SObj(None, kind="ReqContext")
    req = SObj(None, kind="Req", method=http_method, path=path, context=ctx, remote_addr="203.0.113.7")
    resp = SObj(None, kind="Resp")
    identity = SObj(AuthContext, domain="test", authenticated=True, principal="alice", claims={})

    def authenticate(S: Any, fn: Any, r: Any) -> Any:
        # the callback's behaviour is chosen when (and only if) it is called
        mode = st["mode"] = AUTH_MODES[S.choose(len(AUTH_MODES))]
        S.inputs["auth_mode"] = mode
        if mode in REJECTIONS and S.choose(2) == 1:
            # configuration choice made late (the field is not read before this point): a failure hook is installed
            st["hook"] = S.inputs["hook_mode"] = "returns"
            me.fields["_on_auth_failure"] = SObj(None, kind="FailureHook")
        S.event("authenticate", r)
        if mode == "returns":
            return identity
        if mode == "ValueError":
            raise PyRaise(SExc(ValueError, ("bad credential",)))
        if mode == "AuthFailure":
            raise PyRaise(SExc(AuthFailure, ("expired",), {"reason": AuthReason.EXPIRED_CREDENTIAL, "vgi_auth_reason": AuthReason.EXPIRED_CREDENTIAL}))
        if mode == "PermissionError":
            raise PyRaise(SExc(PermissionError, ("forbidden",)))
        if mode == "AuthUnavailableError":
            raise PyRaise(SExc(AuthUnavailableError, ("idp down",), {"detail": "idp down", "retry_after": 5}))
        raise PyRaise(SExc(RuntimeError, ("bug in callback",)))

    def hook(S: Any, fn: Any, addr: Any, name: Any) -> None:
        S.event("failure_hook", name)
        if S.choose(2) == 1:
            st["hook"] = S.inputs["hook_mode"] = "raises"
            raise PyRaise(SExc(RuntimeError, ("hook failed",)))

    def get_header(S: Any, r: Any, name: Any, default: Any = None, **kw: Any) -> Any:
        return default if S.choose(2) == 0 else S.str("header_value")

    S.handlers["Req.get_header"] = get_header
    S.handlers["Resp.set_header"] = lambda S, r, name, value: S.event("set_header", name, value)
    S.handlers["Resp.append_header"] = lambda S, r, name, value: S.event("set_header", name, value)
    S.handlers["Authenticate.__call__"] = authenticate
    S.handlers["FailureHook.__call__"] = hook
    S.handlers["_build_transport_metadata"] = lambda S, r: SObj(None, kind="TransportMetadata")
    S.handlers[mw._TransportContext] = lambda S, **kw: SObj(None, kind="TransportContext", **kw)

    def install(S: Any, tc: Any) -> Any:
        S.event("install", tc.fields["auth"])
        return SObj(None, kind="Token")

    S.handlers[mw._current_transport.set] = install
    S.handlers[falcon.HTTPUnauthorized] = lambda S, **kw: SExc(falcon.HTTPUnauthorized, (), dict(kw))
    S.handlers[falcon.HTTPServiceUnavailable] = lambda S, **kw: SExc(falcon.HTTPServiceUnavailable, (), dict(kw))
    S.inline.add("classify_auth_failure")
    me.fields["_authenticate"] = SObj(None, kind="Authenticate")
    me.fields["_on_auth_failure"] = None

    out = S.outcome(mw._AuthMiddleware.process_request, me, req, resp)
    mode, hook_mode = st["mode"], st["hook"]

    bypass = spec_bypass(http_method, path, prefix, health, pkce)
    called = len(S.events("authenticate"))
    installs = [e[1] for e in S.events("install")]
    S.oblige("O1.callback_called_at_most_once", called <= 1, kind="trace")
    if called == 0:
        # C20.O1: the callback is skipped only on the bypass paths of the property statement
        S.oblige("O1.callback_skipped_only_on_bypass_paths", bypass, kind="trace")
        if canaries:
            S.canary("O1.canary.only_OPTIONS_bypasses", eq(http_method, "OPTIONS"))
    else:
        S.oblige("O1.callback_sees_the_request", S.events("authenticate")[0][1] is req, kind="trace")
        if mode in REJECTIONS:
            # a rejected request never leaves process_request normally: falcon dispatches nothing
            S.oblige("O1.rejected_request_is_not_dispatched", out.raised, kind="raises")
            if hook_mode != "raises":
                S.oblige("O1.rejection_is_a_401", out.raised and exc_is(out.exc, falcon.HTTPUnauthorized), kind="raises")
            S.oblige("O2.no_identity_installed_for_a_rejected_request", len(installs) == 0, kind="trace")
        elif mode == "returns":
            S.oblige("O2.accepted_request_gets_the_callback_identity", out.returned and len(installs) == 1 and installs[0] is identity, kind="trace")
        else:
            # outage / crash of the callback: not a rejection, but nothing may be dispatched either
            S.oblige("O1.failed_callback_is_not_dispatched", out.raised and len(installs) == 0, kind="raises")
    # C20.O2: the anonymous context is installed only on bypass paths
    for a in installs:
        if a is _ANONYMOUS:
            S.oblige("O2.anonymous_context_only_on_bypass_paths", bypass, kind="trace")
        else:
            S.oblige("O2.installed_identity_comes_from_the_callback", a is identity and called == 1 and mode == "returns", kind="trace")
    if out.returned:
        S.oblige("O2.a_dispatched_request_has_exactly_one_context", len(installs) == 1, kind="trace")
    if canaries and any(a is _ANONYMOUS for a in installs):
        S.canary("O2.canary.never_anonymous", SBool(z3.BoolVal(False)))


class _FakeReq:
    """Native request stub with exactly the attributes process_request reads (exact strings kept)."""

    def __init__(self, method: str, path: str) -> None:
        self.method, self.path = method, path
        self.context = types.SimpleNamespace()
        self.remote_addr = "203.0.113.7"
        self.user_agent = "replay"
        self.cookies: dict[str, str] = {}

    def get_header(self, name: str, default: Any = None) -> Any:
        return default


def native_request(app: Any, http_method: str, path: str, mode: str, hook_mode: str, prefix: str, health: bool, pkce: bool) -> tuple[bool, str]:
    """Run the live middleware of ``app`` on one request; judge C20.O1/O2 natively."""
    live = live_auth_middleware(app)
    calls: list[Any] = []
    identity = AuthContext(domain="test", authenticated=True, principal="alice", claims={})

    def authenticate(req: Any) -> Any:
        calls.append(req)
        if mode == "returns":
            return identity
        if mode == "ValueError":
            raise ValueError("bad credential")
        if mode == "AuthFailure":
            raise AuthFailure(AuthReason.EXPIRED_CREDENTIAL, "expired")
        if mode == "PermissionError":
            raise PermissionError("forbidden")
        if mode == "AuthUnavailableError":
            raise AuthUnavailableError("idp down")
        raise RuntimeError("bug in callback")

    def hook(addr: Any, name: str) -> None:
        if hook_mode == "raises":
            raise RuntimeError("hook failed")

    m = mw._AuthMiddleware(authenticate, www_authenticate=live._www_authenticate, on_auth_failure=None if hook_mode == "absent" else hook, exempt_prefixes=live._exempt_prefixes)
    req = _FakeReq(http_method, path)
    raised: Any = None
    token = mw._current_transport.set(None)  # type: ignore[arg-type]
    try:
        try:
            m.process_request(req, None)  # type: ignore[arg-type]
        except Exception as e:
            raised = e
        tc = mw._current_transport.get()
    finally:
        mw._current_transport.reset(token)
    bypass = py_spec_bypass(http_method, path, prefix, health, pkce)
    problems = []
    if not calls and not bypass:
        problems.append("authenticate was NOT called although the request is not on a bypass path")
    if calls and mode in REJECTIONS and raised is None:
        problems.append("callback rejected but process_request returned normally (request would be dispatched)")
    if calls and mode in REJECTIONS and hook_mode != "raises" and not isinstance(raised, falcon.HTTPUnauthorized):
        problems.append(f"rejection surfaced as {type(raised).__name__}, not HTTPUnauthorized")
    if calls and mode in ("AuthUnavailableError", "RuntimeError") and raised is None:
        problems.append("failed callback but process_request returned normally")
    if tc is not None and tc.auth is _ANONYMOUS and not bypass:
        problems.append("anonymous context installed on a non-bypass path")
    if tc is not None and tc.auth is not _ANONYMOUS and not (tc.auth is identity and mode == "returns"):
        problems.append("an identity was installed that the callback did not return")
    if raised is None and tc is None:
        problems.append("returned without installing a context")
    if calls and mode == "returns" and (raised is not None or tc is None or tc.auth is not identity):
        problems.append("accepted request did not get the callback's identity")
    detail = f"{http_method!r} {path!r} exempt_prefixes={live._exempt_prefixes!r} callback={mode} hook={hook_mode}: authenticate calls={len(calls)} raised={type(raised).__name__ if raised else None} installed={'anonymous' if tc is not None and tc.auth is _ANONYMOUS else ('identity' if tc is not None else None)} spec_bypass={bypass}"
    return bool(problems), detail + ("; " + "; ".join(problems) if problems else "")


def _s(v: Any) -> str:
    return v if isinstance(v, str) else str(v)


def replay_live(inputs: dict[str, Any], ob: Any) -> ReplayResult:
    prefix, health, oauth = CONFIGS[int(inputs["config"])]
    app = real_app(prefix, health, oauth)
    bad, detail = native_request(app, _s(inputs.get("http_method", "GET")), _s(inputs.get("path", "/")), inputs.get("auth_mode", "ValueError"), inputs.get("hook_mode", "absent"), prefix, health, oauth == "pkce")
    return ReplayResult(bad, f"make_wsgi_app(prefix={prefix!r}, enable_health_endpoint={health}, oauth={oauth}): " + detail)


def search_live(ob: Any, seed: int) -> Any:
    """Native hunt on real apps (real make_wsgi_app, falcon test client, an authenticator that rejects everything):
    short request *sequences* on the same app, because an exemption decision may depend on earlier requests.
    Every request that is not on a bypass path must be answered 401 and must run no service code."""
    import falcon.testing

    ran: list[str] = []

    class _CountingImpl:
        def u(self) -> int:
            ran.append("u")
            return 1

        def health(self) -> int:
            ran.append("health")
            return 1

        def healthz(self) -> int:
            ran.append("healthz")
            return 1

    class _P2(Protocol):
        def u(self) -> int: ...
        def health(self) -> int: ...
        def healthz(self) -> int: ...

    def deny(req: Any) -> Any:
        raise ValueError("denied")

    for prefix, health, oauth in CONFIGS:
        with warnings.catch_warnings():
            warnings.simplefilter("ignore")
            app = fac.make_wsgi_app(RpcServer(_P2, _CountingImpl()), prefix=prefix, authenticate=deny, token_key=b"k" * 32, enable_health_endpoint=health, oauth_resource_metadata=_metadata(prefix, oauth))
        client = falcon.testing.TestClient(app)
        paths = [f"{prefix}/u", f"{prefix}/u/init", f"{prefix}/u/exchange", f"{prefix}/__describe__", f"{prefix}/health", f"{prefix}/healthz", f"{prefix}/health/init"]
        for path in paths:
            for first in (None, "OPTIONS", "GET", "HEAD"):
                seq = ([(first, path)] if first else []) + [("POST", path)]
                for verb, pth in seq:
                    ran.clear()
                    r = client.simulate_request(verb, pth, headers={"Content-Type": "application/vnd.apache.arrow.stream"}, body=b"")
                    if py_spec_bypass(verb, pth, prefix, health, oauth == "pkce"):
                        continue
                    if r.status_code != 401 or ran:
                        return (
                            {"config": CONFIGS.index((prefix, health, oauth)), "sequence": seq},
                            ReplayResult(True, f"make_wsgi_app(prefix={prefix!r}, enable_health_endpoint={health}, oauth={oauth}), authenticator rejects everything; request sequence {seq}: {verb} {pth} answered {r.status_code} (service code ran: {ran}) instead of 401"),
                        )
    return None


@unit(
    "C20.O1/O2 process_request with the exempt list of the live make_wsgi_app middleware (14 configurations)",
    targets=["vgi_rpc/http/server/_middleware.py::_AuthMiddleware.process_request", "vgi_rpc/http/server/_factory.py::make_wsgi_app (executed natively)"],
    replay=replay_live,
    search=search_live,
    min_obligations=200,
    max_paths=6000,
)
def middleware_live(S: Any) -> None:
    ci = S.choose(len(CONFIGS))
    prefix, health, oauth = CONFIGS[ci]
    S.inputs["config"] = ci
    live = live_auth_middleware(real_app(prefix, health, oauth))
    S.cur_site = f"make_wsgi_app(prefix={prefix!r}, enable_health_endpoint={health}, oauth={oauth})"
    S.oblige("O1.configured_callback_is_wired_into_the_middleware", live._authenticate is not None, kind="pre")
    me = SObj(mw._AuthMiddleware, _authenticate=None, _www_authenticate=live._www_authenticate, _on_auth_failure=None, _exempt_prefixes=tuple(live._exempt_prefixes))
    drive(S, me, prefix, health, oauth == "pkce", canaries=ci == 1)


# ======================================================================================
# C20.O3: no RPC route template can match a bypassed path (other than health / _oauth/*)
# ======================================================================================

_LO, _HI = z3.StringVal("\x00"), z3.StringVal("\\u{2ffff}")


def _rng(a: str, b: str | None = None) -> Any:
    return z3.Range(z3.StringVal(a), z3.StringVal(b) if b is not None else _HI)


# an identifier character is never '.', '/' ; a service method name does not start with '_'
_REST = z3.Union(_rng("\x00", "-"), _rng("0", "^"), z3.Re(z3.StringVal("_")), _rng("`"))
_FIRST = z3.Union(_rng("\x00", "-"), _rng("0", "^"), _rng("`"))
SERVICE_NAME = z3.Union(z3.Concat(_FIRST, z3.Star(_REST)), z3.Re(z3.StringVal("__describe__")))
_SEGCHAR = z3.Union(_rng("\x00", "."), _rng("0", "z"), z3.Re(z3.StringVal("|")), _rng("~"))  # not '/', '{', '}'
PREFIX_RE = z3.Star(z3.Concat(z3.Re(z3.StringVal("/")), z3.Plus(_SEGCHAR)))


def is_service_name(m: Any) -> Any:
    return SBool(z3.InRe(strterm(m), SERVICE_NAME))


def py_is_service_name(m: str) -> bool:
    return m == "__describe__" or (m != "" and not m.startswith("_") and "/" not in m and "." not in m)


def template_pieces(template: Any) -> list[Any]:
    """A route template as a list of literal strings and symbolic parts (the prefix)."""
    if isinstance(template, str):
        return [template]
    t = template.t
    if z3.is_string_value(t):
        return [t.as_string()]
    parts: list[Any] = []

    def rec(x: Any) -> None:
        if z3.is_string_value(x):
            parts.append(z3.simplify(x).as_string() if not isinstance(x.as_string(), str) else x.as_string())
        elif x.decl().kind() == z3.Z3_OP_SEQ_CONCAT:
            for c in x.children():
                rec(c)
        else:
            parts.append(SStr(x))

    rec(z3.simplify(t))
    return parts


def instantiate(S: Any, template: Any, method_name: Any) -> Any:
    """The paths matched by a falcon URI template: literal text kept, {method} -> the method
    name, any other {field} -> a fresh non-empty '/'-free segment."""
    out: Any = ""
    for piece in template_pieces(template):
        if not isinstance(piece, str):
            out = out + piece
            continue
        rest = piece
        while "{" in rest:
            lit, _, tail = rest.partition("{")
            field, _, rest = tail.partition("}")
            out = out + lit
            if field.split(":")[0] == "method":
                out = out + method_name
            else:
                seg = S.str("segment_" + field)
                S.assume(SBool(z3.InRe(seg.t, z3.Plus(z3.Union(_rng("\x00", "."), _rng("0"))))))
                out = out + seg
        out = out + rest
    return out


def route_obligations(S: Any, routes: list[tuple[Any, type]], prefix: Any, health: bool, pkce: bool, health_is_literal_route: bool) -> None:
    m = S.str("method_name")
    S.assume(is_service_name(m))
    http_method = S.str("http_method")
    S.assume(Not(eq(http_method, "OPTIONS")))  # falcon answers OPTIONS itself; checked below: no RPC resource has on_options
    opened = open_resources()
    n = 0
    for template, cls in routes:
        S.cur_site = f"add_route({template!r}, {cls.__name__})"
        if cls in opened:
            continue
        n += 1
        path = instantiate(S, template, m)
        # the only overlap the property allows: the exact health path, which falcon gives to the literal health route
        allowed = And(eq(path, prefix + "/health"), health and health_is_literal_route) if health else False
        for cname, clause in bypass_clauses(http_method, path, prefix, health, pkce).items():  # one VC per bypass clause
            if cname == "OPTIONS":
                continue  # assumed away above
            if cname == "well_known" and not isinstance(prefix, str):
                # symbolic prefix: the route's paths are instances of the lemma proved in symbolic_config
                # (prefix + "/" + anything, or the prefix itself) - checked on the template's syntax
                pieces = template_pieces(template)
                below = len(pieces) >= 1 and isinstance(pieces[0], SStr) and z3.eq(pieces[0].t, prefix.t) and (len(pieces) == 1 or (isinstance(pieces[1], str) and pieces[1].startswith("/") and all(isinstance(x, str) for x in pieces[1:])))
                S.oblige(f"O3.route_is_the_prefix_or_below_it.{cls.__name__}", below, kind="lemma", witness=cls.__name__)
                continue
            S.oblige(f"O3.route_cannot_match_a_bypassed_path.{cls.__name__}.{cname}", Implies(clause, allowed), kind="lemma", witness=cls.__name__)
        S.oblige(f"O3.protected_resource_has_no_OPTIONS_responder.{cls.__name__}", not hasattr(cls, "on_options"), kind="lemma")
    S.oblige("O3.rpc_routes_found", n >= 4, kind="lemma")
    if health:
        S.canary("O3.canary.health_path_is_not_bypassed", Not(spec_bypass(http_method, prefix + "/health", prefix, health, pkce)))


def replay_routes(inputs: dict[str, Any], ob: Any) -> ReplayResult:
    if "config" in inputs:
        prefix, health, oauth = CONFIGS[int(inputs["config"])]
    else:
        prefix, health, oauth = _s(inputs.get("prefix", "")), bool(inputs.get("health")), inputs.get("oauth", "none")
    try:
        app = real_app(prefix, health, oauth)
    except Exception as e:
        return ReplayResult(False, f"make_wsgi_app(prefix={prefix!r}) raised {type(e).__name__}: {e}")
    m = _s(inputs.get("method_name", "u"))
    if not py_is_service_name(m):
        return ReplayResult(False, f"model method name {m!r} is not a service method name")
    opened = open_resources()
    hits = []
    for template, cls in live_routes(app):
        if cls in opened:
            continue
        path = template.replace("{method}", m)
        if "{" in path:
            continue
        found = app._router.find(path)
        res = type(found[0]) if found else None
        if res is not None and res not in opened and py_spec_bypass("POST", path, prefix, health, oauth == "pkce"):
            hits.append(f"POST {path} is routed to {res.__name__} and is on a bypass path")
    return ReplayResult(bool(hits), f"prefix={prefix!r} health={health} oauth={oauth} method={m!r}: " + ("; ".join(hits) or "no protected route on a bypass path"))


@unit(
    "C20.O3 route templates of the live falcon router vs bypass paths (14 configurations)",
    targets=["vgi_rpc/http/server/_factory.py::make_wsgi_app (executed natively; route table read from falcon's compiled router)"],
    replay=replay_routes,
    min_obligations=200,
)
def routes_live(S: Any) -> None:
    ci = S.choose(len(CONFIGS))
    prefix, health, oauth = CONFIGS[ci]
    S.inputs["config"] = ci
    app = real_app(prefix, health, oauth)
    routes = live_routes(app)
    found = app._router.find(prefix + "/health")
    import vgi_rpc.http.server._resources as rs

    literal = bool(found) and isinstance(found[0], rs._HealthResource)
    route_obligations(S, routes, prefix, health, oauth == "pkce", literal)
    if health:
        S.oblige("O3.health_path_is_routed_to_the_health_resource", literal, kind="lemma")


# ======================================================================================
# symbolic prefix: the slice of make_wsgi_app that builds _AuthMiddleware(...) and the routes
# ======================================================================================


def _is_call_to(node: ast.AST, name: str) -> bool:
    return isinstance(node, ast.Call) and isinstance(node.func, ast.Name) and node.func.id == name


def _is_route_call(node: ast.AST) -> bool:
    return isinstance(node, ast.Call) and isinstance(node.func, ast.Attribute) and node.func.attr == "add_route" and isinstance(node.func.value, ast.Name) and node.func.value.id == "app"


WELL_KNOWN = "/.well-known/"


def symbolic_config(S: Any, for_routes: bool = False) -> tuple[Any, bool, str, dict[str, Any]]:
    prefix = S.str("prefix")
    if not for_routes:
        pass  # the middleware obligations hold for every prefix string whatsoever
    elif S.fork(eq(prefix, "")):
        prefix = ""  # the root mount is its own case (all route templates become literal text)
    else:
        S.assume(Not(starts(prefix + "/", WELL_KNOWN)))  # the service is not mounted under /.well-known/
        # stepping stone, proved once per configuration before the (solver-heavy) shape constraint is added:
        # nothing below such a prefix is under /.well-known/ (any_tail is a fresh constant = universally quantified)
        any_tail = S.str("any_tail")
        S.lemma("O3.nothing_below_the_prefix_is_under_well_known", Not(starts(prefix + "/" + any_tail, WELL_KNOWN)))
        S.lemma("O3.the_prefix_itself_is_not_under_well_known", Not(starts(prefix, WELL_KNOWN)))
        S.assume(SBool(z3.InRe(prefix.t, PREFIX_RE)))
    health = S.choose(2) == 0
    oauth = OAUTH[S.choose(3)]
    S.inputs.update({"health": health, "oauth": oauth})
    meta = None
    if oauth != "none":
        meta = SObj(OAuthResourceMetadata, resource="https://svc.example", authorization_servers=("https://idp.example",), client_id="cid" if oauth == "pkce" else None, client_secret=None, scopes_supported=(), use_id_token_as_bearer=False)
    env = {
        "prefix": prefix,
        "enable_health_endpoint": health,
        "authenticate": SObj(None, kind="Authenticate"),
        "oauth_resource_metadata": meta,
    }
    # callees of the slice, by contract: they wrap / describe the callback, never the exempt list
    S.handlers["make_cookie_authenticate"] = lambda S, inner: SObj(None, kind="Authenticate")
    S.handlers["chain_authenticate"] = lambda S, *a: SObj(None, kind="Authenticate")
    return prefix, health, oauth, env


def replay_sliced(inputs: dict[str, Any], ob: Any) -> ReplayResult:
    prefix, health, oauth = _s(inputs.get("prefix", "")), bool(inputs.get("health")), inputs.get("oauth", "none")
    try:
        app = real_app(prefix, health, oauth, authenticate=lambda req: None)
    except Exception as e:
        return ReplayResult(False, f"make_wsgi_app(prefix={prefix!r}) raised {type(e).__name__}: {e}")
    bad, detail = native_request(app, _s(inputs.get("http_method", "GET")), _s(inputs.get("path", "/")), inputs.get("auth_mode", "ValueError"), inputs.get("hook_mode", "absent"), prefix, health, oauth == "pkce")
    return ReplayResult(bad, f"make_wsgi_app(prefix={prefix!r}, enable_health_endpoint={health}, oauth={oauth}): " + detail)


@unit(
    "C20.O1/O2 process_request with the exempt list built by the executed slice of make_wsgi_app (symbolic prefix)",
    targets=["vgi_rpc/http/server/_middleware.py::_AuthMiddleware.process_request", "vgi_rpc/http/server/_middleware.py::_AuthMiddleware.__init__", "vgi_rpc/http/server/_factory.py::make_wsgi_app (backward slice of the _AuthMiddleware(...) call)"],
    replay=replay_sliced,
    min_obligations=60,
)
def middleware_sliced(S: Any) -> None:
    prefix, health, oauth, env = symbolic_config(S)
    env.update({"www_authenticate": None, "on_auth_failure": None})
    S.inline.add("_AuthMiddleware")  # the real __init__ builds the object
    loc = slicing.run_slice(S, fac.make_wsgi_app, lambda n: _is_call_to(n, "_AuthMiddleware"), env, stop={"www_authenticate", "on_auth_failure"})
    me = loc["__slice_0"]
    S.oblige("O1.configured_callback_is_wired_into_the_middleware", isinstance(me, SObj) and me.fields.get("_authenticate") is not None, kind="pre")
    drive(S, me, prefix, health, oauth == "pkce", canaries=health and oauth == "pkce")


@unit(
    "C20.O3 route templates of the executed add_route slice of make_wsgi_app vs bypass paths (symbolic prefix)",
    targets=["vgi_rpc/http/server/_factory.py::make_wsgi_app (backward slice of the app.add_route(...) calls)"],
    replay=replay_routes,
    min_obligations=40,
)
def routes_sliced(S: Any) -> None:
    prefix, health, oauth, env = symbolic_config(S, for_routes=True)
    import vgi_rpc.http.server._resources as rs

    routes: list[tuple[Any, type]] = []
    app = SObj(None, kind="App")

    def add_route(S: Any, a: Any, template: Any, resource: Any, **kw: Any) -> None:
        routes.append((template, resource.fields["rcls"]))

    S.handlers["App.add_route"] = add_route
    S.handlers["App.add_sink"] = lambda S, a, *x, **k: None
    # resources are opaque here: only their class matters for the route table
    stubbed = set()
    for name, obj in vars(fac).items():
        if isinstance(obj, type) and any(hasattr(obj, "on_" + v) for v in ("get", "post", "delete", "put", "head", "options", "patch")):
            S.handlers[obj] = (lambda c: lambda S, *a, **k: SObj(None, kind="Resource", rcls=c))(obj)
            stubbed.add(name)
    import vgi_rpc.http._oauth as oa
    import vgi_rpc.http._oauth_pkce as pk

    for obj in (oa._OAuthResourceMetadataResource, pk._OAuthCallbackResource, pk._OAuthLogoutResource, pk._OAuthTokenProxyResource):
        S.handlers[obj] = (lambda c: lambda S, *a, **k: SObj(None, kind="Resource", rcls=c))(obj)
    opaque = lambda kind: SObj(None, kind=kind)  # noqa: E731
    env.update(
        {
            "app": app,
            "app_handler": opaque("AppHandler"),
            "server": SObj(None, kind="Server", server_id="srv", protocol_name="P", describe_enabled=True),
            "sticky_registry": opaque("Registry"),
            "token_key": b"k" * 32,
            "upload_url_provider": opaque("Provider"),
            "enable_sticky": True,
            "enable_landing_page": True,
            "enable_describe_page": True,
            "enable_not_found_page": True,
            "introspect_resolver": opaque("Resolver"),
            "introspect_rate_limit": 20,
            "repo_url": None,
            "_advertised_token_endpoint": None,
            "describe_html": b"",
            "landing_body": b"",
            "_introspect_principals": frozenset(),
        }
    )
    stop = {"app", "app_handler", "server", "sticky_registry", "token_key", "_advertised_token_endpoint", "describe_html", "landing_body", "_introspect_principals"}
    # every _pkce_* local only parameterises OAuth resources (opaque here); _pkce_active is NOT stopped
    fs_names = {n.id for n in ast.walk(slicing.source_of(fac.make_wsgi_app).node) if isinstance(n, ast.Name)}
    for nm in fs_names:
        if nm.startswith("_pkce_") and nm != "_pkce_active":
            stop.add(nm)
            env.setdefault(nm, opaque("PkceSetting"))
    slicing.run_slice(S, fac.make_wsgi_app, _is_route_call, env, stop=stop)
    S.oblige("O3.route_table_built", len(routes) >= 5, kind="lemma")
    health_literal = any(cls is rs._HealthResource and z3.eq(z3.simplify(strterm(t)), z3.simplify(strterm(prefix + "/health"))) for t, cls in routes)
    route_obligations(S, routes, prefix, health, oauth == "pkce", health_literal)
    if health:
        S.oblige("O3.health_path_is_routed_to_the_health_resource", health_literal, kind="lemma")
