"""Drivers that execute the real RpcServer._serve_unary / _serve_stream inside the abstract world
of lib_server, shared by the properties that place obligations on them (C04 connection
survival, C10 stream lifecycle, C29 region release, C34 access logs).  User code (service
method, stream state, dispatch hooks, client-log sink) is arbitrary: returns or raises."""

from __future__ import annotations

from typing import Any

import pyarrow as pa

import vgi_rpc.rpc._server as srv
from lib_server import CONNECTION_ENDING, UserError, World, method_info, raise_, user_cls
from pyvc.api import *  # noqa: F403
from pyvc.api import PyRaise
from vgi_rpc.rpc._common import MethodType
from vgi_rpc.rpc._types import AnnotatedBatch, CallContext, OutputCollector


def install_common(S: Any, W: World, info: Any) -> dict[str, Any]:
    H = S.handlers
    ctx: dict[str, Any] = {}
    H["_ClientLogSink"] = lambda S, server_id=None: SObj(None, kind="Sink")
    import vgi_rpc.rpc._wire as wire

    H[wire._ClientLogSink] = lambda S, server_id=None: SObj(None, kind="Sink")

    def flush_contents(S, sink, writer, schema):
        W.maybe_fail("sink_flush")
        S.event("sink_flush")

    H["Sink.flush_contents"] = flush_contents
    def call_context(S, **kw):
        o = SObj(None, kind="CallCtx")
        o.fields.update(kw)
        return o

    H[CallContext] = call_context
    hook_mode = ["none", "ok", "start_raises", "end_raises"][S.choose(4)]
    ctx["hook_mode"] = hook_mode
    hook = None
    if hook_mode != "none":
        hook = SObj(None, kind="Hook")

        def on_start(S, h, *a, **k):
            S.event("hook_start")
            if hook_mode == "start_raises":
                raise_(user_cls(S), "hook start")
            return "hook-token"

        def on_end(S, h, *a, **k):
            S.event("hook_end")
            if hook_mode == "end_raises":
                raise_(user_cls(S), "hook end")

        H["Hook.on_dispatch_start"] = on_start
        H["Hook.on_dispatch_end"] = on_end
    ctx["hook"] = hook
    H["_validate_result"] = lambda S, name, value, rtype: (raise_(TypeError, "expected a non-None return value") if S.choose(2) == 1 else None)
    return ctx


def make_server(S: Any, hook: Any, impl: Any, describe: bool = False) -> Any:
    return SObj(
        srv.RpcServer,
        _ipc_validation="full",
        _external_config=None,
        _transport_kind=None,
        _server_id="srv",
        _server_version="1",
        _protocol_hash="h",
        _dispatch_hook=hook,
        _impl=impl,
        _ctx_methods=frozenset(["m"]) if S.choose(2) == 1 else frozenset(),
        _describe_batch=(SObj(None, kind="Batch", schema=SObj(None, kind="Schema", tag="describe")) if describe else None),
        _describe_metadata={},
    )


def run_serve_unary(S: Any, writes_may_fail: bool = False) -> dict[str, Any]:
    W = World(S)
    W.writes_may_fail = writes_may_fail
    describe = S.choose(2) == 1
    info = method_info("__describe__" if describe and S.choose(2) == 1 else "m", MethodType.UNARY)
    ctx = install_common(S, W, info)
    impl = SObj(None, kind="Impl")
    impl.closed = True
    impl.fields[info.fields["name"]] = SObj(None, kind="UserMethod")
    impl_mode = {"v": None}

    def user_method(S, m, **kwargs):
        S.event("impl_invoked")
        k = S.choose(2)
        impl_mode["v"] = ["returns", "raises"][k]
        if k == 1:
            raise_(user_cls(S), S.str("user_error_text"))
        return S.opaque("result_value", "PyVal?")

    S.handlers["UserMethod.__call__"] = user_method
    wr_mode = {"v": "not-called"}

    def build_result_batch(S, schema, value):
        # pyarrow conversion of whatever the method returned: succeeds or raises (ArrowInvalid/TypeError/...)
        k = S.choose(3)
        wr_mode["build"] = ["ok", "ArrowInvalid", "TypeError"][k]
        S.event("build_result", wr_mode["build"])
        if k == 1:
            raise_(pa.ArrowInvalid, "Could not convert value")
        if k == 2:
            raise_(pa.ArrowTypeError, "Expected an int")
        return SObj(None, kind="Batch", tag="result")

    def write_result_batch(S, writer, schema, value, external_config=None, shm=None, prebuilt=None):
        if prebuilt is None:
            build_result_batch(S, schema, value)
        W.maybe_fail("result_batch")
        S.event("result_batch", writer)
        return 0

    S.handlers["_build_result_batch"] = build_result_batch
    S.handlers["_write_result_batch"] = write_result_batch
    S.inline.add("RpcServer._prepare_method_call")
    me = make_server(S, ctx["hook"], impl, describe)
    transport = SObj(None, kind="Transport", reader=SObj(None, kind="RawReader"), writer=SObj(None, kind="RawWriter"))
    out = S.outcome(srv.RpcServer._serve_unary, me, transport, info, {}, stats=SObj(None, kind="Stats"), shm=None)
    ctx.update({"W": W, "out": out, "info": info, "impl_mode": impl_mode["v"], "build": wr_mode.get("build"), "describe": describe})
    return ctx


# =========================================================================================
# _serve_stream
# =========================================================================================

AB_SHAPE = RecShape("AB", tag=IntShape)


def run_serve_stream(S: Any, writes_may_fail: bool = False, reader_may_fail: bool = True) -> dict[str, Any]:
    """Execute the real RpcServer._serve_stream with arbitrary user code and an arbitrary client script.

    Ghost counters (Int, in S.ghost, declared in loop_ghost so they are havocked at the loop head and
    constrained by the invariant): n_read (data inputs read), n_process, n_flush, n_released (inputs
    released), n_resolved (inputs whose shm/external region was resolved)."""
    import z3

    W = World(S)
    W.writes_may_fail = writes_may_fail
    header_declared = S.choose(2) == 1
    info = method_info("m", MethodType.STREAM, header=header_declared)
    ctx = install_common(S, W, info)
    H = S.handlers
    for g in ("n_read", "n_process", "n_flush", "n_released", "n_cancel_hook"):
        S.ghost[g] = SInt(z3.IntVal(0))

    def bump(g: str) -> None:
        S.ghost[g] = S.ghost[g] + 1

    # ---- the service method: raises, returns a stream, or returns something that is not a stream
    result_mode = ["stream", "raises", "not_a_stream", "header_missing"][S.choose(4)]
    ctx["result_mode"] = result_mode
    state = SObj(None, kind="State")
    impl = SObj(None, kind="Impl", m=SObj(None, kind="UserMethod"))
    impl.closed = True

    def user_method(S, m, **kwargs):
        S.event("impl_invoked")
        if result_mode == "raises":
            raise_(user_cls(S), S.str("user_error_text"))
        if result_mode == "not_a_stream":
            junk = SObj(None, kind="NotAStream")
            junk.closed = True
            return junk
        hdr = None if result_mode == "header_missing" else SObj(None, kind="Header")
        return SObj(None, kind="StreamResult", output_schema=SObj(None, kind="Schema", tag="out"), input_schema=SObj(None, kind="Schema", tag="in"), state=state, header=hdr)

    H["UserMethod.__call__"] = user_method
    H["Schema.__eq__"] = lambda S, a, b: (a is b) if isinstance(b, SObj) else False

    def write_stream_header(S, dest, header, external_config=None, sink=None, method_name=""):
        # by contract (the function's own documented behaviour): header None -> TypeError
        if header is None:
            raise_(TypeError, "declares header type but returned header=None")
        W.maybe_fail("header_stream")
        S.event("header_stream", dest)

    H["_write_stream_header"] = write_stream_header

    # ---- the client's input stream: an arbitrary script
    import pyarrow.ipc as ipc

    def open_stream(S, src):
        if reader_may_fail and S.choose(2) == 1:
            S.event("reader_failed", "open")
            raise_(pa.ArrowInvalid, "input is not an IPC stream")
        return SObj(None, kind="RawIpcReader")

    H[ipc.open_stream] = open_stream
    from vgi_rpc.utils import ValidatedReader

    H[ValidatedReader] = lambda S, raw, validation=None: SObj(None, kind="Reader")

    def read_next(S, r):
        k = S.choose(4 if reader_may_fail else 3)
        if k == 0:
            S.event("input_eos")
            raise_(StopIteration)
        if k == 1:
            S.event("input_cancel")
            return (SObj(None, kind="Batch", tag="cancel"), {b"vgi_rpc.cancel": b"1"})
        if k == 3:
            S.event("reader_failed", "read")
            raise_(pa.ArrowInvalid, "corrupt batch")
        bump("n_read")
        return (SObj(None, kind="Batch", tag="input"), None)

    H["Reader.read_next_batch_with_custom_metadata"] = read_next

    def drain(S, reader, shm=None):
        S.event("drained", shm)
        if reader_may_fail and S.choose(2) == 1:
            raise_(pa.ArrowInvalid, "garbage after cancel")

    H["_drain_stream"] = drain

    # ---- per-input processing (each step may fail like user/pyarrow code can)
    def may_raise(tag, cls=None):
        if S.choose(2) == 1:
            S.event("step_failed", tag)
            raise_(cls or user_cls(S), tag)

    def resolve_external(S, batch, cm, config, ipc_validation=None):
        may_raise("resolve_external", RuntimeError)
        return (batch, cm)

    def resolve_shm(S, batch, cm, shm):
        may_raise("resolve_shm", ValueError)
        return (batch, cm, SObj(None, kind="ReleaseFn"))

    def coerce(S, batch, schema):
        may_raise("coerce", TypeError)
        return batch

    H["resolve_external_location"] = resolve_external
    H["resolve_shm_batch"] = resolve_shm
    H["_coerce_input_batch"] = coerce

    def annotated(S, batch=None, custom_metadata=None, _release_fn=None):
        return SObj(None, kind="AB", tag=S.int("ab_tag"))

    H[AnnotatedBatch] = annotated

    def ab_release(S, ab):
        bump("n_released")
        if S.choose(2) == 1:
            raise_(ValueError, "No allocation at offset")  # shm.free may raise

    H["AB.release"] = ab_release

    def release_fn_call(S, rf):
        # the region's release function called directly (input rejected before an AnnotatedBatch owned it)
        bump("n_released")
        if S.choose(2) == 1:
            raise_(ValueError, "No allocation at offset")  # shm.free may raise

    H["ReleaseFn.__call__"] = release_fn_call

    def collector(S, schema, prior_data_bytes=0, server_id=None, producer_mode=False):
        return SObj(None, kind="Out", finished=S.bool("out_finished"), total_data_bytes=S.int("out_bytes"), emit_client_log_message=SObj(None, kind="EmitFn"))

    H[OutputCollector] = collector
    H["Out.validate"] = lambda S, o: may_raise("validate", RuntimeError)

    def process(S, st, ab, out, pctx):
        bump("n_process")
        S.oblige("lifecycle.no_process_after_cancel", not S.events("input_cancel"), kind="trace")
        may_raise("process")

    H["State.process"] = process

    def on_cancel(S, st, cctx):
        bump("n_cancel_hook")
        may_raise("on_cancel")

    H["State.on_cancel"] = on_cancel

    def flush(S, writer, out, config=None, shm=None):
        may_raise("flush", pa.ArrowInvalid)
        W.maybe_fail("flush")
        bump("n_flush")
        return 0

    H["_flush_collector"] = flush
    S.inline.add("RpcServer._prepare_method_call")

    G = S.ghost

    def inv(L):
        return [
            ("process_per_input", And(G["n_process"] == G["n_read"], G["n_flush"] == G["n_read"], G["n_read"] >= 0)),
            ("all_but_last_input_released", G["n_released"] == ite(G["n_read"] > 0, G["n_read"] - 1, SInt(z3.IntVal(0)))),
            ("prev_input_tracks_reads", SBool(z3.BoolVal(L.prev_input is None)) == (G["n_read"] == 0)),
            ("no_cancel_hook_yet", G["n_cancel_hook"] == 0),
        ]

    S.invariants[("RpcServer._serve_stream", 0)] = inv
    S.loop_havoc[("RpcServer._serve_stream", 0)] = {"prev_input": OptShape(AB_SHAPE), "cumulative_bytes": IntShape}
    S.loop_ghost[("RpcServer._serve_stream", 0)] = ["n_read", "n_process", "n_flush", "n_released"]
    me = make_server(S, ctx["hook"], impl)
    transport = SObj(None, kind="Transport", reader=SObj(None, kind="RawReader"), writer=SObj(None, kind="RawWriter"))
    shm_seg = S.ghost.get("__call_shm__")  # a contract may hand the call a segment (C29: drains must be given it)
    out = S.outcome(srv.RpcServer._serve_stream, me, transport, info, {}, stats=SObj(None, kind="Stats"), shm=shm_seg)
    ctx.update({"W": W, "out": out, "info": info, "header_declared": header_declared, "G": G})
    return ctx
