"""Drivers that execute the real RpcServer._serve_unary / _serve_stream inside the abstract world
of lib_server, shared by the properties that place obligations on them (C04 connection
survival, C10 stream lifecycle, C29 region release, C34 access logs).  User code (service
method, stream state, dispatch hooks, client-log sink) is arbitrary: returns or raises."""

from __future__ import annotations

from typing import Any

import pyarrow as pa

import vgi_rpc.rpc._server as srv
from lib_server import CONNECTION_ENDING, UserError, World, method_info, raise_
from pyvc.api import *  # noqa: F403
from pyvc.api import PyRaise
from vgi_rpc.rpc._common import MethodType
from vgi_rpc.rpc._types import AnnotatedBatch, CallContext, OutputCollector


def install_common(S: Any, W: World, info: Any) -> dict[str, Any]:
    H = S.handlers
    ctx: dict[str, Any] = {}
    H["_ClientLogSink"] = lambda S, server_id=None: SObj(None, kind="Sink")
    import vgi_rpc.rpc._wire as wire

    H[wire._ClientLogSink] = lambda S, server_id=None: SObj(None, kind="Sink")

    def flush_contents(S, sink, writer, schema):
        W.maybe_fail("sink_flush")
        S.event("sink_flush")

    H["Sink.flush_contents"] = flush_contents
    def call_context(S, **kw):
        o = SObj(None, kind="CallCtx")
        o.fields.update(kw)
        return o

    H[CallContext] = call_context
    hook_mode = ["none", "ok", "start_raises", "end_raises"][S.choose(4)]
    ctx["hook_mode"] = hook_mode
    hook = None
    if hook_mode != "none":
        hook = SObj(None, kind="Hook")

        def on_start(S, h, *a, **k):
            S.event("hook_start")
            if hook_mode == "start_raises":
                raise_(UserError, "hook start")
            return "hook-token"

        def on_end(S, h, *a, **k):
            S.event("hook_end")
            if hook_mode == "end_raises":
                raise_(UserError, "hook end")

        H["Hook.on_dispatch_start"] = on_start
        H["Hook.on_dispatch_end"] = on_end
    ctx["hook"] = hook
    H["_validate_result"] = lambda S, name, value, rtype: (raise_(TypeError, "expected a non-None return value") if S.choose(2) == 1 else None)
    return ctx


def make_server(S: Any, hook: Any, impl: Any, describe: bool = False) -> Any:
    return SObj(
        srv.RpcServer,
        _ipc_validation="full",
        _external_config=None,
        _transport_kind=None,
        _server_id="srv",
        _server_version="1",
        _protocol_hash="h",
        _dispatch_hook=hook,
        _impl=impl,
        _ctx_methods=frozenset(["m"]) if S.choose(2) == 1 else frozenset(),
        _describe_batch=(SObj(None, kind="Batch", schema=SObj(None, kind="Schema", tag="describe")) if describe else None),
        _describe_metadata={},
    )


def run_serve_unary(S: Any, writes_may_fail: bool = False) -> dict[str, Any]:
    W = World(S)
    W.writes_may_fail = writes_may_fail
    describe = S.choose(2) == 1
    info = method_info("__describe__" if describe and S.choose(2) == 1 else "m", MethodType.UNARY)
    ctx = install_common(S, W, info)
    impl = SObj(None, kind="Impl")
    impl.closed = True
    impl.fields[info.fields["name"]] = SObj(None, kind="UserMethod")
    impl_mode = {"v": None}

    def user_method(S, m, **kwargs):
        S.event("impl_invoked")
        k = S.choose(2)
        impl_mode["v"] = ["returns", "raises"][k]
        if k == 1:
            raise_(UserError, S.str("user_error_text"))
        return S.opaque("result_value", "PyVal?")

    S.handlers["UserMethod.__call__"] = user_method
    wr_mode = {"v": "not-called"}

    def build_result_batch(S, schema, value):
        # pyarrow conversion of whatever the method returned: succeeds or raises (ArrowInvalid/TypeError/...)
        k = S.choose(3)
        wr_mode["build"] = ["ok", "ArrowInvalid", "TypeError"][k]
        S.event("build_result", wr_mode["build"])
        if k == 1:
            raise_(pa.ArrowInvalid, "Could not convert value")
        if k == 2:
            raise_(pa.ArrowTypeError, "Expected an int")
        return SObj(None, kind="Batch", tag="result")

    def write_result_batch(S, writer, schema, value, external_config=None, shm=None, prebuilt=None):
        if prebuilt is None:
            build_result_batch(S, schema, value)
        W.maybe_fail("result_batch")
        S.event("result_batch", writer)
        return 0

    S.handlers["_build_result_batch"] = build_result_batch
    S.handlers["_write_result_batch"] = write_result_batch
    S.inline.add("RpcServer._prepare_method_call")
    me = make_server(S, ctx["hook"], impl, describe)
    transport = SObj(None, kind="Transport", reader=SObj(None, kind="RawReader"), writer=SObj(None, kind="RawWriter"))
    out = S.outcome(srv.RpcServer._serve_unary, me, transport, info, {}, stats=SObj(None, kind="Stats"), shm=None)
    ctx.update({"W": W, "out": out, "info": info, "impl_mode": impl_mode["v"], "build": wr_mode.get("build"), "describe": describe})
    return ctx
